package vconsensus

// Simulated network around n real tendermint state machines. Everything the
// machines emit goes through sim.handle (where the online monitors sit, see
// monitor_test.go); everything they receive goes through sim.deliver.

import (
	"fmt"
	"math/rand/v2"
	"os"
	"strconv"

	"github.com/NethermindEth/juno/consensus/starknet"
	"github.com/NethermindEth/juno/consensus/tendermint"
	"github.com/NethermindEth/juno/consensus/types"
	"github.com/NethermindEth/juno/consensus/types/actions"
	"github.com/NethermindEth/juno/utils/log"
	"github.com/NethermindEth/juno/verifh/lib"
)

// VERIF_C12_TRACE=<validator index>: print every event delivered to that validator (debug aid for replays)
var traceNode = func() int {
	if v, err := strconv.Atoi(os.Getenv("VERIF_C12_TRACE")); err == nil {
		return v
	}
	return -1
}()

type SM = tendermint.StateMachine[starknet.Value, starknet.Hash, starknet.Address]

const (
	kProposal uint8 = iota
	kPrevote
	kPrecommit
	kTimeout
	kStart
)

var kindName = [...]string{"PROPOSAL", "PREVOTE", "PRECOMMIT", "TIMEOUT", "START"}

// msg is the harness' own compact form of a consensus message / timeout.
// val 0 = nil id. Value ids are small integers stored in limb 0 of the felt;
// a value is valid iff its id is even.
type msg struct {
	kind uint8
	from int8 // validator index; n = "ghost" (not in the validator set)
	h    types.Height
	r    types.Round
	val  uint64
	vr   types.Round
	step types.Step
}

func (m msg) String() string {
	switch m.kind {
	case kTimeout:
		return fmt.Sprintf("TIMEOUT(%s h%d r%d)", m.step, m.h, m.r)
	case kStart:
		return "START"
	case kProposal:
		return fmt.Sprintf("PROPOSAL(from v%d h%d r%d val=%s vr=%d)", m.from, m.h, m.r, valStr(m.val), m.vr)
	}
	return fmt.Sprintf("%s(from v%d h%d r%d id=%s)", kindName[m.kind], m.from, m.h, m.r, valStr(m.val))
}

func valStr(v uint64) string {
	if v == 0 {
		return "nil"
	}
	s := fmt.Sprintf("%#x", v)
	if v&1 == 1 {
		s += "(invalid)"
	}
	return s
}

type flight struct {
	to int8
	m  msg
}

func addrOf(i int) starknet.Address   { return starknet.Address{uint64(i + 1), 0, 0, 0} }
func hashOf(v uint64) starknet.Hash   { return starknet.Hash{v, 0, 0, 0} }
func valueOf(v uint64) starknet.Value { return starknet.Value{v, 0, 0, 0} }
func idOfHash(h *starknet.Hash) uint64 {
	if h == nil {
		return 0
	}
	if h[1] != 0 || h[2] != 0 || h[3] != 0 {
		return ^uint64(0)
	}
	return h[0]
}
func idOfValue(v *starknet.Value) uint64 {
	if v == nil {
		return 0
	}
	h := starknet.Hash(*v)
	return idOfHash(&h)
}
func idxOfAddr(a *starknet.Address) int {
	if a[1] != 0 || a[2] != 0 || a[3] != 0 || a[0] == 0 {
		return -1
	}
	return int(a[0] - 1)
}
func validVal(v uint64) bool { return v != 0 && v&1 == 0 }

// ---------------------------------------------------------------- configuration

type config struct {
	n       int
	isByz   []bool
	correct []int
	byz     []int
	h0      types.Height
	heights int                   // heights every correct validator has to decide
	power   [][]types.VotingPower // [height index][validator]
	total   []types.VotingPower
	prop    [][]int8 // [height index][round]; rounds beyond the table are round-robin
	label   string
}

func (c *config) hidx(h types.Height) int {
	i := int(h) - int(c.h0)
	if i < 0 {
		return 0
	}
	if i >= len(c.power) {
		return len(c.power) - 1
	}
	return i
}

func (c *config) proposer(h types.Height, r types.Round) int {
	if r < 0 {
		r = 0
	}
	t := c.prop[c.hidx(h)]
	if int(r) < len(t) {
		return int(t[r])
	}
	return (int(h) + int(r)) % c.n
}

func (c *config) pw(h types.Height, i int) types.VotingPower {
	if i < 0 || i >= c.n {
		return 0
	}
	return c.power[c.hidx(h)][i]
}

func (c *config) maskPower(h types.Height, mask uint32) types.VotingPower {
	p := c.power[c.hidx(h)]
	var s types.VotingPower
	for i := 0; mask != 0 && i < c.n; i, mask = i+1, mask>>1 {
		if mask&1 != 0 {
			s += p[i]
		}
	}
	return s
}

// Independent statement of the thresholds (not Juno's arithmetic):
// a quorum is any power P with 3P >= 2N; "f+1" is any power P with 3P >= N,
// i.e. more than every power strictly below N/3 can muster.
func (c *config) isQuorum(h types.Height, p types.VotingPower) bool {
	return 3*uint64(p) >= 2*uint64(c.total[c.hidx(h)])
}

func (c *config) isFPlus1(h types.Height, p types.VotingPower) bool {
	return 3*uint64(p) >= uint64(c.total[c.hidx(h)])
}

func (c *config) quorum(h types.Height) types.VotingPower {
	return (2*c.total[c.hidx(h)] + 2) / 3
}

func (c *config) byzPower(h types.Height) types.VotingPower {
	var s types.VotingPower
	for _, b := range c.byz {
		s += c.pw(h, b)
	}
	return s
}

func (c *config) String() string {
	return fmt.Sprintf("%s n=%d byz=%v h0=%d heights=%d power=%v total=%v proposers=%v", c.label, c.n, c.byz, c.h0, c.heights, c.power, c.total, c.prop)
}

type valset struct{ c *config }

func (v valset) TotalVotingPower(h types.Height) types.VotingPower { return v.c.total[v.c.hidx(h)] }
func (v valset) ValidatorVotingPower(h types.Height, a *starknet.Address) types.VotingPower {
	return v.c.pw(h, idxOfAddr(a))
}
func (v valset) Proposer(h types.Height, r types.Round) starknet.Address {
	return addrOf(v.c.proposer(h, r))
}

// application of validator `owner`: fresh valid value per call.
type app struct {
	owner int
	seq   *uint64
}

func (a app) Value() starknet.Value {
	*a.seq++
	return valueOf((uint64(a.owner+1)<<16 | *a.seq) << 1)
}
func (a app) Valid(v starknet.Value) bool { return validVal(idOfValue(&v)) }

// ---------------------------------------------------------------- simulator

type node struct {
	i        int
	sm       SM
	h        types.Height
	round    types.Round
	done     bool
	logs     []*heightLog
	timeouts []types.Timeout
	seq      uint64
}

type event struct {
	to int8
	m  msg
}

type sim struct {
	r     *lib.Run
	idx   int
	c     *config
	rng   *rand.Rand
	nodes []*node // only correct validators have a machine; byzantine entries are nil
	fl    []flight
	// gossip: every message a correct validator broadcast or received from a
	// byzantine validator (what a gossip layer would eventually spread)
	gossip   []msg
	gossipTo []uint32      // per gossip entry: validators it was already delivered to
	gossiped map[msg]int32 // message -> index in gossip
	decided  map[types.Height]uint64
	decider  map[types.Height]int
	decRound map[types.Height]types.Round
	// byzantine proposers re-send their first proposal of a round instead of a new one
	consistentProposer bool
	seen               map[types.Height][]uint64 // value ids proposed at a height (adversary's alphabet)
	hash               uint64
	steps              int
	violated           bool
	started            bool
	suppressed         int
	trace              [128]event
	ntrace             int
	st                 stats
	byzProps           map[[2]int64]msg // (h,r) -> first proposal a byzantine proposer sent
	// set when a byzantine proposer sent two different proposals for one (h,r)
	byzProposalEquivocation bool
	// systematic mode: the deviations this schedule consists of (for the witness)
	sysDevs []deviation
}

type stats struct {
	maxRound                                      types.Round
	commits, locks, relocks, unlocks              int
	lockFresh, lockStale, lockAllowed, lockForged int
	forgedSeenUnlocked                            int
	byzInj, byzEquiv, drops, dups, timeoutsFired  int
	delivered, rejectedByAge                      int
	skips, roundsByTimeout                        int
	triggerSync, walWrites                        int
	nearQuorum                                    int // actions taken with exactly quorum power (edge hit)
	belowQuorumIdle                               int
	deepHits                                      int
}

func newSim(r *lib.Run, idx int, c *config, rng *rand.Rand) *sim {
	s := &sim{
		r: r, idx: idx, c: c, rng: rng, nodes: make([]*node, c.n),
		decided: map[types.Height]uint64{}, decider: map[types.Height]int{}, decRound: map[types.Height]types.Round{},
		seen: map[types.Height][]uint64{}, gossiped: map[msg]int32{}, hash: 1469598103934665603,
		byzProps: map[[2]int64]msg{},
	}
	vs := valset{c}
	for _, i := range c.correct {
		nd := &node{i: i, h: c.h0, round: -1, logs: make([]*heightLog, c.heights+2)}
		nd.sm = tendermint.New[starknet.Value, starknet.Hash, starknet.Address](
			log.NewNopZapLogger(), addrOf(i), app{i, &nd.seq}, vs, c.h0)
		s.nodes[i] = nd
	}
	return s
}

func (s *sim) start() {
	if s.started {
		return
	}
	s.started = true
	for _, i := range s.c.correct {
		nd := s.nodes[i]
		s.handle(nd, msg{kind: kStart, h: nd.h}, nd.sm.ProcessStart(0))
	}
}

func (s *sim) mix(x uint64) {
	s.hash ^= x
	s.hash *= 1099511628211
}

func (s *sim) note(to int, m msg) {
	s.mix(uint64(to)<<56 ^ uint64(m.kind)<<48 ^ uint64(uint8(m.from))<<40 ^ uint64(m.h)<<32 ^ uint64(uint16(m.r))<<16 ^ uint64(uint8(m.vr))<<8 ^ uint64(m.step))
	s.mix(m.val)
	s.trace[s.ntrace%len(s.trace)] = event{int8(to), m}
	s.ntrace++
}

func (s *sim) allDone() bool {
	for _, i := range s.c.correct {
		if !s.nodes[i].done {
			return false
		}
	}
	return true
}

func (s *sim) addGossip(m msg) {
	if _, ok := s.gossiped[m]; ok {
		return
	}
	s.gossiped[m] = int32(len(s.gossip))
	s.gossip = append(s.gossip, m)
	s.gossipTo = append(s.gossipTo, 0)
}

func (s *sim) sawValue(h types.Height, v uint64) {
	if v == 0 {
		return
	}
	l := s.seen[h]
	for _, x := range l {
		if x == v {
			return
		}
	}
	if len(l) < 12 {
		s.seen[h] = append(l, v)
	}
}

// deliver hands m to the real state machine of validator `to` and runs the
// monitors over the actions it returns.
func (s *sim) deliver(to int, m msg) {
	nd := s.nodes[to]
	if nd == nil || nd.done || s.violated {
		return
	}
	s.steps++
	s.note(to, m)
	if m.kind != kTimeout {
		if k, ok := s.gossiped[m]; ok {
			s.gossipTo[k] |= 1 << uint(to)
		}
	}
	var acts []starknet.Action
	switch m.kind {
	case kTimeout:
		s.st.timeoutsFired++
		acts = nd.sm.ProcessTimeout(types.Timeout{Step: m.step, Height: m.h, Round: m.r})
	case kProposal:
		s.monDelivered(nd, m)
		v := valueOf(m.val)
		acts = nd.sm.ProcessProposal(&starknet.Proposal{
			MessageHeader: starknet.MessageHeader{Height: m.h, Round: m.r, Sender: addrOf(int(m.from))},
			ValidRound:    m.vr, Value: &v,
		})
	case kPrevote:
		s.monDelivered(nd, m)
		acts = nd.sm.ProcessPrevote(&starknet.Prevote{
			MessageHeader: starknet.MessageHeader{Height: m.h, Round: m.r, Sender: addrOf(int(m.from))}, ID: idPtr(m.val),
		})
	case kPrecommit:
		s.monDelivered(nd, m)
		acts = nd.sm.ProcessPrecommit(&starknet.Precommit{
			MessageHeader: starknet.MessageHeader{Height: m.h, Round: m.r, Sender: addrOf(int(m.from))}, ID: idPtr(m.val),
		})
	}
	s.st.delivered++
	if traceNode >= 0 && to == traceNode {
		out := ""
		for _, a := range acts {
			out += fmt.Sprintf(" %T", a)
			if t, ok := a.(*actions.ScheduleTimeout); ok {
				out += fmt.Sprintf("%v", *t)
			}
		}
		fmt.Printf("TRACE step=%d v%d(h%d r%d) <- %s =>%s\n", s.steps, to, nd.h, nd.round, m, out)
	}
	s.handle(nd, m, acts)
}

func idPtr(v uint64) *starknet.Hash {
	if v == 0 {
		return nil
	}
	h := hashOf(v)
	return &h
}

func (s *sim) broadcast(from int, m msg) {
	s.addGossip(m)
	for _, j := range s.c.correct {
		if j != from && !s.nodes[j].done {
			s.fl = append(s.fl, flight{int8(j), m})
		}
	}
}

// handle = the driver's execute(): network effects of the actions plus the monitors.
func (s *sim) handle(nd *node, in msg, acts []starknet.Action) {
	committed := false
	for _, a := range acts {
		if s.violated {
			return
		}
		switch a := a.(type) {
		case *starknet.WriteWAL:
			s.st.walWrites++
		case *starknet.BroadcastProposal:
			m := msg{kind: kProposal, from: int8(idxOfAddr(&a.Sender)), h: a.Height, r: a.Round, val: idOfValue(a.Value), vr: a.ValidRound}
			s.monOwnProposal(nd, in, m)
			s.sawValue(m.h, m.val)
			s.broadcast(nd.i, m)
		case *starknet.BroadcastPrevote:
			m := msg{kind: kPrevote, from: int8(idxOfAddr(&a.Sender)), h: a.Height, r: a.Round, val: idOfHash(a.ID)}
			s.monOwnPrevote(nd, in, m)
			s.broadcast(nd.i, m)
		case *starknet.BroadcastPrecommit:
			m := msg{kind: kPrecommit, from: int8(idxOfAddr(&a.Sender)), h: a.Height, r: a.Round, val: idOfHash(a.ID)}
			s.monOwnPrecommit(nd, in, m)
			s.broadcast(nd.i, m)
		case *actions.ScheduleTimeout:
			s.monTimeout(nd, in, types.Timeout(*a))
			nd.timeouts = append(nd.timeouts, types.Timeout(*a))
		case *starknet.Commit:
			s.monCommit(nd, in, msg{kind: kProposal, from: int8(idxOfAddr(&a.Sender)), h: a.Height, r: a.Round, val: idOfValue(a.Value), vr: a.ValidRound})
			committed = true
		case *actions.TriggerSync:
			s.st.triggerSync++
		default:
			s.violation("harness:unknown-action-type", fmt.Sprintf("action %T", a), nd, in)
		}
	}
	if committed && !s.violated {
		nd.h++
		nd.round = -1
		nd.timeouts = nd.timeouts[:0]
		if int(nd.h)-int(s.c.h0) >= s.c.heights {
			nd.done = true
			return
		}
		s.handle(nd, msg{kind: kStart, h: nd.h}, nd.sm.ProcessStart(0))
	}
}

// fire delivers one scheduled timeout of validator i (by position).
func (s *sim) fireAt(i, k int) {
	nd := s.nodes[i]
	t := nd.timeouts[k]
	nd.timeouts = append(nd.timeouts[:k], nd.timeouts[k+1:]...)
	s.deliver(i, msg{kind: kTimeout, from: int8(i), h: t.Height, r: t.Round, step: t.Step})
}

// fire delivers the scheduled timeout (step, current height, round r) of validator i if there is one.
func (s *sim) fire(i int, step types.Step, r types.Round) bool {
	nd := s.nodes[i]
	if nd == nil || nd.done {
		return false
	}
	for k, t := range nd.timeouts {
		if t.Step == step && t.Round == r && t.Height == nd.h {
			s.fireAt(i, k)
			return true
		}
	}
	return false
}

// pump delivers in-flight messages accepted by allow (in random order) until none is left.
func (s *sim) pump(allow func(to int, m *msg) bool) int {
	n := 0
	var batch []flight
	for guard := 0; guard < 10000 && !s.violated; guard++ {
		batch = batch[:0]
		k := 0
		for _, f := range s.fl {
			if allow(int(f.to), &f.m) {
				batch = append(batch, f)
			} else {
				s.fl[k] = f
				k++
			}
		}
		s.fl = s.fl[:k]
		if len(batch) == 0 {
			return n
		}
		s.rng.Shuffle(len(batch), func(i, j int) { batch[i], batch[j] = batch[j], batch[i] })
		for _, f := range batch {
			s.deliver(int(f.to), f.m)
			n++
		}
	}
	return n
}

// byzSend: a byzantine validator hands m to the listed correct validators right now.
func (s *sim) byzSend(m msg, dests ...int) {
	if m.kind == kProposal {
		s.sawValue(m.h, m.val)
		if int(m.from) == s.c.proposer(m.h, m.r) {
			k := [2]int64{int64(m.h), int64(m.r)}
			if old, ok := s.byzProps[k]; !ok {
				s.byzProps[k] = m
			} else if old != m {
				s.byzProposalEquivocation = true
			}
		}
	}
	s.addGossip(m)
	for _, d := range dests {
		if s.violated {
			return
		}
		s.st.byzInj++
		s.deliver(d, m)
	}
}

package vconsensus

// Configuration generator, random/guided adversary and the synchronous suffix
// used for the bounded-progress check.

import (
	"math/rand/v2"

	"github.com/NethermindEth/juno/consensus/types"
)

const tableRounds = 6

// genConfig draws a validator set. Byzantine power is always strictly below a
// third of the total (3*byz < N) for every height of the run.
func genConfig(rng *rand.Rand, n int, minByz int) *config {
	c := &config{n: n}
	switch rng.IntN(4) {
	case 0:
		c.h0 = 0
	case 1:
		c.h0 = types.Height(2 + rng.IntN(40))
	default:
		c.h0 = 1
	}
	switch x := rng.IntN(20); {
	case x < 3:
		c.heights = 1
	case x < 17:
		c.heights = 2
	default:
		c.heights = 3
	}
	nh := c.heights + 2
	mode := rng.IntN(10) // 0-4 equal, 5-7 small weights, 8 wide weights, 9 one heavy validator
	perHeight := rng.IntN(4) == 0 && mode >= 5
	for attempt := 0; ; attempt++ {
		c.power = c.power[:0]
		c.total = c.total[:0]
		for h := 0; h < nh; h++ {
			if h > 0 && !perHeight {
				c.power = append(c.power, c.power[0])
				c.total = append(c.total, c.total[0])
				continue
			}
			w := make([]types.VotingPower, n)
			var tot types.VotingPower
			for i := range w {
				switch {
				case mode < 5:
					w[i] = 1
				case mode < 8:
					w[i] = types.VotingPower(1 + rng.IntN(4))
				case mode == 8:
					w[i] = types.VotingPower(1 + rng.IntN(30))
				default:
					w[i] = 1
				}
				tot += w[i]
			}
			if mode == 9 { // one validator just below a third of the final total
				k := rng.IntN(n)
				// w = largest x with 3x < (n-1)+x  <=>  2x < n-1
				x := types.VotingPower((n - 2) / 2)
				if x < 1 {
					x = 1
				}
				tot += x - w[k]
				w[k] = x
			}
			c.power = append(c.power, w)
			c.total = append(c.total, tot)
		}
		// byzantine set: random order, greedy while strictly below a third at every height
		c.isByz = make([]bool, n)
		c.byz, c.correct = nil, nil
		fill := rng.IntN(10) // 0: none, 1-2: stop early, else: as much as fits
		if minByz > 0 && fill == 0 {
			fill = 5
		}
		order := rng.Perm(n)
		if mode == 9 && rng.IntN(2) == 0 { // try the heavy one first
			for k, i := range order {
				if c.power[0][i] > 1 {
					order[0], order[k] = order[k], order[0]
				}
			}
		}
		for _, i := range order {
			if fill == 0 || (fill <= 2 && len(c.byz) >= 1) {
				break
			}
			fits := true
			for h := 0; h < nh; h++ {
				var bp types.VotingPower
				for _, b := range c.byz {
					bp += c.power[h][b]
				}
				if 3*(bp+c.power[h][i]) >= c.total[h] {
					fits = false
				}
			}
			if fits {
				c.isByz[i] = true
				c.byz = append(c.byz, i)
			}
		}
		for i := 0; i < n; i++ {
			if !c.isByz[i] {
				c.correct = append(c.correct, i)
			}
		}
		if len(c.byz) >= minByz || attempt > 50 {
			break
		}
	}
	pB := 0.2 + 0.4*rng.Float64()
	for h := 0; h < nh; h++ {
		t := make([]int8, tableRounds)
		for r := range t {
			if len(c.byz) > 0 && rng.Float64() < pB {
				t[r] = int8(c.byz[rng.IntN(len(c.byz))])
			} else {
				t[r] = int8(c.correct[rng.IntN(len(c.correct))])
			}
		}
		c.prop = append(c.prop, t)
	}
	return c
}

type profile struct {
	pByz, pDrop, pDup, pTimeout float64
	pSupport                    float64
	pSync                       float64 // sync bodies (honest for lagging validators, hostile for any)
	slow                        uint32
	slowSkip                    float64
	budget                      int
}

func genProfile(rng *rand.Rand, c *config) *profile {
	p := &profile{
		pByz:     []float64{0, 0.05, 0.15, 0.3, 0.4}[rng.IntN(5)],
		pDrop:    []float64{0, 0, 0.03, 0.08}[rng.IntN(4)],
		pDup:     []float64{0, 0.03, 0.08}[rng.IntN(3)],
		pTimeout: []float64{0.01, 0.03, 0.08, 0.2}[rng.IntN(4)],
		pSupport: []float64{0, 0.3, 0.7}[rng.IntN(3)],
		slowSkip: []float64{0, 0.5, 0.9}[rng.IntN(3)],
		pSync:    []float64{0, 0, 0.01, 0.04}[rng.IntN(4)],
	}
	if len(c.byz) == 0 {
		p.pByz = 0
	}
	for _, i := range c.correct {
		if rng.IntN(3) == 0 {
			p.slow |= 1 << uint(i)
		}
	}
	p.budget = c.heights * (30 + 8*c.n*c.n) * (1 + rng.IntN(2))
	return p
}

func (s *sim) activeNode() *node {
	var live []*node
	for _, i := range s.c.correct {
		if !s.nodes[i].done {
			live = append(live, s.nodes[i])
		}
	}
	if len(live) == 0 {
		return nil
	}
	return live[s.rng.IntN(len(live))]
}

func (s *sim) byzValue(b int, h types.Height, k int, invalid bool) uint64 {
	v := (uint64(0xB0+b)<<16 | uint64(h&0xff)<<4 | uint64(k)) << 1
	if invalid {
		v |= 1
	}
	return v
}

func (s *sim) pickID(b int, h types.Height) uint64 {
	switch x := s.rng.IntN(20); {
	case x < 5:
		return 0
	case x < 7:
		return s.byzValue(b, h, s.rng.IntN(2), false)
	case x < 8:
		return s.byzValue(b, h, 2, true)
	}
	if l := s.seen[h]; len(l) > 0 {
		return l[s.rng.IntN(len(l))]
	}
	return s.byzValue(b, h, 0, false)
}

func (s *sim) randomDests() (in, out []int) {
	var live []int
	for _, i := range s.c.correct {
		if !s.nodes[i].done {
			live = append(live, i)
		}
	}
	if len(live) == 0 {
		return nil, nil
	}
	switch x := s.rng.IntN(10); {
	case x < 5:
		k := s.rng.IntN(len(live))
		in = []int{live[k]}
		out = append(append(out, live[:k]...), live[k+1:]...)
	case x < 7:
		in = live
	default:
		for _, i := range live {
			if s.rng.IntN(2) == 0 {
				in = append(in, i)
			} else {
				out = append(out, i)
			}
		}
	}
	return in, out
}

// send either now or through the in-flight pool
func (s *sim) byzEmit(m msg, dests []int) {
	if s.rng.IntN(10) < 7 {
		s.byzSend(m, dests...)
		return
	}
	s.byzSend(m) // registers value / gossip / equivocation bookkeeping only
	for _, d := range dests {
		s.st.byzInj++
		s.fl = append(s.fl, flight{int8(d), m})
	}
}

func (s *sim) byzRandom(p *profile) {
	t := s.activeNode()
	if t == nil {
		return
	}
	b := s.c.byz[s.rng.IntN(len(s.c.byz))]
	h := t.h
	switch x := s.rng.IntN(50); {
	case x < 3:
		h++
	case x == 3 && h > s.c.h0:
		h--
	}
	cur := t.round
	if cur < 0 {
		cur = 0
	}
	r := cur
	switch x := s.rng.IntN(100); {
	case x < 60:
	case x < 75:
		r = cur + 1
	case x < 85:
		r = types.Round(s.rng.IntN(int(cur) + 1))
	case x < 95:
		r = cur + 2
	case x < 97:
		r = -1
	default:
		r = s.st.maxRound + 3
	}
	// supportive vote: push the best-supported id at the target over the line, for the target only
	if s.rng.Float64() < p.pSupport {
		if rl := s.hl(t, t.h).rl(cur); rl != nil {
			kind, votes := kPrevote, rl.pv
			if s.rng.IntN(2) == 0 {
				kind, votes = kPrecommit, rl.pc
			}
			best, bestP := uint64(0), types.VotingPower(0)
			for _, v := range votes {
				if pw := s.c.maskPower(t.h, v.mask); v.val != 0 && pw >= bestP {
					best, bestP = v.val, pw
				}
			}
			if best == 0 && len(rl.props) > 0 {
				best = rl.props[s.rng.IntN(len(rl.props))].val
			}
			if best != 0 {
				for _, bb := range s.c.byz {
					s.byzSend(msg{kind: kind, from: int8(bb), h: t.h, r: cur, val: best}, t.i)
				}
				return
			}
		}
	}
	in, out := s.randomDests()
	from := int8(b)
	if s.rng.IntN(50) == 0 {
		from = int8(s.c.n) // ghost: not in the validator set
	}
	switch x := s.rng.IntN(20); {
	case x < 8, x < 15:
		kind := kPrevote
		if x >= 8 {
			kind = kPrecommit
		}
		id := s.pickID(b, h)
		s.byzEmit(msg{kind: kind, from: from, h: h, r: r, val: id}, in)
		if len(out) > 0 && s.rng.IntN(3) == 0 {
			s.st.byzEquiv++
			s.byzEmit(msg{kind: kind, from: from, h: h, r: r, val: s.pickID(b, h)}, out)
		}
	default:
		// proposal: prefer a round in which b is the proposer
		if s.rng.IntN(10) != 0 {
			var cand []types.Round
			for q := types.Round(0); q <= cur+2; q++ {
				if s.c.proposer(h, q) == b {
					cand = append(cand, q)
				}
			}
			if len(cand) > 0 {
				r = cand[s.rng.IntN(len(cand))]
				if s.rng.IntN(2) == 0 { // prefer the latest
					r = cand[len(cand)-1]
				}
			}
		}
		if r < 0 {
			r = 0
		}
		mk := func() msg {
			var val uint64
			switch x := s.rng.IntN(20); {
			case x < 7:
				val = s.byzValue(b, h, s.rng.IntN(2), false)
			case x < 9:
				val = s.byzValue(b, h, 2, true)
			default:
				if l := s.seen[h]; len(l) > 0 {
					val = l[s.rng.IntN(len(l))]
				} else {
					val = s.byzValue(b, h, 0, false)
				}
			}
			vr := types.Round(-1)
			switch x := s.rng.IntN(20); {
			case x < 9:
			case x < 17:
				if r > 0 {
					vr = types.Round(s.rng.IntN(int(r)))
				}
			case x < 18:
				vr = r
			case x < 19:
				vr = r + 1
			default:
				vr = -2
			}
			return msg{kind: kProposal, from: int8(b), h: h, r: r, val: val, vr: vr}
		}
		pm := mk()
		if old, ok := s.byzProps[[2]int64{int64(h), int64(r)}]; ok && s.consistentProposer && int(old.from) == b {
			pm = old
		}
		s.byzEmit(pm, in)
		if len(out) > 0 && s.rng.IntN(3) == 0 && !s.consistentProposer {
			s.st.byzEquiv++
			s.byzEmit(mk(), out)
		}
	}
}

func (s *sim) fireRandom() bool {
	var cand []int
	for _, i := range s.c.correct {
		if nd := s.nodes[i]; !nd.done && len(nd.timeouts) > 0 {
			cand = append(cand, i)
		}
	}
	if len(cand) == 0 {
		return false
	}
	i := cand[s.rng.IntN(len(cand))]
	k := 0
	if s.rng.IntN(2) == 0 {
		k = s.rng.IntN(len(s.nodes[i].timeouts))
	}
	s.fireAt(i, k)
	return true
}

func (s *sim) deliverRandom(p *profile) bool {
	for len(s.fl) > 0 {
		k := s.rng.IntN(len(s.fl))
		if p.slow&(1<<uint(s.fl[k].to)) != 0 && s.rng.Float64() < p.slowSkip {
			k = s.rng.IntN(len(s.fl))
		}
		f := s.fl[k]
		s.fl[k] = s.fl[len(s.fl)-1]
		s.fl = s.fl[:len(s.fl)-1]
		if s.nodes[f.to].done {
			continue
		}
		x := s.rng.Float64()
		if x < p.pDrop {
			s.st.drops++
			s.mix(0xdead)
			return true
		}
		if x < p.pDrop+p.pDup {
			s.st.dups++
			s.fl = append(s.fl, f)
		}
		s.deliver(int(f.to), f.m)
		return true
	}
	return false
}

// runRandom: the seeded adversary picks one of: byzantine injection, timeout
// firing, delivery (with loss / duplication / reordering) per step.
func (s *sim) runRandom(p *profile) {
	idle := 0
	for step := 0; step < p.budget && !s.violated && !s.allDone() && idle < 50; step++ {
		x := s.rng.Float64()
		did := false
		switch {
		case x < p.pSync:
			did = s.syncRandom()
		case x < p.pSync+p.pByz:
			s.byzRandom(p)
			did = true
		case x < p.pSync+p.pByz+p.pTimeout:
			did = s.fireRandom() || s.deliverRandom(p)
		default:
			did = s.deliverRandom(p) || s.fireRandom()
		}
		if did {
			idle = 0
		} else {
			idle++
		}
	}
}

// runSuffix is the synchronous suffix: byzantine validators fall silent, the
// gossip layer spreads every message any correct validator sent or received
// to every correct validator, messages are delivered before any timeout fires,
// and timeouts fire in sweeps (every pending timeout of every validator).
// Returns the number of sweeps needed until every correct validator decided
// all heights, or ok=false if maxSweeps were not enough.
func (s *sim) runSuffix(maxSweeps int) (sweeps int, ok bool) {
	for _, j := range s.c.correct {
		nd := s.nodes[j]
		if nd.done {
			continue
		}
		for k, m := range s.gossip {
			if m.h >= nd.h && int(m.from) != j && s.gossipTo[k]&(1<<uint(j)) == 0 {
				s.fl = append(s.fl, flight{int8(j), m})
			}
		}
	}
	s.mix(0x5afe)
	for ; sweeps <= maxSweeps && !s.violated; sweeps++ {
		for k := 0; k < len(s.fl) && !s.violated; k++ {
			f := s.fl[k]
			s.deliver(int(f.to), f.m)
		}
		s.fl = s.fl[:0]
		if s.allDone() {
			return sweeps, true
		}
		// the sync service: a validator whose height is already decided elsewhere is handed the block
		for _, j := range s.c.correct {
			if nd := s.nodes[j]; !nd.done && !s.violated {
				if _, ok := s.decided[nd.h]; ok && sweeps > 0 {
					s.deliverSync(j)
				}
			}
		}
		if s.allDone() {
			return sweeps, true
		}
		fired := false
		for _, j := range s.c.correct {
			nd := s.nodes[j]
			if nd.done {
				continue
			}
			pending := append([]types.Timeout(nil), nd.timeouts...)
			h := nd.h
			nd.timeouts = nd.timeouts[:0]
			for _, t := range pending {
				if nd.done || nd.h != h {
					break // a commit cleared the list
				}
				fired = true
				s.deliver(j, msg{kind: kTimeout, from: int8(j), h: t.Height, r: t.Round, step: t.Step})
			}
		}
		if !fired && len(s.fl) == 0 {
			return sweeps, false
		}
	}
	return sweeps, s.allDone()
}

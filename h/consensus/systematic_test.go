package vconsensus

import (
	"fmt"
	"math/rand/v2"

	"github.com/NethermindEth/juno/consensus/types"
	"github.com/NethermindEth/juno/verifh/lib"
)

// Delay-bounded systematic exploration. The property's quantifier names n=4 / f=1 "explored
// exhaustively up to a bound": within this technique family that is done by RUNNING every
// schedule of a bounded family on the real state machines under the same online monitors.
//
// The family: a deterministic base schedule (FIFO delivery of every message to every correct
// validator; when nothing is in flight, the oldest pending timeout of the lowest validator fires)
// perturbed by at most D deviations, each at a chosen step:
//
//	reorder  deliver the 2nd / 3rd / 4th oldest in-flight message instead of the oldest
//	drop     lose the oldest in-flight message
//	timeout  fire one of the pending timeouts now, although messages are in flight
//	byz      the Byzantine validator performs one action from a fixed menu (proposal as the round's
//	         proposer or not, equivocating proposals, proposal with a forged valid round, prevote /
//	         precommit for the seen value, for another value, for nil, equivocating precommits)
//
// For D = 2 and one height every combination of (step, deviation) pairs is executed - all of
// them, for each of the four choices of the Byzantine validator and the all-correct set.
// D = 3 is sampled in the thorough tier.

type deviation struct {
	At   int `json:"at_step"`
	Kind int `json:"kind"` // 0 reorder, 1 drop, 2 timeout, 3 byzantine
	Arg  int `json:"arg"`
}

var devKindName = [...]string{"reorder", "drop", "timeout", "byz"}

const nByzMenu = 9

func (d deviation) String() string { return fmt.Sprintf("%d:%s%d", d.At, devKindName[d.Kind], d.Arg) }

func fixedConfig(byz int) *config {
	c := &config{n: 4, h0: 1, heights: 1, label: "systematic"}
	nh := c.heights + 2
	for h := 0; h < nh; h++ {
		c.power = append(c.power, []types.VotingPower{1, 1, 1, 1})
		c.total = append(c.total, 4)
		t := make([]int8, tableRounds)
		for r := range t {
			t[r] = int8((h + r) % 4)
		}
		c.prop = append(c.prop, t)
	}
	c.isByz = make([]bool, 4)
	for i := 0; i < 4; i++ {
		if i == byz {
			c.isByz[i] = true
			c.byz = append(c.byz, i)
		} else {
			c.correct = append(c.correct, i)
		}
	}
	return c
}

func (s *sim) popFlight(k int) flight {
	f := s.fl[k]
	s.fl = append(s.fl[:k], s.fl[k+1:]...)
	return f
}

// byzMenu performs menu action a of the (single) Byzantine validator.
func (s *sim) byzMenu(a int) {
	if len(s.c.byz) == 0 {
		return
	}
	b := s.c.byz[0]
	var nd *node
	for _, i := range s.c.correct {
		if !s.nodes[i].done {
			nd = s.nodes[i]
			break
		}
	}
	if nd == nil {
		return
	}
	h, r := nd.h, max(nd.round, 0)
	var live []int
	for _, i := range s.c.correct {
		if !s.nodes[i].done {
			live = append(live, i)
		}
	}
	seen := s.byzValue(b, h, 0, false)
	if l := s.seen[h]; len(l) > 0 {
		seen = l[len(l)-1]
	}
	other := s.byzValue(b, h, 1, false)
	switch a {
	case 0: // a proposal of its own for the current round (it may or may not be the proposer)
		s.byzSend(msg{kind: kProposal, from: int8(b), h: h, r: r, val: s.byzValue(b, h, 0, false), vr: -1}, live...)
	case 1: // two different proposals to different peers
		s.byzSend(msg{kind: kProposal, from: int8(b), h: h, r: r, val: s.byzValue(b, h, 0, false), vr: -1}, live[:1]...)
		s.byzSend(msg{kind: kProposal, from: int8(b), h: h, r: r, val: other, vr: -1}, live[1:]...)
	case 2: // re-proposal of a seen value with a forged valid round
		s.byzSend(msg{kind: kProposal, from: int8(b), h: h, r: r, val: seen, vr: r - 1}, live...)
	case 3:
		s.byzSend(msg{kind: kPrevote, from: int8(b), h: h, r: r, val: seen}, live...)
	case 4:
		s.byzSend(msg{kind: kPrevote, from: int8(b), h: h, r: r, val: 0}, live...)
	case 5:
		s.byzSend(msg{kind: kPrecommit, from: int8(b), h: h, r: r, val: seen}, live...)
	case 6: // precommit for the seen value to one peer only (it completes a quorum there, nowhere else)
		s.byzSend(msg{kind: kPrecommit, from: int8(b), h: h, r: r, val: seen}, live[:1]...)
	case 7: // equivocating precommits
		s.byzSend(msg{kind: kPrecommit, from: int8(b), h: h, r: r, val: seen}, live[:1]...)
		s.byzSend(msg{kind: kPrecommit, from: int8(b), h: h, r: r, val: other}, live[1:]...)
	case 8: // votes for the next round (f+1 such votes make a validator skip rounds; one must not)
		s.byzSend(msg{kind: kPrevote, from: int8(b), h: h, r: r + 1, val: other}, live...)
	}
}

// runSystematic executes the base schedule with the given deviations. Returns the steps taken.
func (s *sim) runSystematic(devs []deviation, maxSteps int) int {
	s.start()
	di := 0
	step := 0
	for ; step < maxSteps && !s.violated && !s.allDone(); step++ {
		for di < len(devs) && devs[di].At < step {
			di++
		}
		if di < len(devs) && devs[di].At == step {
			d := devs[di]
			di++
			s.mix(uint64(0xd0 + d.Kind*16 + d.Arg))
			switch d.Kind {
			case 0:
				if d.Arg < len(s.fl) {
					f := s.popFlight(d.Arg)
					s.deliver(int(f.to), f.m)
					continue
				}
			case 1:
				if len(s.fl) > 0 {
					s.popFlight(0)
					s.st.drops++
					continue
				}
			case 2:
				k := d.Arg
				fired := false
				for _, i := range s.c.correct {
					nd := s.nodes[i]
					if nd.done {
						continue
					}
					if k < len(nd.timeouts) {
						s.fireAt(i, k)
						fired = true
						break
					}
					k -= len(nd.timeouts)
				}
				if fired {
					continue
				}
			case 3:
				s.byzMenu(d.Arg)
				continue
			}
			// a deviation that does not apply here: the base action happens instead
		}
		if len(s.fl) > 0 {
			f := s.popFlight(0)
			s.deliver(int(f.to), f.m)
			continue
		}
		fired := false
		for _, i := range s.c.correct {
			if nd := s.nodes[i]; !nd.done && len(nd.timeouts) > 0 {
				s.fireAt(i, 0)
				fired = true
				break
			}
		}
		if !fired {
			break
		}
	}
	return step
}

func devChoices(byz bool) []deviation {
	var out []deviation
	for k := 1; k <= 3; k++ {
		out = append(out, deviation{Kind: 0, Arg: k})
	}
	out = append(out, deviation{Kind: 1})
	for k := 0; k < 3; k++ {
		out = append(out, deviation{Kind: 2, Arg: k})
	}
	if byz {
		for a := 0; a < nByzMenu; a++ {
			out = append(out, deviation{Kind: 3, Arg: a})
		}
	}
	return out
}

const sysMaxSteps = 600

func systematicLayer(r *lib.Run) {
	type job struct {
		byz  int
		devs []deviation
	}
	var jobs []job
	byzSets := []int{-1, 0, 1, 2, 3}
	if r.Quick() {
		byzSets = []int{-1, 1, 2} // proposer(1,0) is validator 1: once the byzantine one, once a correct one
	}
	if r.Race {
		return
	}
	for _, b := range byzSets {
		// length of the undisturbed schedule
		s0 := newSim(r, -1, fixedConfig(b), rand.New(rand.NewPCG(1, 1)))
		L := s0.runSystematic(nil, sysMaxSteps) + 6
		ch := devChoices(b >= 0)
		jobs = append(jobs, job{b, nil})
		for p1 := 0; p1 < L; p1++ {
			for _, c1 := range ch {
				d1 := c1
				d1.At = p1
				jobs = append(jobs, job{b, []deviation{d1}})
				for p2 := p1 + 1; p2 < L+8; p2++ {
					for _, c2 := range ch {
						d2 := c2
						d2.At = p2
						jobs = append(jobs, job{b, []deviation{d1, d2}})
					}
				}
			}
		}
		r.Count(fmt.Sprintf("systematic.base_schedule_steps[byz=%d]", b), L-6)
	}
	exhaustive2 := len(jobs)
	// three deviations: sampled
	n3 := r.N(0, 3_000_000)
	const sysBase = 1 << 30
	r.Count("systematic.schedules_with_<=2_deviations(all of them)", exhaustive2)
	r.Cases(exhaustive2+n3, 0, func(k int) {
		idx := sysBase + k
		var j job
		if k < exhaustive2 {
			j = jobs[k]
		} else {
			rng := lib.Rng("C12/systematic/3", uint64(k))
			b := byzSets[rng.IntN(len(byzSets))]
			ch := devChoices(b >= 0)
			at := 0
			for i := 0; i < 3; i++ {
				d := ch[rng.IntN(len(ch))]
				at += rng.IntN(25)
				d.At = at
				at++
				j.devs = append(j.devs, d)
			}
			j.byz = b
		}
		c := fixedConfig(j.byz)
		s := newSim(r, idx, c, lib.Rng("C12/systematic/sim", uint64(k)))
		s.sysDevs = j.devs
		for _, ch := range []byte(fmt.Sprintf("sys|byz=%d", j.byz)) {
			s.mix(uint64(ch))
		}
		steps := s.runSystematic(j.devs, sysMaxSteps)
		r.Eval(1)
		r.Case(fmt.Sprintf("sys|%016x", s.hash))
		r.Count("systematic.schedules", 1)
		r.Count(fmt.Sprintf("systematic.schedules_with_%d_deviations", len(j.devs)), 1)
		r.Count("systematic.steps", steps)
		r.Count("systematic.commits_by_correct_validators", s.st.commits)
		if s.allDone() {
			r.Count("systematic.schedules_where_all_correct_validators_decided", 1)
		}
		if int(s.st.maxRound) >= 1 {
			r.Count("systematic.schedules_reaching_round>=1", 1)
		}
		if int(s.st.maxRound) >= 2 {
			r.Count("systematic.schedules_reaching_round>=2", 1)
		}
		r.Count("systematic.lock_events", s.st.locks)
		r.Count("systematic.byzantine_injections", s.st.byzInj)
		if k == 7 || k == exhaustive2/2 {
			r.Sample(map[string]any{"kind": "systematic schedule", "byzantine_validator": j.byz, "deviations": j.devs, "steps": steps,
				"decided": s.decided, "max_round": s.st.maxRound})
		}
	})
}

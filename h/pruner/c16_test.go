// Package vpruner: runtime monitor for C16 "pruning never damages retained blocks, the
// head state, or L1-unconfirmed history".
//
// The real pruner.Pruner.Run is driven through its two real feeds over a recording
// store (chain.RecDB); an unpruned twin node stores the same chain. After every event
// that made the pruner write, after cancellation at the k-th batch write, and for crash
// images of the k-th commit of a prune, the pruned node is compared with the twin
// through chain.Probe (see oracle_test.go: judge). readers_test.go adds state readers
// held across a prune and concurrent readers; harness_test.go holds the pruner session
// and the "event has been handled" detection.
package vpruner

import (
	"errors"
	"fmt"
	"math/rand/v2"
	"os"
	"runtime"
	"sort"
	"strings"
	"sync"
	"sync/atomic"
	"testing"
	"time"

	"github.com/NethermindEth/juno/blockchain"
	"github.com/NethermindEth/juno/core"
	"github.com/NethermindEth/juno/core/felt"
	"github.com/NethermindEth/juno/db"
	"github.com/NethermindEth/juno/db/pebblev2"
	"github.com/NethermindEth/juno/pruner"
	"github.com/NethermindEth/juno/verifh/lib"
	"github.com/NethermindEth/juno/verifh/lib/chain"
)

// Block timestamps: the generator starts at 1_700_000_000 (2023: older than any minAge
// used here by years); "young" blocks get a timestamp decades in the future. No verdict
// depends on the current clock.
const futureTS = uint64(4_000_000_000)

type config struct {
	Backend   string
	NewState  bool `json:"-"`
	Retained  uint64
	MinAgeH   int    // hours; 0 = disabled
	Profile   string // old | future | mixed
	YoungFrom int    // first block carrying a future timestamp (-1: none)
	Batch     int    // prune batch byte threshold: 1, or 0 = Juno's default (96 MB)
	L2Per     uint64
	FastTick  bool // min-age sampler every millisecond instead of every 15 minutes
	ChainLen  int
	StartAt   int  // blocks already stored when the pruner service starts
	Cancel    bool // context cancelled at the k-th batch write of some prunes
	Fault     bool // the k-th batch commit of some prunes fails with an injected write error
	Readers   int
	Store     string // database under the pruned node: memory | pebble (crash images are always replayed into memory)
	LateL1    bool   // no L1 head arrives until 3/4 of the chain is stored; the first one then overtakes the restarted node's first event query
}

type world struct {
	r   *lib.Run
	idx int
	cfg config
	rng *rand.Rand

	g       *chain.Gen
	builder *chain.Builder
	main    *chain.Chain // the chain currently generated (canonical for both nodes)
	ps      *chain.ProbeSet
	ix      *index

	rec   *chain.RecDB
	bc    atomic.Pointer[blockchain.Blockchain] // pruned node
	floor *pruner.RetentionFloor
	twin  *chain.Node
	sess  *session

	pos   int   // blocks stored on both nodes (head = pos-1)
	l1    int64 // last announced L1 head (-1: none)
	bound uint64
	// how the bound was last raised (for classifying a floor above it)
	boundWhy string

	twinObs   chain.Obs
	twinDirty bool

	// interruption plumbing (read from RecDB's commit hook)
	inEvent      atomic.Bool
	readersOn    atomic.Bool
	cancelFloors map[uint64]bool // floors at which a cancelled prune stopped
	batchCommits atomic.Int64
	cancelAt     atomic.Int64
	// cancelAtRead: the context is cancelled right after the pruner goroutine's k-th point read
	// of the current event (k = 1..4 lands before the sweep's first iteration: the event has been
	// taken from its channel, the sweep has not deleted anything yet)
	cancelAtRead atomic.Int64
	eventReads   atomic.Int64
	failAt       atomic.Int64 // the failAt-th batch commit of the current event fails (injected write error)
	failFired    atomic.Bool
	// failStore: the next block commit of the pruning node (outside pruner events) fails once
	failStore atomic.Bool
	// after a prune stopped by a failed batch commit the live node's in-memory floor stays at
	// the prune target (<= bound) until the next restart: state refusals in [on-disk floor-1,
	// refuseBelow-1) are the node reporting "pruned" for blocks its floor covers - counted, not judged
	refuseBelow uint64
	cancelFn    atomic.Pointer[func()]

	gate   sync.RWMutex // readers hold R during a mini probe; chain mutations hold W
	shared readerShared

	steps      []string
	stats      map[string]int
	images     int
	floorMoved int
	dead       bool // scenario aborted (violation that makes continuing meaningless, or watchdog)
}

func (w *world) logf(format string, a ...any) {
	if len(w.steps) < 400 {
		w.steps = append(w.steps, fmt.Sprintf(format, a...))
	}
}

func (w *world) head() uint64 { return uint64(w.pos - 1) }

func (w *world) witness(extra map[string]any) map[string]any {
	m := map[string]any{"config": w.cfg, "steps": w.steps, "head": w.pos - 1, "l1_head": w.l1, "bound": w.bound}
	for k, v := range extra {
		m[k] = v
	}
	return m
}

func (w *world) violation(class, brief string, extra map[string]any) {
	w.r.Violation(class, w.idx, fmt.Sprintf("[%s r=%d minAge=%dh/%s batch=%d l2per=%d] %s", w.cfg.Backend, w.cfg.Retained, w.cfg.MinAgeH, w.cfg.Profile, w.cfg.Batch, w.cfg.L2Per, brief), w.witness(extra))
}

func (w *world) opts() prunerOpts {
	o := prunerOpts{Retained: w.cfg.Retained, MinAge: time.Duration(w.cfg.MinAgeH) * time.Hour, Batch: w.cfg.Batch, L2Per: w.cfg.L2Per}
	if w.cfg.FastTick {
		o.Tick = time.Millisecond
	}
	return o
}

// ---------------------------------------------------------------- chain generation

func (w *world) extendChain(c *chain.Chain, k int) error {
	for i := 0; i < k; i++ {
		st := c.TipState()
		d := w.g.Next(c.Tip(), st)
		if int(d.Block.Number) == w.cfg.YoungFrom {
			d.Block.Timestamp = futureTS
		}
		blk, err := w.builder.Materialise(d)
		if err != nil {
			return fmt.Errorf("materialise block %d: %w", d.Block.Number, err)
		}
		ns := st.Clone()
		ns.Apply(blk.Block.Number, blk.Block.ProtocolVersion, blk.SU.StateDiff, blk.Classes)
		c.Blocks = append(c.Blocks, blk)
		c.States = append(c.States, ns)
		w.ps.AddBlock(blk)
		w.ix.add(blk)
	}
	return nil
}

// ---------------------------------------------------------------- bound (the property's upper limit for the floor)

// noteBound is called before an event is handed to the pruner. The floor may never
// exceed min(L1-confirmed, local head) - retained, nor the oldest block younger than
// minAge. Deletions are irreversible, so the limit is the running maximum.
func (w *world) noteBound() {
	if w.l1 < 0 || w.pos == 0 {
		return
	}
	pivot := min(uint64(w.l1), w.head())
	why := "l1"
	if w.head() < uint64(w.l1) {
		why = "head"
	}
	if pivot < w.cfg.Retained {
		return
	}
	allowed := pivot - w.cfg.Retained
	if w.cfg.MinAgeH > 0 && w.cfg.YoungFrom >= 0 && uint64(w.cfg.YoungFrom) < allowed {
		allowed = uint64(w.cfg.YoungFrom)
		why = "min-age"
	}
	if allowed > w.bound {
		w.bound = allowed
		w.boundWhy = why
		w.shared.bound.Store(allowed)
	}
}

// ---------------------------------------------------------------- events

type eventResult struct {
	i0, i1    int  // commit-log window of the event
	cancelled bool // Run returned because the harness cancelled it mid-prune
}

// deliver hands one event to the pruner and waits until it has been handled.
func (w *world) deliver(desc string, send func() error) (eventResult, bool) {
	w.noteBound()
	res := eventResult{i0: w.rec.LogLen()}
	w.batchCommits.Store(0)
	w.inEvent.Store(true)
	// readers run while an event that can make the pruner delete is being handled
	w.readersOn.Store(w.l1 >= 0 && w.pos > 0 && (strings.HasPrefix(desc, "L1") || uint64(w.l1) > w.head()))
	err := send()
	var stopped bool
	var qerr error
	if err == nil {
		stopped, qerr = w.sess.quiesce()
	}
	w.readersOn.Store(false)
	w.inEvent.Store(false)
	res.i1 = w.rec.LogLen()
	w.r.Count("events_delivered", 1)
	if err != nil {
		w.violation("harness:set-l1-head-failed", err.Error(), nil)
		w.dead = true
		return res, false
	}
	if qerr != nil {
		if os.Getenv("VERIF_C16_DUMP") != "" {
			buf := make([]byte, 1<<20)
			fmt.Fprintf(os.Stderr, "case %d: event not handled (%s)\n%s\n", w.idx, desc, buf[:runtime.Stack(buf, true)])
		}
		w.r.Inconclusive("watchdog:event-not-handled")
		w.dead = true
		return res, false
	}
	res.cancelled = stopped
	w.logf("%s -> commits %d..%d%s", desc, res.i0, res.i1, map[bool]string{true: " CANCELLED", false: ""}[stopped])
	return res, true
}

func (w *world) l1HeadFor(n uint64) *core.L1Head {
	h := &core.L1Head{BlockNumber: n, BlockHash: new(felt.Felt).SetUint64(n), StateRoot: new(felt.Felt).SetUint64(n)}
	if int(n) < w.main.Len() {
		h.BlockHash, h.StateRoot = w.main.Blocks[n].Block.Hash, w.main.Blocks[n].Block.GlobalStateRoot
	}
	return h
}

func (w *world) sendL1(n uint64) (eventResult, bool) {
	w.l1 = int64(n)
	if err := w.twin.BC.SetL1Head(w.l1HeadFor(n)); err != nil {
		w.violation("harness:set-l1-head-failed", err.Error(), nil)
		w.dead = true
		return eventResult{}, false
	}
	w.r.Count("l1_head_events", 1)
	switch {
	case w.pos == 0 || n > w.head():
		w.r.Count("l1_head_ahead_of_local_head", 1)
	case n == w.head():
		w.r.Count("l1_head_equal_local_head", 1)
	default:
		w.r.Count("l1_head_lagging", 1)
	}
	return w.deliver(fmt.Sprintf("L1 head %d (head %d)", n, w.pos-1), func() error { return w.bc.Load().SetL1Head(w.l1HeadFor(n)) })
}

func (w *world) sendHead(n uint64) (eventResult, bool) {
	b := w.main.Blocks[n].Block
	w.r.Count("new_head_events", 1)
	return w.deliver(fmt.Sprintf("new head %d (l1 %d)", n, w.l1), func() error { w.sess.heads.Send(b); return nil })
}

// ---------------------------------------------------------------- chain mutations (both nodes)

func (w *world) storeNext() bool {
	b := w.main.Blocks[w.pos]
	w.gate.Lock()
	bc := w.bc.Load()
	cm, err := bc.SanityCheckNewHeight(b.Block, b.SU, b.Classes)
	if err == nil && w.cfg.Fault && w.pos > 2 && w.rng.IntN(6) == 0 {
		// the commit of this block fails once (an injected write error, as C05 injects them on
		// non-pruning nodes): the call must report it, and the very same block must then be accepted -
		// on a pruning node the running event filter is re-initialised from a pruned database in between
		w.failStore.Store(true)
		ferr := bc.Store(b.Block, cm, b.SU, b.Classes)
		if w.failStore.Swap(false) {
			w.r.Count("store_commit_fault_not_reached", 1)
		} else {
			w.r.Count("stores_with_failing_commit_on_the_pruning_node", 1)
			if ferr == nil {
				f, _ := pruner.OldestRetainedBlock(w.rec)
				w.gate.Unlock()
				w.violation("store-reports-success-although-its-commit-failed", fmt.Sprintf("pruned node (floor %d): Store of block %d returned nil while the batch commit failed", f, b.Number()), nil)
				w.dead = true
				return false
			}
			cm, err = bc.SanityCheckNewHeight(b.Block, b.SU, b.Classes)
		}
	}
	if err == nil {
		err = bc.Store(b.Block, cm, b.SU, b.Classes)
	}
	terr := w.twin.StoreBlk(b)
	if err == nil && terr == nil {
		w.shared.pos.Store(int64(w.pos + 1))
	}
	w.gate.Unlock()
	if terr != nil {
		w.violation("harness:twin-rejects-valid-block", terr.Error(), nil)
		w.dead = true
		return false
	}
	if err != nil {
		f, _ := pruner.OldestRetainedBlock(w.rec)
		w.violation("extend-rejected-on-pruned-node", fmt.Sprintf("pruned node (floor %d) rejects valid block %d that the twin accepts: %v", f, b.Number(), err), nil)
		w.dead = true
		return false
	}
	w.pos++
	w.twinDirty = true
	w.r.Count("blocks_stored", 1)
	return true
}

func (w *world) revertBoth() bool {
	w.gate.Lock()
	err := w.bc.Load().RevertHead()
	terr := w.twin.BC.RevertHead()
	if err == nil && terr == nil {
		w.shared.pos.Store(int64(w.pos - 1))
	} else {
		w.shared.pos.Store(0) // nodes diverged: readers stop comparing
	}
	w.gate.Unlock()
	if terr != nil {
		w.violation("harness:twin-revert-failed", terr.Error(), nil)
		w.dead = true
		return false
	}
	if err != nil {
		f, _ := pruner.OldestRetainedBlock(w.rec)
		w.violation("revert-error-above-floor", fmt.Sprintf("RevertHead of block %d fails on the pruned node (floor %d) but works on the twin: %v", w.pos-1, f, err), nil)
		w.dead = true
		return false
	}
	w.pos--
	w.twinDirty = true
	w.r.Count("reverts", 1)
	return true
}

func (w *world) twinObservation() chain.Obs {
	if w.twinDirty || w.twinObs == nil {
		w.twinObs = chain.Probe(w.twin.BC, w.ps)
		w.twinDirty = false
	}
	return w.twinObs
}

// ---------------------------------------------------------------- the check

// check compares a pruned node (bc over store) with the twin. Returns the floor the
// node reports.
func (w *world) check(bc *blockchain.Blockchain, store db.KeyValueReader, c judgeCtx) uint64 {
	prefix := c.prefix()
	c.CancelFloors = w.cancelFloors
	if bc == w.bc.Load() && c.RefuseStateBelow < w.refuseBelow {
		c.RefuseStateBelow = w.refuseBelow
	}
	F, err := pruner.OldestRetainedBlock(store)
	if err != nil {
		if !errors.Is(err, db.ErrKeyNotFound) || w.pos > 0 {
			w.violation(prefix+"floor:no-retained-block", fmt.Sprintf("OldestRetainedBlock fails with head %d: %v", w.pos-1, err), map[string]any{"context": c})
			return 0
		}
		F = 0
	}
	if F > w.bound {
		why := "above-l1-confirmed-minus-retained"
		switch w.boundWhy {
		case "head":
			why = "above-local-head-minus-retained"
		case "min-age":
			why = "block-younger-than-min-age-pruned"
		}
		w.violation(prefix+"floor-above-bound:"+why, fmt.Sprintf("oldest retained block %d is above the highest floor the configuration ever allowed (%d)", F, w.bound), map[string]any{"context": c, "floor": F})
	}
	if c.Crash && c.Name != "crash-image" && F >= c.Target {
		c.Crash = false // the resumed prune completed: nothing of the interrupted one may be left
	}
	oP := chain.Probe(bc, w.ps)
	oT := w.twinObservation()
	w.r.Eval(len(oP))
	w.r.Count("probe_questions", len(oP))
	fs := judge(w.ix, c, F, oP, oT, w.stats)

	// events: [F, head] must equal the twin's; a query starting below the floor must fail
	if w.pos > 0 {
		var addr []felt.Address
		for a := range w.ps.Contracts {
			addr = []felt.Address{felt.Address(a)}
			break
		}
		for _, as := range [][]felt.Address{nil, addr} {
			ep, et := eventsFrom(bc, F, as), eventsFrom(w.twin.BC, F, as)
			w.stats["cmp_event_queries"]++
			if ep != et {
				fs.add(prefix+"retained-events-differ", fmt.Sprintf("events from floor %d: pruned=%q twin=%q", F, ep, et))
			}
		}
		if F > 0 {
			ep := eventsFrom(bc, F-1, nil)
			if !isErr(ep) && ep != eventsFrom(w.twin.BC, F-1, nil) {
				fs.add(prefix+"below-floor:event-query-partial-answer", fmt.Sprintf("events from %d (floor %d) answered %q", F-1, F, ep))
			}
		}
		// the node's own retention predicate agrees with the floor it reports
		for n := uint64(0); n <= w.head(); n++ {
			rerr := pruner.RequireRetained(store, n)
			if (rerr == nil) != (n >= F) {
				fs.add(prefix+"require-retained-disagrees-with-floor", fmt.Sprintf("RequireRetained(%d)=%v with floor %d", n, rerr, F))
			}
		}
	}
	classes := make([]string, 0, len(fs.byClass))
	for cl := range fs.byClass {
		classes = append(classes, cl)
	}
	sort.Strings(classes)
	if c.Collapse != "" && len(classes) > 0 {
		w.violation(c.Collapse, fmt.Sprintf("%s: floor %d, head %d: %d kinds of wrong answers, e.g. [%s] %s", c.Name, F, w.pos-1, len(classes), classes[0], fs.byClass[classes[0]][0]),
			map[string]any{"context": c, "floor": F, "classes": classes, "examples": fs.byClass[classes[0]]})
		w.r.Count("checks:"+c.Name, 1)
		return F
	}
	for _, cl := range classes {
		ex := fs.byClass[cl]
		extra := map[string]any{"context": c, "floor": F, "examples": ex, "count": fs.counts[cl]}
		if cl == classCancelHash {
			w.violation(cl, fmt.Sprintf("%s: a prune cancelled mid-way stopped at block %d and deleted the hash->number mapping of block %d: StateAtBlockHash(parent of the oldest retained block) is refused although state at floor-1 is documented as retained: %s", c.Name, F, F-1, ex[0]), extra)
			continue
		}
		if cl == classCrashKnown {
			var ns []uint64
			for n := range fs.knownN {
				ns = append(ns, n)
			}
			sort.Slice(ns, func(i, j int) bool { return ns[i] < ns[j] })
			extra["damaged_blocks"] = ns
			cats := map[string]bool{}
			for _, e := range ex {
				cats[category(e)] = true
			}
			w.violation(cl, fmt.Sprintf("crash between prune batches (prune towards floor %d): blocks %v still pass the retention check (oldest retained = %d) but answer differently from the twin, e.g. %s", c.Target, ns, F, ex[0]), extra)
			continue
		}
		w.violation(cl, fmt.Sprintf("%s: floor %d, head %d: %s", c.Name, F, w.pos-1, ex[0]), extra)
	}
	w.r.Count("checks:"+c.Name, 1)
	return F
}

// ---------------------------------------------------------------- crash images

// crashImages reopens the database as it was after commit k for (a sample of) the
// commits of one event window, with a freshly seeded floor, and checks each image.
func (w *world) crashImages(ev eventResult, target uint64, hashLost bool, resend func(s *session, bc *blockchain.Blockchain) error) {
	var ks []int
	for k := ev.i0 + 1; k < ev.i1; k++ {
		ks = append(ks, k)
	}
	if len(ks) == 0 {
		return
	}
	w.r.Count("crash_points_available", len(ks))
	budget := w.r.N(3, 8)
	if w.r.Race {
		budget = 2
	}
	if w.images >= w.r.N(9, 40) {
		return
	}
	if len(ks) > budget {
		w.rng.Shuffle(len(ks), func(i, j int) { ks[i], ks[j] = ks[j], ks[i] })
		ks = ks[:budget]
		sort.Ints(ks)
	}
	resumeAt := ks[w.rng.IntN(len(ks))]
	for _, k := range ks {
		img := fastMem{w.rec.Image(k)}
		bc, floor, err := newPrunedChain(img, w.cfg.NewState)
		if err != nil {
			w.violation("crash-mid-prune:floor-seed-fails", err.Error(), map[string]any{"commit": k})
			continue
		}
		w.images++
		w.r.Count("crash_images_checked", 1)
		c := judgeCtx{Name: "crash-image", Crash: true, Target: target, HashLostAtTarget: hashLost}
		w.logf("  crash image after commit #%d of the window (%d commits)", k-ev.i0, ev.i1-ev.i0)
		w.check(bc, img, c)
		if k != resumeAt || resend == nil {
			continue
		}
		// the restarted node receives the same event again: the prune must complete
		s, err := startPruner(img, floor, bc, w.opts())
		if err != nil {
			w.r.Inconclusive("watchdog:resume")
			continue
		}
		wd := false
		for i := uint64(0); i < w.cfg.L2Per && !wd; i++ { // a fresh pruner coalesces l2HeadsPerPrune head events
			if err := resend(s, bc); err == nil {
				if _, qerr := s.quiesce(); qerr != nil {
					wd = true
				}
			}
		}
		s.stop()
		if wd {
			w.r.Inconclusive("watchdog:resume")
			continue
		}
		w.r.Count("crash_images_resumed", 1)
		F := w.check(bc, img, judgeCtx{Name: "resumed-after-crash", Crash: true, Target: target, HashLostAtTarget: hashLost})
		if F < target {
			w.r.Count("resume_did_not_reach_previous_target", 1)
		}
	}
}

// ---------------------------------------------------------------- scenario

func pick[T any](rng *rand.Rand, xs ...T) T { return xs[rng.IntN(len(xs))] }

func makeConfig(r *lib.Run, idx int, rng *rand.Rand) config {
	c := config{NewState: idx%2 == 1}
	c.Backend = map[bool]string{false: "legacy", true: "new"}[c.NewState]
	maxLen := 36
	if !r.Quick() {
		maxLen = 60
	}
	c.ChainLen = 14 + rng.IntN(maxLen-13)
	c.Retained = pick(rng, uint64(0), 1, 1, 5, 5, 5, 50, uint64(c.ChainLen+20))
	if c.Retained == 50 && r.Quick() {
		c.Retained = pick(rng, uint64(12), 50)
	}
	c.YoungFrom = -1
	c.Profile = "old"
	if rng.IntN(3) == 0 {
		c.MinAgeH = 24
		switch rng.IntN(4) {
		case 0:
			c.Profile, c.YoungFrom = "future", 0
		case 1, 2:
			c.Profile, c.YoungFrom = "mixed", 3+rng.IntN(c.ChainLen-3)
		}
		c.FastTick = rng.IntN(2) == 0
	} else if rng.IntN(4) == 0 {
		// young blocks but min-age disabled: timestamps must not matter
		c.Profile, c.YoungFrom = "mixed", rng.IntN(c.ChainLen)
	}
	c.Batch = pick(rng, 1, 1, 0)
	c.L2Per = pick(rng, uint64(1), 1, 3)
	if rng.IntN(3) > 0 {
		c.StartAt = rng.IntN(c.ChainLen/2 + 1)
	}
	c.Cancel = rng.IntN(5) < 2
	c.Fault = !c.Cancel && rng.IntN(3) == 0
	c.Store = "memory"
	if idx%5 == 4 {
		c.Store = "pebble"
	}
	c.Readers = 1
	if r.Race {
		c.Readers = 2
	}
	c.LateL1 = rng.IntN(4) == 0
	return c
}

func runScenario(r *lib.Run, idx int) {
	rng := lib.Rng("C16/scenario", uint64(idx))
	w := &world{r: r, idx: idx, rng: rng, l1: -1, stats: map[string]int{}, cancelFloors: map[uint64]bool{}, ps: chain.NewProbeSet(), ix: newIndex(), main: &chain.Chain{}}
	w.cfg = makeConfig(r, idx, rng)
	cfg := w.cfg
	defer func() {
		for k, v := range w.stats {
			r.Count(k, v)
		}
	}()

	gopts := chain.Opts{NoNoopZero: lib.Avoid("noop-zero-write"), MaxTxs: 3, EmptyProb: 0.15,
		Contracts: []uint64{0x100, 0x101, 0x200, 0x7fff0}, Slots: []uint64{2, 3, 8, 1000}}
	if rng.IntN(4) == 0 {
		gopts.Contracts, gopts.Slots = []uint64{0x100, 0x101}, []uint64{2, 3}
	}
	w.g = chain.NewGen(rng, gopts)
	w.builder = chain.NewBuilder(cfg.NewState)
	const extra = 3
	if err := w.extendChain(w.main, cfg.ChainLen+extra); err != nil {
		r.Violation("generator:builder-rejects-valid-block", idx, err.Error(), cfg)
		return
	}
	w.shared.main.Store(w.main)
	w.ps.SkipEvents = true // an unbounded event query fails on a pruned node by design; events are compared separately from the floor

	var inner db.KeyValueStore = newFastMem()
	if cfg.Store == "pebble" {
		dir, err := os.MkdirTemp("", "verif-c16-")
		if err != nil {
			panic(err)
		}
		defer os.RemoveAll(dir)
		pdb, err := pebblev2.New(dir)
		if err != nil {
			panic(err)
		}
		defer pdb.Close()
		inner = pdb
	}
	w.rec = chain.NewRecDB(inner)
	w.rec.FailCommitIf = func(ws chain.WriteSet) bool {
		if !ws.Direct && !w.inEvent.Load() && w.failStore.CompareAndSwap(true, false) {
			return true
		}
		if ws.Direct || !w.inEvent.Load() {
			return false
		}
		if f := w.failAt.Load(); f > 0 && w.batchCommits.Load()+1 == f {
			w.failAt.Store(0)
			w.failFired.Store(true)
			return true
		}
		return false
	}
	w.rec.OnCommit = func(_ int, ws chain.WriteSet) {
		if ws.Direct || !w.inEvent.Load() {
			return
		}
		n := w.batchCommits.Add(1)
		if c := w.cancelAt.Load(); c > 0 && n == c {
			if f := w.cancelFn.Load(); f != nil {
				(*f)()
			}
		}
	}
	bc, floor, err := newPrunedChain(w.rec, cfg.NewState)
	if err != nil {
		r.Violation("harness:floor-seed", idx, err.Error(), cfg)
		return
	}
	w.bc.Store(bc)
	w.floor = floor
	w.twin = chain.NewNode(newFastMem(), cfg.NewState)
	for w.pos < cfg.StartAt {
		if !w.storeNext() {
			return
		}
	}
	if !w.startSession() {
		return
	}
	defer func() {
		if w.sess != nil {
			w.sess.stop()
		}
	}()
	stopReaders := w.startReaders()
	defer stopReaders()

	lastF := uint64(0)
	afterEvent := func(ev eventResult, resend func(s *session, bc *blockchain.Blockchain) error) {
		if w.dead {
			return
		}
		if w.failFired.Swap(false) {
			// a batch commit of this prune failed (injected write error): the sweep stopped with the
			// earlier batches durable. The live node - whose in-memory floor may already be at the
			// prune target - must answer like a cancelled one: retained blocks intact, nothing below
			// the on-disk floor answered with partial data; then the restarted node likewise.
			w.r.Count("prunes_stopped_by_failed_batch_commit", 1)
			w.refuseBelow = max(w.refuseBelow, w.bound)
			w.r.Count(fmt.Sprintf("failed_batch_commit_after_%d_durable_batches", w.batchCommits.Load()), 1)
			F := w.check(w.bc.Load(), w.rec, judgeCtx{Name: "commit-error-live", RefuseStateBelow: w.bound})
			if F > lastF {
				w.floorMoved++
			}
			lastF = F
			if rng.IntN(2) == 0 {
				if !w.restart() {
					return
				}
				F = w.check(w.bc.Load(), w.rec, judgeCtx{Name: "restarted-after-commit-error"})
				lastF = F
			}
			return
		}
		if ev.cancelled {
			w.r.Count("prunes_cancelled_mid_way", 1)
			// live node right after the cancelled prune, then the restarted node
			if fc, err := pruner.OldestRetainedBlock(w.rec); err == nil && fc > lastF {
				w.cancelFloors[fc] = true
			}
			F := w.check(w.bc.Load(), w.rec, judgeCtx{Name: "cancel-live", RefuseStateBelow: w.bound})
			w.crashImages(ev, F, true, nil)
			if !w.restart() {
				return
			}
			F = w.check(w.bc.Load(), w.rec, judgeCtx{Name: "restarted-after-cancel"})
			if F > lastF {
				w.floorMoved++
			}
			lastF = F
			return
		}
		if ev.i1 == ev.i0 || (ev.i1 == ev.i0+1 && w.batchCommits.Load() == 0) {
			// the pruner wrote nothing: cheap floor check only, full check now and then
			if rng.IntN(6) != 0 {
				return
			}
		}
		F := w.check(w.bc.Load(), w.rec, judgeCtx{Name: "live"})
		if F > lastF {
			w.floorMoved++
			w.r.Count("floor_advances", 1)
			w.r.Count("blocks_pruned", int(F-lastF))
		}
		lastF = F
		if w.batchCommits.Load() > 0 {
			w.crashImages(ev, F, false, resend)
		}
	}
	armCancel := func() {
		w.cancelAt.Store(0)
		w.failAt.Store(0)
		w.failFired.Store(false)
		if cfg.Fault && rng.IntN(2) == 0 {
			k := 1 + rng.IntN(2)
			if cfg.Batch == 1 {
				k = 1 + rng.IntN(7)
			}
			w.failAt.Store(int64(k))
			return
		}
		if cfg.Cancel && rng.IntN(2) == 0 {
			if rng.IntN(3) == 0 {
				// cancelled between taking the event and the sweep's first deletion (a shutdown
				// that races with an event), or a few reads into the sweep
				w.eventReads.Store(0)
				w.cancelAtRead.Store(int64(1 + rng.IntN(6)))
				w.rec.SetOnRead(func([]byte) {
					s := w.sess
					if s == nil || !w.inEvent.Load() || curGID() != s.gid.Load() {
						return
					}
					if k := w.cancelAtRead.Load(); k > 0 && w.eventReads.Add(1) == k {
						if f := w.cancelFn.Load(); f != nil {
							(*f)()
							w.r.Count("prunes_cancelled_after_a_read_of_the_pruner(before or early in the sweep)", 1)
						}
					}
				})
				return
			}
			k := 1 + rng.IntN(2)
			if cfg.Batch == 1 {
				k = 1 + rng.IntN(7)
			}
			w.cancelAt.Store(int64(k))
		}
	}
	disarmCancel := func() {
		w.cancelAt.Store(0)
		w.failAt.Store(0)
		if w.cancelAtRead.Swap(0) != 0 {
			w.rec.SetOnRead(nil)
		}
	}
	openHeld := func() []*heldView {
		if rng.IntN(2) == 0 {
			return nil
		}
		return w.openHeld(lastF)
	}
	readHeld := func(held []*heldView) {
		if len(held) == 0 {
			return
		}
		F, err := pruner.OldestRetainedBlock(w.rec)
		if err != nil {
			F = 0
		}
		w.readThrough(held, F)
	}
	doL1 := func(n uint64) {
		armCancel()
		held := openHeld()
		ev, ok := w.sendL1(n)
		disarmCancel()
		readHeld(held)
		if !ok {
			return
		}
		afterEvent(ev, func(s *session, bc *blockchain.Blockchain) error { return bc.SetL1Head(w.l1HeadFor(n)) })
	}
	doHead := func(n uint64) {
		armCancel()
		held := openHeld()
		ev, ok := w.sendHead(n)
		disarmCancel()
		readHeld(held)
		if !ok {
			return
		}
		b := w.main.Blocks[n].Block
		afterEvent(ev, func(s *session, _ *blockchain.Blockchain) error { s.heads.Send(b); return nil })
	}
	// directed interleaving: the node has just been restarted (nothing cached, the running event
	// filter not yet rebuilt); its first event query - over blocks that stay retained - has done k
	// point reads (through the store or a snapshot of it) when an L1 head arrives and the pruner
	// deletes everything the configuration allows, all of it before the query's next read. The
	// event is delivered from inside the store's Get on the query's goroutine; the pruner works
	// on its own goroutine as always.
	doL1Overtaking := func(n uint64) {
		if w.pos < 3 {
			doL1(n)
			return
		}
		if !w.restart() {
			return
		}
		w.cancelAt.Store(0)
		w.failAt.Store(0)
		w.failFired.Store(false)
		k := int64(1 + rng.IntN(pick(rng, 3, 10, 40)))
		// the query starts at or above the floor this event can lead to, mostly right at it
		from := uint64(0)
		if n < w.head() && n >= cfg.Retained {
			from = n - cfg.Retained
		}
		from = max(from, w.bound)
		if from < w.head() && rng.IntN(3) == 0 {
			from += uint64(rng.IntN(int(w.head()-from) + 1))
		}
		from = min(from, w.head())
		var cnt atomic.Int64
		var ev eventResult
		var ok, fired bool
		me := lib.GoID()
		w.rec.SetOnRead(func([]byte) {
			if lib.GoID() != me { // the pruner service reads too (start-up, every event)
				return
			}
			if cnt.Add(1) == k {
				w.rec.SetOnRead(nil)
				fired = true
				ev, ok = w.sendL1(n)
			}
		})
		got := eventsFrom(w.bc.Load(), from, nil)
		w.rec.SetOnRead(nil)
		if !fired {
			w.r.Count("directed.query_finished_before_the_chosen_read", 1)
			doL1(n)
			return
		}
		w.r.Count("directed.first_query_after_restart_overtaken_by_an_L1_event", 1)
		if os.Getenv("VERIF_C16_DUMP") != "" {
			fl, _ := pruner.OldestRetainedBlock(w.rec)
			fmt.Fprintf(os.Stderr, "case %d directed: late=%v n=%d head=%d k=%d from=%d retained=%d minage=%d bound=%d floor-after=%d commits=%d got=%.60s\n", w.idx, cfg.LateL1, n, w.head(), k, from, cfg.Retained, cfg.MinAgeH, w.bound, fl, w.batchCommits.Load(), got)
		}
		if w.dead || !ok {
			return
		}
		if ev.i1 > ev.i0 && w.batchCommits.Load() > 0 {
			w.r.Count("directed.first_query_after_restart_overtaken_by_a_prune_that_deleted", 1)
		}
		if from >= w.bound {
			w.r.Eval(1)
			want := eventsFrom(w.twin.BC, from, nil)
			switch {
			case isErr(got):
				w.violation("directed:event-query-over-retained-blocks-fails-while-a-prune-commits", fmt.Sprintf("first event query after a restart, over [%d, head %d] (never prunable: bound %d); after its read #%d L1 head %d arrived and the pruner ran: %s", from, w.head(), w.bound, k, n, got), nil)
			case got != want:
				w.violation("directed:event-query-over-retained-blocks-wrong-while-a-prune-commits", fmt.Sprintf("first event query after a restart, over [%d, head %d]; after its read #%d L1 head %d arrived and the pruner ran: answer differs from the unpruned twin's", from, w.head(), k, n), nil)
			}
		}
		afterEvent(ev, func(s *session, bc *blockchain.Blockchain) error { return bc.SetL1Head(w.l1HeadFor(n)) })
	}
	// The same directed interleaving with a STATE READER as the overtaken operation: opening a
	// historical state view (by number or by hash) and reading through it has done k database reads
	// - the retention check, the snapshot, the first history lookups - when the L1 head arrives and
	// the pruner deletes. A view of a block whose state can never be pruned must open and answer
	// like the twin's; a view of a block the prune may pass must fail or answer like the twin's -
	// never with another block's values.
	doL1OvertakingState := func(n uint64) {
		if w.pos < 3 {
			doL1(n)
			return
		}
		w.cancelAt.Store(0)
		w.failAt.Store(0)
		w.failFired.Store(false)
		k := int64(1 + rng.IntN(pick(rng, 1, 1, 2, 4, 12)))
		if rng.IntN(10) < 7 && w.pos > 1 {
			n = w.head() - 1 // the largest step the configuration allows
		}
		// the viewed block: around the floor this event can lead to
		tgt := uint64(0)
		if n < w.head() && n >= cfg.Retained {
			tgt = n - cfg.Retained
		}
		tgt = max(tgt, w.bound)
		cands := []uint64{tgt, tgt + 1}
		for _, d := range []uint64{1, 2, 3} {
			if tgt >= d {
				cands = append(cands, tgt-d)
			}
		}
		m := min(cands[rng.IntN(len(cands))], w.head())
		if oldF, err := pruner.OldestRetainedBlock(w.rec); err == nil && tgt >= 2 && oldF+2 <= tgt && rng.IntN(10) < 6 {
			// a block whose state is retained now and which this event's prune passes
			lo := oldF
			if lo > 0 {
				lo--
			}
			m = lo + uint64(rng.IntN(int(tgt-1-lo)))
		}
		byHash := rng.IntN(2) == 0
		if byHash && rng.IntN(2) == 0 {
			k = 1 // right after the view's first read (by hash: the hash -> number lookup)
		}
		cs, ss := sortedFelts(w.ps.Contracts), sortedFelts(w.ps.Slots)
		var cnt atomic.Int64
		var ev eventResult
		var ok, fired bool
		me := lib.GoID()
		w.rec.SetOnRead(func([]byte) {
			if lib.GoID() != me {
				return
			}
			if cnt.Add(1) == k {
				w.rec.SetOnRead(nil)
				fired = true
				ev, ok = w.sendL1(n)
			}
		})
		var sr core.StateReader
		var closer func() error
		var err error
		if byHash {
			sr, closer, err = w.bc.Load().StateAtBlockHash(w.main.Blocks[m].Block.Hash)
		} else {
			sr, closer, err = w.bc.Load().StateAtBlockNumber(m)
		}
		var got map[string]string
		if err == nil {
			got = stateAnswers(sr, cs, ss)
			closer()
		}
		w.rec.SetOnRead(nil)
		if !fired {
			w.r.Count("directed.state_view_finished_before_the_chosen_read", 1)
			doL1(n)
			return
		}
		w.r.Count("directed.state_view_overtaken_by_an_L1_event", 1)
		if w.dead || !ok {
			return
		}
		if ev.i1 > ev.i0 && w.batchCommits.Load() > 0 {
			w.r.Count("directed.state_view_overtaken_by_a_prune_that_deleted", 1)
		}
		how := map[bool]string{false: "StateAtBlockNumber", true: "StateAtBlockHash"}[byHash]
		tr, tcloser, terr := w.twin.BC.StateAtBlockNumber(m)
		if terr == nil {
			want := stateAnswers(tr, cs, ss)
			tcloser()
			w.r.Eval(1)
			neverPrunable := m+1 >= w.bound
			switch {
			case err != nil && neverPrunable:
				w.violation("directed:state-view-of-retained-block-refused-while-a-prune-commits:"+how,
					fmt.Sprintf("%s(%d) (state never prunable: bound %d) overtaken after its read #%d by L1 head %d: %v", how, m, w.bound, k, n, err), nil)
			case err == nil:
				var wrong []string
				for key, v := range got {
					if v != "ERR" && want[key] != v {
						wrong = append(wrong, fmt.Sprintf("%s: pruned=%q twin=%q", key, v, want[key]))
					}
				}
				for key, v := range want {
					if _, has := got[key]; !has && v != "ERR" {
						wrong = append(wrong, fmt.Sprintf("%s: pruned=%q twin=%q", key, "", v))
					}
				}
				sort.Strings(wrong)
				if neverPrunable {
					if d := diffMaps(got, want); len(d) > 0 {
						w.violation("directed:state-view-of-retained-block-wrong-while-a-prune-commits:"+how,
							fmt.Sprintf("%s(%d) overtaken after its read #%d by L1 head %d: %s", how, m, k, n, d[0]), map[string]any{"examples": head5(d)})
					}
				} else if len(wrong) > 0 {
					fl, _ := pruner.OldestRetainedBlock(w.rec)
					w.violation("directed:state-view-overtaken-by-a-prune-answers-with-another-block's-values:"+how,
						fmt.Sprintf("%s(%d) was overtaken after its read #%d by L1 head %d; the prune moved the floor to %d; the view opened without error and answers with values that are not block %d's: %s",
							how, m, k, n, fl, m, wrong[0]), map[string]any{"examples": head5(wrong), "view_block": m, "floor_after": fl})
				} else {
					w.r.Count("directed.overtaken_state_views_answering_correctly_or_failing", 1)
				}
			default:
				w.r.Count("directed.overtaken_state_views_refused(prunable block)", 1)
			}
		}
		afterEvent(ev, func(s *session, bc *blockchain.Blockchain) error { return bc.SetL1Head(w.l1HeadFor(n)) })
	}
	// A paged event query that straddles a prune: the first page(s) are fetched while their blocks
	// are retained, the prune then moves the floor past the block the continuation token points
	// at, and the query is continued with that token (on the running node, or on the node
	// restarted without a filter snapshot). The continuation must fail, or the pages together
	// must be the complete answer - never a silently shortened one.
	doL1PagedAcross := func(n uint64) {
		if w.pos < 4 {
			doL1(n)
			return
		}
		if rng.IntN(10) < 7 {
			n = w.head() - 1
		}
		from, err := pruner.OldestRetainedBlock(w.rec)
		if err != nil {
			doL1(n)
			return
		}
		chunk := uint64(1 + rng.IntN(3))
		// two thirds of the queries filter by one contract (answered through the bloom index; an
		// unfiltered query reads every block of its range)
		var addrs []felt.Address
		if cs := sortedFelts(w.ps.Contracts); len(cs) > 0 && rng.IntN(3) > 0 {
			addrs = []felt.Address{felt.Address(cs[rng.IntN(len(cs))])}
		}
		first, tok, err := eventPages(w.bc.Load(), addrs, from, nil, chunk, 1+rng.IntN(2))
		want, _, terr := eventPages(w.twin.BC, addrs, from, nil, 1000, 1<<20)
		if err != nil || terr != nil || tok == nil {
			w.r.Count("paged.no_continuation_token_before_the_event", 1)
			doL1(n)
			return
		}
		doL1(n)
		if w.dead {
			return
		}
		floorAfter, _ := pruner.OldestRetainedBlock(w.rec)
		restarted := false
		if rng.IntN(2) == 0 {
			// (the restart the scenario uses is graceful; an ungraceful one is a fresh node without the snapshot)
			if !w.restart() {
				return
			}
			restarted = true
		}
		rest, _, err := eventPages(w.bc.Load(), addrs, from, tok, chunk, 1<<20)
		w.r.Eval(1)
		w.r.Count("paged.queries_continued_after_an_event", 1)
		if floorAfter > from {
			w.r.Count("paged.queries_continued_after_the_floor_passed_their_start", 1)
		}
		if err != nil {
			if floorAfter <= from {
				w.violation("paged-event-query:continuation-fails-although-nothing-it-covers-was-pruned",
					fmt.Sprintf("query from block %d (floor still %d) continued after L1 head %d: %v", from, floorAfter, n, err), nil)
			} else {
				w.r.Count("paged.continuations_refused_after_the_floor_passed_their_start", 1)
				w.r.Count(fmt.Sprintf("paged.continuations_refused:restarted=%v:pruned-error=%v", restarted, errors.Is(err, pruner.ErrBlockPruned)), 1)
			}
			return
		}
		got := append(append([]string{}, first...), rest...)
		if strings.Join(got, "\n") != strings.Join(want, "\n") {
			w.violation(fmt.Sprintf("paged-event-query:continued-across-a-prune:answer-incomplete-or-wrong:restarted=%v", restarted),
				fmt.Sprintf("query (address filter %v) over [%d, head %d] with chunk %d: %d events fetched before L1 head %d moved the floor to %d, the continuation returned %d more without error; the unpruned twin has %d in total",
					addrs, from, w.head(), chunk, len(first), n, floorAfter, len(rest), len(want)), map[string]any{"first_pages": head5(first), "continuation": head5(rest)})
			return
		}
		w.r.Count("paged.continuations_complete", 1)
	}
	pickL1 := func() uint64 {
		if w.pos == 0 {
			return uint64(rng.IntN(5))
		}
		h := w.head()
		switch rng.IntN(10) {
		case 0, 1, 2, 3: // lagging a little behind the head
			lag := uint64(1 + rng.IntN(4))
			if lag > h {
				lag = h
			}
			return h - lag
		case 4, 5: // anywhere below (L1 heads may also go backwards)
			return uint64(rng.IntN(int(h) + 1))
		case 6:
			return h
		default: // ahead of the local head: the node is catching up
			return h + 1 + uint64(rng.IntN(6))
		}
	}

	// ---- growth with L1 heads lagging / equal / ahead
	for w.pos < cfg.ChainLen && !w.dead {
		switch x := rng.IntN(40); {
		case x < 26:
			k := 1 + rng.IntN(4)
			for i := 0; i < k && w.pos < cfg.ChainLen && !w.dead; i++ {
				if !w.storeNext() {
					return
				}
				if rng.IntN(6) != 0 { // the feed may drop an event for a busy subscriber
					doHead(w.head())
				}
				if rng.IntN(8) == 0 && !w.dead {
					doHead(uint64(rng.IntN(w.pos))) // duplicate / stale head event
				}
			}
		case x < 39:
			if cfg.LateL1 && w.l1 < 0 {
				// the whole backlog is pruned by one event - and that event overtakes a query
				if w.pos >= cfg.ChainLen*3/4 {
					doL1Overtaking(w.head() - 1)
				}
				continue
			}
			n := pickL1()
			if rng.IntN(5) == 0 {
				doL1PagedAcross(n)
			} else if rng.IntN(5) < 2 {
				if rng.IntN(2) == 0 && w.pos > 1 {
					n = w.head() - 1 // the largest step the configuration allows (an L1 head at or above the local head prunes nothing)
				}
				if rng.IntN(3) > 0 {
					doL1OvertakingState(n)
				} else {
					doL1Overtaking(n)
				}
			} else {
				doL1(n)
			}
			if rng.IntN(5) == 0 && !w.dead {
				doL1(n) // duplicate
			}
		default:
			// graceful stop and restart of the node
			if !w.restart() {
				return
			}
			w.r.Count("graceful_restarts", 1)
		}
	}
	if w.dead {
		return
	}
	// make sure the steady state (L1 slightly behind the head) is visited
	if w.pos > 2 {
		doL1(w.head() - 1)
	}
	if w.dead {
		return
	}
	F := w.check(w.bc.Load(), w.rec, judgeCtx{Name: "live"})

	// ---- the node can still extend
	for i := 0; i < 2 && !w.dead; i++ {
		if !w.storeNext() {
			return
		}
		doHead(w.head())
	}
	if w.dead {
		return
	}
	F = w.check(w.bc.Load(), w.rec, judgeCtx{Name: "after-extend"})

	// ---- and revert down to the floor (no events: the synchroniser sends none on a reorg)
	for w.head() > F && !w.dead {
		if !w.revertBoth() {
			return
		}
	}
	if w.dead {
		return
	}
	w.r.Count("reverted_down_to_floor", 1)
	F2 := w.check(w.bc.Load(), w.rec, judgeCtx{Name: "after-revert-to-floor"})
	if F2 != F {
		w.violation("floor-moved-by-revert", fmt.Sprintf("floor %d before reverting, %d after", F, F2), nil)
	}
	// ---- regrow on a fork
	for w.builder.BC != nil {
		h, err := w.builder.BC.Height()
		if err != nil || int(h) < w.pos {
			break
		}
		if err := w.builder.BC.RevertHead(); err != nil {
			r.Violation("generator:builder-revert", idx, err.Error(), cfg)
			return
		}
	}
	fork := w.main.Prefix(w.pos)
	if err := w.extendChain(fork, 3); err != nil {
		r.Violation("generator:builder-rejects-valid-block", idx, err.Error(), cfg)
		return
	}
	w.gate.Lock()
	w.main = fork
	w.shared.main.Store(fork)
	w.gate.Unlock()
	w.twinDirty = true
	for w.pos < w.main.Len() && !w.dead {
		if !w.storeNext() {
			return
		}
		doHead(w.head())
	}
	if w.dead {
		return
	}
	w.check(w.bc.Load(), w.rec, judgeCtx{Name: "after-fork-regrowth"})
	if !w.restart() {
		return
	}
	Fend := w.check(w.bc.Load(), w.rec, judgeCtx{Name: "restarted"})

	if w.sess != nil {
		if _, _, nerr := w.sess.counts(); nerr > 0 {
			w.r.Count("prune_errors_reported_by_listener", nerr)
			w.logf("listener errors: %v", w.sess.errList())
		}
	}
	r.Count("scenarios", 1)
	r.Count("scenarios_on_"+cfg.Store, 1)
	if w.floorMoved > 0 {
		r.Count("scenarios_with_pruning", 1)
		r.Case(fmt.Sprintf("%s-r%d-age%d-%s%d-b%d-l%d-len%d-start%d-cancel%v-F%d-moves%d", cfg.Backend, cfg.Retained, cfg.MinAgeH, cfg.Profile, cfg.YoungFrom, cfg.Batch, cfg.L2Per, cfg.ChainLen, cfg.StartAt, cfg.Cancel, Fend, w.floorMoved))
	} else {
		r.Count("scenarios_without_pruning(retention>chain / min-age / l1 never below head)", 1)
		r.Case(fmt.Sprintf("nop-%s-r%d-age%d-%s", cfg.Backend, cfg.Retained, cfg.MinAgeH, cfg.Profile))
	}
	if w.floorMoved > 1 && w.images > 0 {
		st := w.steps
		if len(st) > 40 {
			st = append(append([]string{}, st[:40]...), fmt.Sprintf("... %d more", len(w.steps)-40))
		}
		r.Sample(map[string]any{"case": idx, "config": cfg, "final_floor": Fend, "final_head": w.pos - 1, "floor_advances": w.floorMoved, "crash_images": w.images, "steps": st})
	}
}

func (w *world) startSession() bool {
	s, err := startPruner(w.rec, w.floor, w.bc.Load(), w.opts())
	if err != nil {
		w.r.Inconclusive("watchdog:pruner-start")
		w.dead = true
		return false
	}
	w.sess = s
	f := func() { s.cancel() }
	w.cancelFn.Store(&f)
	return true
}

// restart stops the pruner service (if still running), drops the Blockchain and the
// floor, and reopens everything over the same store - what a node restart does.
func (w *world) restart() bool {
	if w.sess != nil {
		if err := w.sess.stop(); err != nil {
			w.r.Inconclusive("watchdog:pruner-stop")
			w.dead = true
			return false
		}
		if w.sess.runErr != nil {
			w.violation("pruner-run-returned-error", w.sess.runErr.Error(), nil)
		}
		if n := len(w.sess.errList()); n > 0 {
			w.r.Count("prune_errors_reported_by_listener", n)
			w.logf("listener errors: %v", w.sess.errList())
		}
	}
	w.gate.Lock()
	bc, floor, err := newPrunedChain(w.rec, w.cfg.NewState)
	if err == nil {
		w.bc.Store(bc)
		w.floor = floor
		w.refuseBelow = 0
	}
	w.gate.Unlock()
	if err != nil {
		w.violation("restart:floor-seed-fails", err.Error(), nil)
		w.dead = true
		return false
	}
	w.logf("restart")
	return w.startSession()
}

func TestC16(t *testing.T) {
	r := lib.Start("C16", "fault_enumeration")
	n := r.N(40, 320)
	floor := 12
	if r.Race {
		floor = 3 // the race binary runs an eighth of the cases
	}
	r.Cases(n, 0, func(idx int) { runScenario(r, idx) })
	r.Cases(r.N(24, 200), 0, func(idx int) { runHistMigScenario(r, idx) })
	r.Assume("the twin (same Juno code, never pruned) is the reference for every answer; its own correctness is C03/C04/C07's subject")
	r.Assume("the only senders on the pruner's two feeds are the harness; an event counts as handled when both subscription channels are empty and the goroutine running Pruner.Run is parked in Run's select (runtime.Stack) - no sleep length enters a verdict")
	r.Assume("block timestamps are either 2023 (generator default) or year 2096, minAge is 0 or 24h: no verdict depends on the current clock")
	r.Assume("new-head events are only sent for blocks that are stored and canonical when sent (what the synchroniser does); L1 heads are arbitrary")
	r.Finish("case = (state backend, retained in {0,1,5,12/50,>chain}, minAge {0,24h} x timestamp profile {old,future,mixed}, batch threshold {1 byte, default}, l2HeadsPerPrune {1,3}, sampler tick {15min,1ms}, chain length, pruner start height, cancellation on/off); "+
		"the real pruner.Pruner.Run is driven by new-head / L1-head events (lagging, equal, ahead, backwards, duplicates, dropped) while the chain grows, then the node extends, reverts to the floor, regrows on a fork and restarts; "+
		"after every event that made the pruner write, and for sampled crash images (database after the k-th commit of the prune, reopened with a freshly seeded floor; one image per prune also resumed), and after cancellation at the k-th batch write (+ restart): "+
		"floor := OldestRetainedBlock <= running max of min(L1 head, head) - retained capped by the oldest young block; every probe answer about a block >= floor, every state view >= floor-1 (by number and hash), the head state and event queries from the floor equal the never-pruned twin's; "+
		"below the floor bodies / lookups must fail and header-derived or state answers must fail or equal the twin's; distinct = distinct (configuration, final floor, number of floor advances)", floor)
}

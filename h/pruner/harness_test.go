package vpruner

import (
	"bytes"
	"context"
	"fmt"
	"runtime"
	"strconv"
	"strings"
	"sync"
	"sync/atomic"
	"time"

	"github.com/NethermindEth/juno/blockchain"
	"github.com/NethermindEth/juno/blockchain/networks"
	"github.com/NethermindEth/juno/core"
	"github.com/NethermindEth/juno/db"
	"github.com/NethermindEth/juno/db/memory"
	"github.com/NethermindEth/juno/feed"
	"github.com/NethermindEth/juno/pruner"
	"github.com/NethermindEth/juno/utils/log"
)

// ---------------------------------------------------------------- goroutine introspection
//
// The pruner's event loop gives no signal when a handler returns through one of its
// early-exit paths. To make event handling deterministic without touching Juno the
// harness is the only sender on both feeds and waits, after every event, until
//   (a) both subscription channels are empty and
//   (b) the goroutine running Pruner.Run is *parked in the select of Run*
// (read from runtime.Stack). Because nobody else sends, that state is stable: every
// event sent so far has been handled completely. No sleep length enters a verdict.

func curGID() int64 {
	var buf [64]byte
	n := runtime.Stack(buf[:], false)
	f := strings.Fields(string(buf[:n])) // "goroutine 123 [running]:"
	if len(f) < 2 {
		return -1
	}
	id, err := strconv.ParseInt(f[1], 10, 64)
	if err != nil {
		return -1
	}
	return id
}

const runFrame = "github.com/NethermindEth/juno/pruner.(*Pruner).Run("

// goroutineParkedInRun reports whether goroutine gid is blocked in a select whose
// innermost non-runtime frame is Pruner.Run. found=false if the goroutine is gone.
func goroutineParkedInRun(gid int64, buf *[]byte) (parked, found bool) {
	var dump []byte
	for {
		n := runtime.Stack(*buf, true)
		if n < len(*buf) {
			dump = (*buf)[:n]
			break
		}
		*buf = make([]byte, 2*len(*buf))
	}
	hdr := []byte(fmt.Sprintf("goroutine %d [", gid))
	pos := -1
	if bytes.HasPrefix(dump, hdr) {
		pos = 0
	} else if i := bytes.Index(dump, append([]byte("\n"), hdr...)); i >= 0 {
		pos = i + 1
	}
	if pos < 0 {
		return false, false
	}
	rest := dump[pos+len(hdr):]
	end := bytes.IndexByte(rest, ']')
	nl := bytes.IndexByte(rest, '\n')
	if end < 0 || nl < 0 {
		return false, true
	}
	status := string(rest[:end])
	top := rest[nl+1:]
	if e := bytes.IndexByte(top, '\n'); e >= 0 {
		top = top[:e]
	}
	isSelect := status == "select" || strings.HasPrefix(status, "select,")
	return isSelect && bytes.HasPrefix(top, []byte(runFrame)), true
}

// ---------------------------------------------------------------- pruner session

type prunerOpts struct {
	Retained uint64
	MinAge   time.Duration
	Batch    int // 0 = Juno's default
	L2Per    uint64
	Tick     time.Duration // 0 = Juno's default (15 min: never fires in a run)
}

type pruneEv struct {
	Oldest, Blocks uint64
}

type session struct {
	heads   *feed.Feed[*core.Block]
	headSub *feed.Subscription[*core.Block]
	l1Sub   *feed.Subscription[*core.L1Head]
	cancel  context.CancelFunc
	done    chan struct{}
	runErr  error
	gid     atomic.Int64
	buf     []byte

	mu     sync.Mutex
	prunes []pruneEv
	errs   []string
	stale  int
}

var errWatchdog = fmt.Errorf("watchdog")

const watchdog = 120 * time.Second // >= 1000x a normal handler; firing => inconclusive

func startPruner(store db.KeyValueStore, floor *pruner.RetentionFloor, bc *blockchain.Blockchain, o prunerOpts) (*session, error) {
	s := &session{heads: feed.New[*core.Block](), done: make(chan struct{}), buf: make([]byte, 1<<20)}
	s.headSub = s.heads.Subscribe()
	s.l1Sub = bc.SubscribeL1Head().Subscription
	opts := []pruner.Option{
		pruner.WithL2HeadsPerPrune(o.L2Per),
		pruner.WithMinAge(o.MinAge),
		pruner.WithListener(&pruner.SelectiveListener{
			OnPruneCb: func(oldest, n uint64, _ time.Duration) {
				s.mu.Lock()
				s.prunes = append(s.prunes, pruneEv{oldest, n})
				s.mu.Unlock()
			},
			OnPruneErrorCb: func(err error) {
				s.mu.Lock()
				s.errs = append(s.errs, err.Error())
				s.mu.Unlock()
			},
			OnL1StaleCb: func() {
				s.mu.Lock()
				s.stale++
				s.mu.Unlock()
			},
		}),
	}
	if o.Batch > 0 {
		opts = append(opts, pruner.WithTargetBatchByteSize(o.Batch))
	}
	if o.Tick > 0 {
		opts = append(opts, pruner.WithFloorTickInterval(o.Tick))
	}
	p := pruner.New(store, floor, o.Retained, s.headSub, s.l1Sub, log.NewNopZapLogger(), opts...)
	ctx, cancel := context.WithCancel(context.Background())
	s.cancel = cancel
	s.gid.Store(-1)
	go func() {
		s.gid.Store(curGID())
		s.runErr = p.Run(ctx)
		close(s.done)
	}()
	if _, err := s.quiesce(); err != nil {
		return nil, err
	}
	return s, nil
}

func (s *session) stopped() bool {
	select {
	case <-s.done:
		return true
	default:
		return false
	}
}

// quiesce waits until every event sent so far has been handled (see above) or Run has
// returned (stopped=true). err != nil only when the watchdog fires.
func (s *session) quiesce() (stopped bool, err error) {
	deadline := time.Now().Add(watchdog)
	pause := 20 * time.Microsecond
	for {
		if s.stopped() {
			return true, nil
		}
		if gid := s.gid.Load(); gid >= 0 && len(s.headSub.Recv()) == 0 && len(s.l1Sub.Recv()) == 0 {
			parked, found := goroutineParkedInRun(gid, &s.buf)
			if parked {
				return false, nil
			}
			if !found && s.stopped() {
				return true, nil
			}
		}
		if time.Now().After(deadline) {
			return false, errWatchdog
		}
		time.Sleep(pause)
		if pause < 2*time.Millisecond {
			pause *= 2
		}
	}
}

func (s *session) stop() error {
	s.cancel()
	select {
	case <-s.done:
		return nil
	case <-time.After(watchdog):
		return errWatchdog
	}
}

func (s *session) counts() (prunes int, pruned uint64, errs int) {
	s.mu.Lock()
	defer s.mu.Unlock()
	for _, p := range s.prunes {
		pruned += p.Blocks
	}
	return len(s.prunes), pruned, len(s.errs)
}

func (s *session) errList() []string {
	s.mu.Lock()
	defer s.mu.Unlock()
	return append([]string{}, s.errs...)
}

// newPrunedChain opens a Blockchain over store the way node.New does for a pruning
// node: shared retention floor, pruning-aware running-event-filter initialiser. The
// floor is seeded from the database as node.Run does after migrations.
func newPrunedChain(store db.KeyValueStore, newState bool) (*blockchain.Blockchain, *pruner.RetentionFloor, error) {
	floor := &pruner.RetentionFloor{}
	bc := blockchain.New(store, &networks.Sepolia,
		blockchain.WithNewState(newState),
		blockchain.WithRetentionFloor(floor),
		blockchain.WithRunningEventFilterInitializer(pruner.InitializeRunningEventFilter))
	if err := floor.Seed(store); err != nil {
		return nil, nil, err
	}
	return bc, floor, nil
}

// ---------------------------------------------------------------- memory store with cheap read-only iterators

// fastMem is Juno's in-memory store with one shortcut: an indexed batch that holds no
// writes iterates the database directly instead of first copying the whole store (the
// stock implementation copies it for every NewIterator, and the legacy state history
// opens one iterator per historical read). For a batch without writes both give the
// same sequence. Write paths are untouched.
type fastMem struct{ *memory.Database }

func newFastMem() fastMem { return fastMem{memory.New()} }

func (f fastMem) NewIndexedBatch() db.IndexedBatch {
	return &fastIB{IndexedBatch: f.Database.NewIndexedBatch(), d: f.Database}
}

func (f fastMem) NewIndexedBatchWithSize(n int) db.IndexedBatch {
	return &fastIB{IndexedBatch: f.Database.NewIndexedBatchWithSize(n), d: f.Database}
}

type fastIB struct {
	db.IndexedBatch
	d     *memory.Database
	dirty bool
}

func (b *fastIB) Put(k, v []byte) error { b.dirty = true; return b.IndexedBatch.Put(k, v) }
func (b *fastIB) Delete(k []byte) error { b.dirty = true; return b.IndexedBatch.Delete(k) }
func (b *fastIB) DeleteRange(s, e []byte) error {
	b.dirty = true
	return b.IndexedBatch.DeleteRange(s, e)
}

func (b *fastIB) NewIterator(prefix []byte, withUpperBound bool) (db.Iterator, error) {
	if b.dirty {
		return b.IndexedBatch.NewIterator(prefix, withUpperBound)
	}
	return b.d.NewIterator(prefix, withUpperBound)
}

package vpruner

import (
	"crypto/sha256"
	"encoding/hex"
	"fmt"
	"sort"
	"sync"
	"sync/atomic"
	"time"

	"github.com/NethermindEth/juno/blockchain"
	"github.com/NethermindEth/juno/core"
	"github.com/NethermindEth/juno/core/felt"
	"github.com/NethermindEth/juno/encoder"
	"github.com/NethermindEth/juno/verifh/lib"
	"github.com/NethermindEth/juno/verifh/lib/chain"
)

// Class of the "reader opened before the floor passed its block" witnesses (both the
// deterministic held-reader check and a concurrent reader overtaken by a prune).
const classStaleReader = "state-reader-overtaken-by-prune:wrong-historical-state"

func enc(v any, err error) (string, bool) {
	if err != nil {
		return "ERR:" + err.Error(), false
	}
	b, e := encoder.Marshal(v)
	if e != nil {
		return "ENCODE-ERR:" + e.Error(), true
	}
	s := sha256.Sum256(b)
	return hex.EncodeToString(s[:8]) + fmt.Sprintf("/%d", len(b)), true
}

// stateAnswers reads class hash, nonce and the given slots of the given contracts.
func stateAnswers(sr core.StateReader, contracts, slots []felt.Felt) map[string]string {
	out := map[string]string{}
	for i := range contracts {
		a := &contracts[i]
		p := a.String() + "/"
		if v, err := sr.ContractClassHash(a); err == nil {
			out[p+"class"] = v.String()
		} else {
			out[p+"class"] = "ERR"
		}
		if v, err := sr.ContractNonce(a); err == nil {
			out[p+"nonce"] = v.String()
		} else {
			out[p+"nonce"] = "ERR"
		}
		for j := range slots {
			v, err := sr.ContractStorage(a, &slots[j])
			if err != nil || v.IsZero() {
				continue // zero and not-found are the same answer for a slot
			}
			out[p+"s"+slots[j].String()] = v.String()
		}
	}
	return out
}

func diffMaps(a, b map[string]string) []string {
	var out []string
	for k, v := range a {
		if b[k] != v {
			out = append(out, fmt.Sprintf("%s: pruned=%q twin=%q", k, v, b[k]))
		}
	}
	for k, v := range b {
		if _, ok := a[k]; !ok {
			out = append(out, fmt.Sprintf("%s: pruned=%q twin=%q", k, "", v))
		}
	}
	sort.Strings(out)
	return out
}

func sortedFelts(m map[felt.Felt]struct{}) []felt.Felt { return chain.SortedFelts(m) }

// ---------------------------------------------------------------- readers held across a prune

type heldView struct {
	n      uint64
	sr     core.StateReader
	closer func() error
	want   map[string]string // twin's answers for the same block
}

// openHeld opens historical state views on the pruned node (by number) before an
// event is delivered; readThrough uses them afterwards. An RPC handler does exactly
// this with a reader it keeps for the duration of a call.
func (w *world) openHeld(floorNow uint64) []*heldView {
	if w.pos == 0 {
		return nil
	}
	cs, ss := sortedFelts(w.ps.Contracts), sortedFelts(w.ps.Slots)
	cand := map[uint64]bool{}
	if floorNow > 0 {
		cand[floorNow-1] = true
	}
	cand[floorNow] = true
	for i := 0; i < 3; i++ {
		if w.head() >= floorNow {
			cand[floorNow+uint64(w.rng.IntN(int(w.head()-floorNow)+1))] = true
		}
	}
	var ns []uint64
	for n := range cand {
		if n <= w.head() {
			ns = append(ns, n)
		}
	}
	sort.Slice(ns, func(i, j int) bool { return ns[i] < ns[j] })
	var out []*heldView
	for _, n := range ns {
		sr, closer, err := w.bc.Load().StateAtBlockNumber(n)
		if err != nil {
			continue
		}
		tr, tcloser, terr := w.twin.BC.StateAtBlockNumber(n)
		if terr != nil {
			closer()
			continue
		}
		want := stateAnswers(tr, cs, ss)
		tcloser()
		out = append(out, &heldView{n: n, sr: sr, closer: closer, want: want})
	}
	return out
}

func (w *world) readThrough(held []*heldView, floorAfter uint64) {
	cs, ss := sortedFelts(w.ps.Contracts), sortedFelts(w.ps.Slots)
	for _, h := range held {
		got := stateAnswers(h.sr, cs, ss)
		h.closer()
		w.r.Count("held_state_readers_read_after_event", 1)
		w.r.Eval(len(got))
		d := diffMaps(got, h.want)
		if len(d) == 0 {
			continue
		}
		if h.n+1 >= floorAfter {
			w.violation("held-reader:retained-state-wrong", fmt.Sprintf("state view of retained block %d (floor %d) opened before the event answers wrongly after it: %s", h.n, floorAfter, d[0]), map[string]any{"examples": head5(d)})
			continue
		}
		w.r.Count("held_state_readers_overtaken_by_floor", 1)
		w.violation(classStaleReader, fmt.Sprintf("StateAtBlockNumber(%d) opened while block %d was retained; the prune then raised the floor to %d; reads through the still-open reader now return wrong values instead of failing: %s",
			h.n, h.n, floorAfter, d[0]), map[string]any{"view_block": h.n, "floor_after": floorAfter, "examples": head5(d), "how": "reader held across the prune"})
	}
}

func head5(s []string) []string {
	if len(s) > 5 {
		return s[:5]
	}
	return s
}

// ---------------------------------------------------------------- concurrent readers

type readerShared struct {
	pos   atomic.Int64
	main  atomic.Pointer[chain.Chain]
	bound atomic.Uint64
}

type miniObs struct {
	block, header, su, byHash, receipt, txByHash string
	okBlock, okHeader, okSU, okByHash, okReceipt, okTx bool
	stateN, stateH, headState                          map[string]string // nil = refused
}

func miniProbe(bc *blockchain.Blockchain, b *chain.Blk, txi int, cs, ss []felt.Felt) *miniObs {
	o := &miniObs{}
	n := b.Block.Number
	o.block, o.okBlock = enc(bc.BlockByNumber(n))
	o.header, o.okHeader = enc(bc.BlockHeaderByNumber(n))
	o.su, o.okSU = enc(bc.StateUpdateByNumber(n))
	o.byHash, o.okByHash = enc(bc.BlockByHash(b.Block.Hash))
	if len(b.Block.Transactions) > 0 {
		th := b.Block.Transactions[txi%len(b.Block.Transactions)].Hash()
		rc, bh, bn, err := bc.Receipt(th)
		if err != nil {
			o.receipt = "ERR:" + err.Error()
		} else {
			s, _ := enc(rc, nil)
			o.receipt, o.okReceipt = fmt.Sprintf("%s/%s/%d", s, bh.String(), bn), true
		}
		o.txByHash, o.okTx = enc(bc.TransactionByHash(th))
	}
	if sr, closer, err := bc.StateAtBlockNumber(n); err == nil {
		o.stateN = stateAnswers(sr, cs, ss)
		closer()
	}
	if sr, closer, err := bc.StateAtBlockHash(b.Block.Hash); err == nil {
		o.stateH = stateAnswers(sr, cs, ss)
		closer()
	}
	if sr, closer, err := bc.HeadState(); err == nil {
		o.headState = stateAnswers(sr, cs, ss)
		closer()
	}
	return o
}

// startReaders runs cfg.Readers goroutines that keep asking the pruned node about
// random stored blocks while the pruner works (and while the harness probes). A mini
// probe holds the gate's read side, chain mutations hold its write side, so both
// nodes carry the same chain for the whole mini probe. Verdict per answer:
//
//	success              -> must equal the twin's answer
//	failure, block >= B  -> violation (B = the property's bound, read AFTER the probe:
//	                        blocks at or above it have never been allowed to be pruned)
func (w *world) startReaders() (stop func()) {
	var stopFlag atomic.Bool
	var wg sync.WaitGroup
	cs, ss := sortedFelts(w.ps.Contracts), sortedFelts(w.ps.Slots)
	if len(cs) > 3 {
		cs = cs[:3]
	}
	if len(ss) > 4 {
		ss = ss[:4]
	}
	for i := 0; i < w.cfg.Readers; i++ {
		wg.Add(1)
		rng := lib.Rng("C16/reader", uint64(w.idx)<<8|uint64(i))
		go func() {
			defer wg.Done()
			probes, answers := 0, 0
			defer func() {
				w.r.Count("concurrent_reader_mini_probes", probes)
				w.r.Eval(answers)
			}()
			report := func(class, brief string, extra map[string]any) {
				w.r.Violation(class, w.idx, fmt.Sprintf("[%s r=%d batch=%d] %s", w.cfg.Backend, w.cfg.Retained, w.cfg.Batch, brief), map[string]any{"config": w.cfg, "detail": extra})
			}
			for !stopFlag.Load() {
				if !w.readersOn.Load() {
					time.Sleep(100 * time.Microsecond)
					continue
				}
				w.gate.RLock()
				pos := int(w.shared.pos.Load())
				if pos == 0 {
					w.gate.RUnlock()
					continue
				}
				bc := w.bc.Load()
				b := w.shared.main.Load().Blocks[rng.IntN(pos)]
				txi := rng.IntN(8)
				p := miniProbe(bc, b, txi, cs, ss)
				B := w.shared.bound.Load()
				t := miniProbe(w.twin.BC, b, txi, cs, ss)
				w.gate.RUnlock()
				probes++
				n := b.Block.Number
				cmp := func(name string, pv string, pok bool, tv string, tok bool) {
					answers++
					if !pok {
						if tok && n >= B {
							report("concurrent-reader:retained-read-failed:"+name, fmt.Sprintf("%s of block %d failed (%s) although no floor above %d was ever allowed", name, n, pv, B), nil)
						}
						return
					}
					if !tok || pv != tv {
						report("concurrent-reader:wrong-answer:"+name, fmt.Sprintf("%s of block %d: pruned=%q twin=%q", name, n, pv, tv), nil)
					}
				}
				cmp("block", p.block, p.okBlock, t.block, t.okBlock)
				cmp("header", p.header, p.okHeader, t.header, t.okHeader)
				cmp("state_update", p.su, p.okSU, t.su, t.okSU)
				cmp("block_by_hash", p.byHash, p.okByHash, t.byHash, t.okByHash)
				if len(b.Block.Transactions) > 0 {
					cmp("receipt", p.receipt, p.okReceipt, t.receipt, t.okReceipt)
					cmp("tx_by_hash", p.txByHash, p.okTx, t.txByHash, t.okTx)
				}
				st := func(name string, pm, tm map[string]string, historical bool) {
					answers++
					if pm == nil {
						if tm != nil && (!historical || n+1 >= B) {
							report("concurrent-reader:retained-state-refused:"+name, fmt.Sprintf("%s of block %d refused although no floor above %d was ever allowed", name, n, B), nil)
						}
						return
					}
					d := diffMaps(pm, tm)
					if len(d) == 0 {
						return
					}
					if historical && n+1 < B {
						// the view may have been overtaken by a prune between its retention check and its reads
						report(classStaleReader, fmt.Sprintf("%s(%d) passed the retention check, a concurrent prune (bound %d) then deleted history below the new floor, and the open reader returned wrong values: %s", name, n, B, d[0]),
							map[string]any{"view_block": n, "bound": B, "examples": head5(d), "how": "concurrent reader"})
						return
					}
					report("concurrent-reader:wrong-state:"+name, fmt.Sprintf("%s of block %d: %s", name, n, d[0]), map[string]any{"examples": head5(d)})
				}
				st("StateAtBlockNumber", p.stateN, t.stateN, true)
				st("StateAtBlockHash", p.stateH, t.stateH, true)
				st("HeadState", p.headState, t.headState, false)
			}
		}()
	}
	return func() {
		stopFlag.Store(true)
		wg.Wait()
	}
}

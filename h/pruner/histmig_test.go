package vpruner

import (
	"context"
	"encoding/binary"
	"fmt"
	"os"
	"strings"
	"sync/atomic"

	"github.com/NethermindEth/juno/blockchain/networks"
	"github.com/NethermindEth/juno/migration"
	"github.com/NethermindEth/juno/migration/historyprunner"
	"github.com/NethermindEth/juno/pruner"
	"github.com/NethermindEth/juno/utils/log"
	"github.com/NethermindEth/juno/verifh/lib"
	"github.com/NethermindEth/juno/verifh/lib/chain"
)

// The other way a node gets pruned: an archive database is opened with pruning enabled
// and the history-pruner migration (migration/historyprunner, run by the real migration
// runner before the node starts) removes everything below the retention window in one
// go: stage the keepers' history, wipe, restore. It can be cancelled or die after any
// batch and is resumed by the next start - possibly with a different retention setting.
// The node that comes out of it is judged by the same oracle as a node pruned by the
// running pruner: against a twin that was never pruned.

type histRun struct {
	Retained    uint64 `json:"retained"`
	log0, log1  int    // commit-log window of this start
	Interrupt   string `json:"interrupt,omitempty"` // cancel | commit-error | ""
	AtCommit    int    `json:"at_commit,omitempty"`
	Commits     int    `json:"commits"`
	Interrupted bool   `json:"interrupted"`
	Err         string `json:"error,omitempty"`
}

// hasZeroWriteToUnsetSlot: some block writes zero to a slot that holds nothing (the legacy
// state logs no history record for such an entry).
func (w *world) hasZeroWriteToUnsetSlot() bool {
	for i, b := range w.main.Blocks[:w.pos] {
		for a, slots := range b.SU.StateDiff.StorageDiffs {
			for k, v := range slots {
				if !v.IsZero() {
					continue
				}
				if i == 0 {
					return true
				}
				pc, ok := w.main.States[i-1].Contracts[a]
				if !ok {
					return true
				}
				if _, set := pc.Storage[k]; !set {
					return true
				}
			}
		}
	}
	return false
}

func runHistMigScenario(r *lib.Run, idx int) {
	rng := lib.Rng("C16/history-pruner-migration", uint64(idx))
	w := &world{r: r, idx: idx, rng: rng, l1: -1, stats: map[string]int{}, cancelFloors: map[uint64]bool{}, ps: chain.NewProbeSet(), ix: newIndex(), main: &chain.Chain{}}
	newState := idx%6 == 5
	w.cfg = config{NewState: newState, Backend: map[bool]string{false: "legacy", true: "new"}[newState], Profile: "history-pruner-migration", YoungFrom: -1, L2Per: 1, Store: "memory"}
	w.cfg.ChainLen = 14 + rng.IntN(r.N(26, 50))
	w.cfg.Retained = pick(rng, uint64(0), 1, 3, 5, 5, 12)
	defer func() {
		for k, v := range w.stats {
			r.Count(k, v)
		}
	}()
	gopts := chain.Opts{NoNoopZero: lib.Avoid("noop-zero-write"), NoNoopWrite: os.Getenv("HIST_NONOOP") != "", MaxTxs: 3, EmptyProb: 0.15,
		Contracts: []uint64{0x100, 0x101, 0x200, 0x7fff0}, Slots: []uint64{2, 3, 8, 1000}}
	w.g = chain.NewGen(rng, gopts)
	w.builder = chain.NewBuilder(newState)
	const extra = 2
	if err := w.extendChain(w.main, w.cfg.ChainLen+extra); err != nil {
		r.Violation("generator:builder-rejects-valid-block", idx, err.Error(), w.cfg)
		return
	}
	w.shared.main.Store(w.main)
	w.ps.SkipEvents = true
	w.rec = chain.NewRecDB(newFastMem())
	archive := chain.NewNode(w.rec, newState) // an archive node: no retention floor, no pruner
	w.twin = chain.NewNode(newFastMem(), newState)
	for w.pos < w.cfg.ChainLen {
		b := w.main.Blocks[w.pos]
		if err := archive.StoreBlk(b); err != nil {
			r.Violation("harness:archive-rejects-valid-block", idx, err.Error(), nil)
			return
		}
		if err := w.twin.StoreBlk(b); err != nil {
			r.Violation("harness:twin-rejects-valid-block", idx, err.Error(), nil)
			return
		}
		w.pos++
	}
	head := w.head()
	var l1 uint64
	switch rng.IntN(6) {
	case 0:
		l1 = head
	case 1:
		l1 = head + 1 + uint64(rng.IntN(5))
	case 2:
		l1 = uint64(rng.IntN(int(head) + 1))
	default:
		l1 = head - min(head, uint64(1+rng.IntN(5)))
	}
	w.l1 = int64(l1)
	if err := archive.BC.SetL1Head(w.l1HeadFor(l1)); err != nil {
		r.Violation("harness:set-l1-head-failed", idx, err.Error(), nil)
		return
	}
	_ = w.twin.BC.SetL1Head(w.l1HeadFor(l1))
	w.logf("archive node: head %d, L1 head %d", head, l1)

	// ---- the migration, interrupted up to three times, each start with its own retention setting
	var inEvent atomic.Bool
	var commits atomic.Int64
	var cancelAt, failAt atomic.Int64
	var cancelFn atomic.Pointer[context.CancelFunc]
	w.rec.FailCommitIf = func(ws chain.WriteSet) bool {
		if !inEvent.Load() {
			return false
		}
		if f := failAt.Load(); f > 0 && commits.Load()+1 == f {
			failAt.Store(0)
			return true
		}
		return false
	}
	w.rec.OnCommit = func(_ int, ws chain.WriteSet) {
		if !inEvent.Load() {
			return
		}
		n := commits.Add(1)
		if c := cancelAt.Load(); c > 0 && n == c {
			if f := cancelFn.Load(); f != nil {
				(*f)()
			}
		}
	}
	nInt := rng.IntN(4)
	if newState {
		nInt = 0 // the migration does not get anywhere on a new-state database (known finding): one plain start
	}
	retainedSeq := []uint64{w.cfg.Retained}
	for i := 0; i < nInt; i++ {
		nx := retainedSeq[len(retainedSeq)-1]
		if rng.IntN(3) == 0 {
			nx = pick(rng, uint64(0), 1, 3, 5, 12, uint64(w.cfg.ChainLen+5)) // restarted with another --retained-blocks
		}
		retainedSeq = append(retainedSeq, nx)
	}
	// template (every sixth scenario): the first start is cancelled (its progress record is written),
	// the operator then restarts with a retention window LARGER than the chain - the resumed run must
	// finish what it began (its cutoff is pinned), not declare there is nothing to prune
	template := idx%6 == 2 && !newState
	if template {
		nInt = 1
		retainedSeq = []uint64{pick(rng, uint64(0), 1, 3, 5), uint64(w.cfg.ChainLen + 5)}
		r.Count("history_pruner_migration_templates:cancelled-then-restarted-with-a-window-larger-than-the-chain", 1)
	}
	minRet := retainedSeq[0]
	for _, x := range retainedSeq {
		minRet = min(minRet, x)
	}
	pivot := min(l1, head)
	if pivot >= minRet {
		w.bound, w.boundWhy = pivot-minRet, "l1"
		if head < l1 {
			w.boundWhy = "head"
		}
		w.shared.bound.Store(w.bound)
	}
	var runs []histRun
	keepRet := false
	unrecorded := false // some start ended with an error: whatever it did is not in the progress record
	var narrower *uint64
	completed := false
	firstLogLen := w.rec.LogLen()
	for i := 0; i < len(retainedSeq)+4 && !completed; i++ {
		ret := retainedSeq[min(i, len(retainedSeq)-1)]
		if narrower != nil {
			ret, narrower = *narrower, nil
			for j := range retainedSeq {
				retainedSeq[j] = ret // and it stays that way
			}
		}
		if n := len(runs); n > 0 && (runs[n-1].Interrupt == "commit-error" || keepRet) {
			// a start that ended with a write error leaves no progress record (see the known finding
			// about crashes): the operator restarts with the same setting; a changed setting after
			// unrecorded progress is exercised on the crash images below
			ret = runs[n-1].Retained
			keepRet = true
		}
		hr := histRun{Retained: ret}
		reg := migration.NewRegistry().WithOptional(historyprunner.New(ret, 0), true, "prune")
		runner, err := migration.NewRunner(reg, w.rec, &networks.Sepolia, log.NewNopZapLogger())
		if err != nil {
			r.Violation("history-pruner-migration:runner-refuses-to-start", idx, err.Error(), w.witness(map[string]any{"runs": runs}))
			return
		}
		ctx, cancel := context.WithCancel(context.Background())
		cancelFn.Store(&cancel)
		commits.Store(0)
		cancelAt.Store(0)
		failAt.Store(0)
		if i < nInt {
			k := int64(1 + rng.IntN(pick(rng, 12, 40, 70))) // early (stager), or anywhere up to the restore phase and the final clean-up
			hr.AtCommit = int(k)
			if rng.IntN(3) == 0 && !template {
				hr.Interrupt = "commit-error"
				failAt.Store(k)
			} else {
				hr.Interrupt = "cancel"
				cancelAt.Store(k)
			}
		}
		hr.log0 = w.rec.LogLen()
		inEvent.Store(true)
		err = runner.Run(ctx)
		inEvent.Store(false)
		hr.log1 = w.rec.LogLen()
		interrupted := ctx.Err() != nil || w.rec.Fired
		w.rec.Arm(0, 0, 0)
		cancel()
		hr.Commits = int(commits.Load())
		hr.Interrupted = interrupted
		if err != nil {
			hr.Err = err.Error()
		}
		runs = append(runs, hr)
		w.logf("migration start #%d: retained=%d %s@%d -> %d commits, interrupted=%v err=%v", i+1, ret, hr.Interrupt, hr.AtCommit, hr.Commits, interrupted, err)
		if interrupted {
			if hr.Interrupt == "commit-error" || (err != nil && ctx.Err() == nil) {
				unrecorded = true
			}
			r.Count("history_pruner_migration_runs_interrupted:"+hr.Interrupt, 1)
			if st, e := migration.GetIntermediateState(w.rec, 0); e == nil && len(st) == 24 {
				r.Count("history_pruner_migration_progress_records_written", 1)
				if binary.BigEndian.Uint64(st[8:16]) != 0 {
					// cancelled in the restore phase: half of these are restarted with a narrower window
					r.Count("history_pruner_migration_cancelled_in_restore_phase", 1)
					if ret > 0 && rng.IntN(2) == 0 && !keepRet {
						narrower = new(uint64)
						*narrower = pick(rng, uint64(0), ret/2)
						minRet = min(minRet, *narrower)
						if pivot >= minRet && pivot-minRet > w.bound {
							w.bound, w.boundWhy = pivot-minRet, "l1"
							w.shared.bound.Store(w.bound)
						}
					}
				}
			}
			continue
		}
		if err != nil {
			class := "history-pruner-migration:run-fails-without-fault:" + w.cfg.Backend
			notFound := strings.Contains(err.Error(), "key not found")
			switch {
			case newState && notFound && strings.Contains(err.Error(), "history at block"):
				// the migration only knows the legacy history buckets
				class = "history-pruner-migration:fails-on-new-state-database:history-record-not-found"
			case !newState && notFound && unrecorded && (strings.Contains(err.Error(), "running stager") || strings.Contains(err.Error(), "running restorer")):
				// an earlier start ended with a write error: like a process death it leaves no (or a stale)
				// progress record while its destructive steps are committed - the open finding about
				// unrecorded progress, reached without a crash image
				class = "history-pruner-migration:killed-mid-run:restart-with-same-retention:cannot-finish(history-or-scratch-already-wiped)"
			case notFound && strings.Contains(err.Error(), "setting up before restorer") && pivot >= ret && pivot-ret == 0:
				// cutoff = block 0: nothing to prune, yet the lookups are wiped and the header of block "-1" is asked for
				class = "history-pruner-migration:fails:cutoff-is-block-0"
			case !newState && notFound && strings.Contains(err.Error(), "copying storage history") && w.hasZeroWriteToUnsetSlot():
				class = "history-pruner-migration:fails:legacy:chain-has-zero-write-to-never-set-slot"
			}
			F, _ := pruner.OldestRetainedBlock(w.rec)
			r.Violation(class, idx, fmt.Sprintf("start #%d of the history-pruner migration (retained %d, head %d, L1 head %d) fails although nothing was injected, after it has already deleted block data below %d and wiped the hash/tx lookups of every block: %v",
				i+1, ret, head, l1, F, err), w.witness(map[string]any{"runs": runs}))
			return
		}
		completed = true
	}
	if !completed {
		r.Inconclusive("history-pruner-migration:not-completed")
		return
	}
	r.Count("history_pruner_migrations_completed", 1)
	r.Count("history_pruner_migration_starts", len(runs))
	lastLogLen := w.rec.LogLen()

	bc, floor, err := newPrunedChain(w.rec, newState)
	if err != nil {
		w.violation("history-pruner-migration:floor-seed-fails", err.Error(), map[string]any{"runs": runs})
		return
	}
	w.bc.Store(bc)
	w.floor = floor
	F := w.check(bc, w.rec, judgeCtx{Name: "after-history-pruner-migration"})
	if F > 0 {
		w.floorMoved++
		r.Count("history_pruner_migrations_that_pruned", 1)
		r.Count("blocks_pruned_by_history_pruner_migration", int(F))
	}
	if w.dead {
		return
	}
	// a crash image of the migration (database after its k-th commit), restarted and run to
	// completion, must give a node that passes the same check. The restart uses the retention
	// setting of the start that was in flight (no configuration change); one image per scenario
	// is also restarted with another setting.
	if lastLogLen > firstLogLen+1 && F > 0 {
		for n := 0; n < r.N(3, 6); n++ {
			k := firstLogLen + 1 + rng.IntN(lastLogLen-firstLogLen-1)
			ri := 0
			for j, hr := range runs {
				if k > hr.log0 && k <= hr.log1 {
					ri = j
				}
			}
			ret := runs[ri].Retained
			name := "history-pruner-migration-resumed-on-crash-image"
			if n == 0 {
				other := pick(rng, uint64(0), 3, 12, uint64(w.cfg.ChainLen+5))
				if other != ret {
					ret = other
					name = "history-pruner-migration-resumed-on-crash-image-with-other-retention"
					if pivot >= ret && pivot-ret > w.bound {
						continue // would legitimately prune beyond this scenario's bound
					}
				}
			}
			img := fastMem{w.rec.Image(k)}
			// does the image hold a progress record of the migration (written only when a start ends by
			// cancellation)? Without one, nothing of what the dead start had decided or done is known
			collapse := ""
			if st, err := migration.GetIntermediateState(img, 0); err != nil || len(st) == 0 {
				r.Count("history_pruner_migration_crash_images_without_progress_record", 1)
				if strings.Contains(name, "other-retention") {
					collapse = "history-pruner-migration:crash-without-progress-record:restart-with-other-retention"
				}
			}
			reg := migration.NewRegistry().WithOptional(historyprunner.New(ret, 0), true, "prune")
			runner, err := migration.NewRunner(reg, img, &networks.Sepolia, log.NewNopZapLogger())
			if err == nil {
				err = runner.Run(context.Background())
			}
			if err != nil {
				class := name + ":resume-fails"
				kn := strings.Contains(err.Error(), "key not found") && (strings.Contains(err.Error(), "running stager") || strings.Contains(err.Error(), "running restorer"))
				switch {
				case strings.Contains(name, "other-retention") && collapse != "":
					class = collapse
				case kn:
					// (also when the restart uses another retention and a record of an EARLIER, cancelled
					// start exists: it is older than what the dead start had already wiped)
					// the progress record (written only when a start is cancelled) is missing or older than
					// the destructive steps already committed: the restart stages from wiped history or
					// restores from a wiped scratch copy
					class = "history-pruner-migration:killed-mid-run:restart-with-same-retention:cannot-finish(history-or-scratch-already-wiped)"
				}
				w.violation(class, fmt.Sprintf("image after commit %d of %d (start #%d), restarted with retained=%d: %v", k-firstLogLen, lastLogLen-firstLogLen, ri+1, ret, err), map[string]any{"runs": runs})
				continue
			}
			ibc, _, err := newPrunedChain(img, newState)
			if err != nil {
				w.violation("history-pruner-migration:floor-seed-fails", err.Error(), map[string]any{"runs": runs})
				continue
			}
			w.logf("  crash image after commit #%d of the migration's %d (during start #%d), restarted with retained=%d and run to completion", k-firstLogLen, lastLogLen-firstLogLen, ri+1, ret)
			w.check(ibc, img, judgeCtx{Name: name, Collapse: collapse})
			r.Count("history_pruner_migration_crash_images_resumed", 1)
			if strings.Contains(name, "other-retention") {
				r.Count("history_pruner_migration_crash_images_resumed_with_other_retention", 1)
			}
		}
	}
	// the pruned node extends
	for i := 0; i < extra && !w.dead; i++ {
		if !w.storeNext() {
			return
		}
	}
	if w.dead {
		return
	}
	w.check(w.bc.Load(), w.rec, judgeCtx{Name: "after-history-pruner-migration+extend"})
	// ... and reverts down to its floor
	for w.head() > F && w.head() > 0 && !w.dead {
		if !w.revertBoth() {
			return
		}
	}
	if !w.dead {
		w.check(w.bc.Load(), w.rec, judgeCtx{Name: "after-history-pruner-migration+revert-to-floor"})
	}
	r.Count("scenarios", 1)
	r.Case(fmt.Sprintf("histmig-%s-len%d-l1=%d-runs%v-F%d", w.cfg.Backend, w.cfg.ChainLen, l1, runs, F))
	if idx%8 == 0 {
		r.Sample(map[string]any{"case": idx, "kind": "history-pruner migration", "backend": w.cfg.Backend, "chain_len": w.cfg.ChainLen, "l1_head": l1, "starts": runs, "oldest_retained_after": F, "steps": w.steps})
	}
}

package vpruner

import (
	"crypto/sha256"
	"encoding/hex"
	"fmt"
	"regexp"
	"sort"
	"strconv"
	"strings"

	"github.com/NethermindEth/juno/blockchain"
	"github.com/NethermindEth/juno/core"
	"github.com/NethermindEth/juno/core/felt"
	"github.com/NethermindEth/juno/verifh/lib/chain"
)

var idRe = regexp.MustCompile(`0x[0-9a-f]+|[0-9]+`)

// category strips identifiers from a probe question: "n12/txrc3" -> "n*/txrc*".
func category(q string) string {
	q = strings.SplitN(q, ":", 2)[0]
	if strings.HasPrefix(q, "m") && !strings.Contains(q, "/") {
		return "l1-message-lookup"
	}
	return idRe.ReplaceAllString(q, "*")
}

// index maps every probe question to the block it is about.
type index struct {
	hashNum map[string]uint64 // block hash (hex) -> number
	txNum   map[string]uint64 // tx hash (hex) -> number
	msgNum  map[string]uint64 // probe key of an L1 message -> number
}

func newIndex() *index {
	return &index{hashNum: map[string]uint64{}, txNum: map[string]uint64{}, msgNum: map[string]uint64{}}
}

func (ix *index) add(b *chain.Blk) {
	n := b.Block.Number
	ix.hashNum[b.Block.Hash.String()] = n
	for _, tx := range b.Block.Transactions {
		ix.txNum[tx.Hash().String()] = n
		if l1, ok := tx.(*core.L1HandlerTransaction); ok {
			ix.msgNum["m"+hex.EncodeToString(l1.MessageHash())[:12]] = n
		}
	}
}

type qKind int

const (
	qSkip      qKind = iota
	qGlobal          // height / head / heads_header
	qBlock           // about block n: header-derived or lookup answers (carve-outs possible below the floor)
	qBlockBody       // about block n: body / lookups that MUST fail below the floor
	qState           // historical state view at block n (root = the key of the view itself)
	qHeadState
)

type question struct {
	kind qKind
	n    uint64
	view string // for qState: key of the view ("state/n5", "state/h0x..")
	// header-derived answer by block number: inside [floor-BlockHashLag, floor) Juno
	// documents it as retained (get_block_hash syscall of the blocks above the floor)
	hdrByNum bool
}

func splitFirst(s string) (head, rest string) {
	if i := strings.IndexByte(s, '/'); i >= 0 {
		return s[:i], s[i+1:]
	}
	return s, ""
}

// classify decodes a key produced by chain.Probe.
func (ix *index) classify(k string) question {
	switch {
	case k == "height" || k == "head" || k == "heads_header":
		return question{kind: qGlobal}
	case k == "l1head":
		return question{kind: qSkip} // crash images may predate the L1-head write; not a pruning matter
	case strings.HasPrefix(k, "state/head"):
		return question{kind: qHeadState}
	case strings.HasPrefix(k, "state/n"):
		id, _ := splitFirst(k[len("state/n"):])
		n, err := strconv.ParseUint(id, 10, 64)
		if err != nil {
			return question{kind: qSkip}
		}
		return question{kind: qState, n: n, view: "state/n" + id}
	case strings.HasPrefix(k, "state/h"):
		id, _ := splitFirst(k[len("state/h"):])
		n, ok := ix.hashNum[id]
		if !ok {
			return question{kind: qSkip}
		}
		return question{kind: qState, n: n, view: "state/h" + id}
	case strings.HasPrefix(k, "events/"):
		return question{kind: qSkip}
	case strings.HasPrefix(k, "h0x"):
		id, sub := splitFirst(k[1:])
		n, ok := ix.hashNum[id]
		if !ok {
			return question{kind: qSkip}
		}
		if sub == "block" || sub == "state_update" {
			return question{kind: qBlockBody, n: n}
		}
		return question{kind: qBlock, n: n} // header / number by hash: carve-out
	case strings.HasPrefix(k, "t0x"):
		id, _ := splitFirst(k[1:])
		n, ok := ix.txNum[id]
		if !ok {
			return question{kind: qSkip}
		}
		return question{kind: qBlockBody, n: n}
	case strings.HasPrefix(k, "m"):
		n, ok := ix.msgNum[k]
		if !ok {
			return question{kind: qSkip}
		}
		return question{kind: qBlockBody, n: n}
	case strings.HasPrefix(k, "n"):
		id, sub := splitFirst(k[1:])
		n, err := strconv.ParseUint(id, 10, 64)
		if err != nil {
			return question{kind: qSkip}
		}
		switch sub {
		case "header", "tx_count", "state_root", "hash":
			return question{kind: qBlock, n: n, hdrByNum: true} // served from the header: block-hash-lag carve-out
		}
		return question{kind: qBlockBody, n: n}
	}
	return question{kind: qSkip}
}

func isErr(a string) bool { return strings.HasPrefix(a, "ERR") }

// judgeCtx says in which situation the pruned node is being compared with its twin.
type judgeCtx struct {
	Name string // live | cancel-live | restarted | crash-image | resumed-after-crash | after-revert ...
	// Crash image of an interrupted prune whose completed run ends at floor Target:
	// damage confined to blocks [floor, Target) is the known partial-prune defect.
	Crash  bool
	Target uint64
	// cancel-live: Juno raises the in-memory floor to the prune target before deleting;
	// after a cancelled prune the live node may refuse state in [reached-1, bound-1)
	// until restart. Refusals there are counted, not judged.
	RefuseStateBelow uint64
	// the interrupted prune was a cancelled one: it also lost the hash->number mapping of Target-1
	HashLostAtTarget bool
	// floors at which a cancelled prune stopped earlier in this scenario
	CancelFloors map[uint64]bool `json:"-"`
	// Collapse, if set: everything found in this check is one witness of this class (the
	// individual classes go into the witness) - for situations that are one defect whatever
	// the probe question that exposes it
	Collapse string
}

func (c judgeCtx) prefix() string {
	switch c.Name {
	case "live":
		return ""
	case "crash-image":
		return "crash-mid-prune:"
	}
	return c.Name + ":"
}

const classCancelHash = "cancel-mid-prune:parent-state-by-hash-lost-at-new-floor"

type findings struct {
	byClass map[string][]string
	counts  map[string]int
	knownN  map[uint64]bool // block numbers hit by the known crash defect
}

func newFindings() *findings {
	return &findings{byClass: map[string][]string{}, counts: map[string]int{}, knownN: map[uint64]bool{}}
}

func (f *findings) add(class, example string) {
	f.counts[class]++
	if len(f.byClass[class]) < 5 {
		f.byClass[class] = append(f.byClass[class], example)
	}
}

const classCrashKnown = "crash-mid-prune:retained-looking-block-damaged"

// judge compares the pruned node's observation oP with the twin's oT given the floor F
// the pruned node itself reports (pruner.OldestRetainedBlock).
//
//	block n >= F                  : every answer equals the twin's
//	state view n >= F-1, head     : every answer equals the twin's
//	block n <  F, body/lookups    : must fail
//	block n <  F, header-derived  : fail, or equal to the twin's (lag window, floor-1 mapping)
//	state view n <  F-1           : refused, or equal to the twin's
func judge(ix *index, c judgeCtx, F uint64, oP, oT chain.Obs, stats map[string]int) *findings {
	fs := newFindings()
	prefix := c.prefix()
	keys := make([]string, 0, len(oP)+8)
	seen := map[string]struct{}{}
	for k := range oP {
		keys = append(keys, k)
		seen[k] = struct{}{}
	}
	for k := range oT {
		if _, ok := seen[k]; !ok {
			keys = append(keys, k)
		}
	}
	sort.Strings(keys)
	refusedReported := map[string]bool{}
	for _, k := range keys {
		q := ix.classify(k)
		p, t := oP[k], oT[k]
		ex := fmt.Sprintf("%s: pruned=%q twin=%q", k, p, t)
		switch q.kind {
		case qSkip:
			continue
		case qGlobal:
			stats["cmp_global"]++
			if p != t {
				fs.add(prefix+"head-differs:"+k, ex)
			}
		case qHeadState:
			stats["cmp_head_state"]++
			if p != t {
				fs.add(prefix+"head-state-differs:"+category(k), ex)
			}
		case qBlock, qBlockBody:
			if q.n >= F {
				stats["cmp_retained_block_answers"]++
				if p == t {
					continue
				}
				if c.Crash && q.n < c.Target {
					fs.add(classCrashKnown, ex)
					fs.knownN[q.n] = true
					continue
				}
				fs.add(prefix+"retained-block-damaged:"+category(k), ex)
				continue
			}
			stats["cmp_below_floor_answers"]++
			if q.hdrByNum && q.n+core.BlockHashLag >= F {
				stats["cmp_lag_window_header_answers"]++
				if p != t {
					fs.add(prefix+"below-floor:block-hash-lag-header-missing:"+category(k), ex+fmt.Sprintf(" (floor %d: headers of [floor-%d, floor) are documented as retained for the get_block_hash syscall)", F, core.BlockHashLag))
				}
				continue
			}
			if isErr(p) {
				stats["below_floor_refused"]++
				continue
			}
			if q.kind == qBlockBody {
				fs.add(prefix+"below-floor:answered-instead-of-pruned:"+category(k), ex)
				continue
			}
			if p != t {
				fs.add(prefix+"below-floor:wrong-or-partial-answer:"+category(k), ex)
				continue
			}
			stats["below_floor_carveout_answers_equal_twin"]++
		case qState:
			refused := isErr(oP[q.view])
			if q.n+1 >= F { // retained view (state at floor-1 upwards)
				stats["cmp_retained_state_answers"]++
				if p == t {
					continue
				}
				byHash := strings.HasPrefix(q.view, "state/h")
				if c.Crash && (q.n+1 < c.Target || (byHash && c.HashLostAtTarget && q.n+1 == c.Target)) {
					fs.add(classCrashKnown, ex)
					fs.knownN[q.n] = true
					continue
				}
				if refused {
					if refusedReported[q.view] {
						continue
					}
					refusedReported[q.view] = true
					if byHash && q.n+1 == F && c.CancelFloors[F] {
						fs.add(classCancelHash, fmt.Sprintf("%s (block %d = floor-1, floor %d): pruned=%q twin answers", q.view, q.n, F, oP[q.view]))
						continue
					}
					if q.n+1 < c.RefuseStateBelow {
						stats["cancel_live_state_refused_between_reached_and_target"]++
						continue
					}
					how := "by-number"
					if strings.HasPrefix(q.view, "state/h") {
						how = "by-hash"
					}
					at := "above-floor"
					if q.n+1 == F {
						at = "at-floor-minus-1"
					}
					fs.add(prefix+"retained-state-refused:"+how+":"+at, fmt.Sprintf("%s (block %d, floor %d): pruned=%q twin answers", q.view, q.n, F, oP[q.view]))
					continue
				}
				fs.add(prefix+"retained-state-wrong:"+category(k), ex)
				continue
			}
			stats["cmp_below_floor_state_answers"]++
			if refused {
				continue
			}
			if p != t {
				fs.add(prefix+"below-floor:state-answered-wrong:"+category(k), ex)
				continue
			}
			stats["below_floor_state_answers_equal_twin"]++
		}
	}
	return fs
}

// eventsFrom runs an unfiltered (or single-address) event query over [from, head].
func eventsFrom(bc *blockchain.Blockchain, from uint64, addrs []felt.Address) string {
	f, err := bc.EventFilter(addrs, nil, nil)
	if err != nil {
		return "ERR:" + err.Error()
	}
	defer f.Close()
	if err := f.SetRangeEndBlockByNumber(blockchain.EventFilterFrom, from); err != nil {
		return "ERR:" + err.Error()
	}
	var all []string
	var tok *blockchain.ContinuationToken
	for page := 0; page < 100000; page++ {
		evs, next, err := f.Events(tok, 40)
		if err != nil {
			return "ERR:" + err.Error()
		}
		for _, e := range evs {
			all = append(all, fmt.Sprintf("%d/%s/%s/%d/%d/%v/%v/%v", e.BlockNumber, e.BlockHash.String(), e.TransactionHash.String(),
				e.TransactionIndex, e.EventIndex, e.From, e.Keys, e.Data))
		}
		if next.IsEmpty() {
			break
		}
		nt := next
		tok = &nt
	}
	s := sha256.Sum256([]byte(strings.Join(all, "\n")))
	return fmt.Sprintf("%d events/%s", len(all), hex.EncodeToString(s[:8]))
}

// eventPages follows continuation tokens from tok (nil: from the start) over [from, head] with
// the given chunk size and returns the events of at most maxPages pages and the token after them.
func eventPages(bc *blockchain.Blockchain, addrs []felt.Address, from uint64, tok *blockchain.ContinuationToken, chunk uint64, maxPages int) (evs []string, next *blockchain.ContinuationToken, err error) {
	f, err := bc.EventFilter(addrs, nil, nil)
	if err != nil {
		return nil, nil, err
	}
	defer f.Close()
	if err := f.SetRangeEndBlockByNumber(blockchain.EventFilterFrom, from); err != nil {
		return nil, nil, err
	}
	for page := 0; page < maxPages; page++ {
		got, nx, err := f.Events(tok, chunk)
		if err != nil {
			return evs, tok, err
		}
		for _, e := range got {
			evs = append(evs, fmt.Sprintf("%d/%s/%s/%d/%d/%v/%v/%v", e.BlockNumber, e.BlockHash.String(), e.TransactionHash.String(),
				e.TransactionIndex, e.EventIndex, e.From, e.Keys, e.Data))
		}
		if nx.IsEmpty() {
			return evs, nil, nil
		}
		nt := nx
		tok = &nt
	}
	return evs, tok, nil
}

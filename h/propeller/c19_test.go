package vpropeller

// C19 - erasure-coded broadcast rebuilds the exact message from any sufficient
// shards; corrupted units are rejected and can neither change the delivered
// message nor crash the receiver.
//
// One r.Cases loop; the case index decides the kind of case (tier-independent):
//   idx%8 in 0..4  unit-level case (create -> subsets -> reconstruct, validator, corruption, wire round trip)
//   idx%8 == 5     reedsolomon sub-package directly
//   idx%8 == 6     merkle sub-package directly
//   idx%8 == 7     padding + hostile wire units
//
// Every call into Juno runs under recover() (safe); a panic is a violation with
// its own class.

import (
	"bytes"
	"fmt"
	"math/rand/v2"
	"testing"

	"github.com/NethermindEth/juno/consensus/propeller"
	"github.com/NethermindEth/juno/consensus/propeller/merkle"
	"github.com/NethermindEth/juno/consensus/propeller/reedsolomon"
	"github.com/NethermindEth/juno/verifh/lib"
	"github.com/libp2p/go-libp2p/core/crypto"
	"github.com/libp2p/go-libp2p/core/peer"
)

// ---------------------------------------------------------------- case generation

type unitCfg struct {
	Mode       string `json:"mode"` // "committee" (d,p from NewScheduler) | "pair" (arbitrary d,p)
	N          int    `json:"committee_size,omitempty"`
	D          int    `json:"data_shards"`
	P          int    `json:"parity_shards"`
	MsgLen     int    `json:"msg_len"`
	Fill       string `json:"msg_fill"`
	Nonce      int64  `json:"nonce"`
	Exhaustive bool   `json:"all_subsets"`
}

func genMsgLen(rng *rand.Rand, d int) int {
	step := 2 * d
	switch rng.IntN(20) {
	case 0:
		return 1024
	case 1:
		return 65536
	case 2: // varint prefix grows from 1 to 2 bytes at 128
		return 124 + rng.IntN(10)
	case 3: // ... and from 2 to 3 bytes at 16384
		return 16380 + rng.IntN(8)
	case 4:
		return rng.IntN(3000)
	case 6, 7, 8: // shards of any length up to ~600 bytes (even lengths: shards are 2-byte aligned)
		return max(0, d*rng.IntN(600)-rng.IntN(4))
	case 5: // boundary of a larger multiple
		k := 5 + rng.IntN(40)
		return max(0, k*step-2+rng.IntN(5))
	default: // 0..4 x (2 x data shards) +- 2
		k := rng.IntN(5)
		return max(0, k*step-2+rng.IntN(5))
	}
}

func genUnitCfg(rng *rand.Rand) unitCfg {
	var c unitCfg
	if rng.IntN(100) < 65 {
		c.Mode = "committee"
		if rng.IntN(2) == 0 {
			c.N = 2 + rng.IntN(12) // 2..13: total shards <= 12
		} else {
			c.N = 2 + rng.IntN(39) // 2..40
		}
		c.D = max(1, (c.N-1)/3)
		c.P = c.N - 1 - c.D
	} else {
		c.Mode = "pair"
		switch rng.IntN(6) {
		case 0:
			c.D, c.P = 1+rng.IntN(64), rng.IntN(65)
		case 1:
			c.D, c.P = 1+rng.IntN(4), rng.IntN(3) // tiny, incl. parity 0
		default:
			c.D, c.P = 1+rng.IntN(8), rng.IntN(9)
		}
	}
	c.MsgLen = genMsgLen(rng, c.D)
	switch rng.IntN(8) {
	case 0:
		c.Fill = "zeros" // trailing zeros must survive unpadding
	case 1:
		c.Fill = "ff"
	default:
		c.Fill = "random"
	}
	if rng.IntN(6) != 0 {
		c.Nonce = 1 + rng.Int64N(1<<62)
	}
	total := c.D + c.P
	c.Exhaustive = total <= 8 || (total <= 12 && rng.IntN(3) == 0)
	return c
}

func genMsg(rng *rand.Rand, n int, fill string) []byte {
	switch fill {
	case "zeros":
		return make([]byte, n)
	case "ff":
		return bytes.Repeat([]byte{0xff}, n)
	}
	return randBytes(rng, n)
}

// ---------------------------------------------------------------- unit helpers

func cloneUnit(u *propeller.Unit) propeller.Unit {
	c := *u
	c.Signature = append(propeller.Signature(nil), u.Signature...)
	c.MerkleProof.Siblings = append([]merkle.Hash(nil), u.MerkleProof.Siblings...)
	c.ShardData = make(propeller.ShardData, len(u.ShardData))
	for i, s := range u.ShardData {
		c.ShardData[i] = append(propeller.Shard(nil), s...)
	}
	return c
}

// leaf bytes of a unit under one of the two leaf encodings seen in the code base:
// "raw" = the shard bytes, "proto" = protobuf ShardsOfPeer (what propeller.proto documents).
func leafOf(enc string, sd propeller.ShardData) []byte {
	if enc == "proto" {
		return sd.MarshalProto()
	}
	if len(sd) > 0 {
		return sd[0]
	}
	return nil
}

type created struct {
	cfg    unitCfg
	priv   crypto.PrivKey
	pubID  peer.ID
	cid    propeller.CommitteeID
	nonce  propeller.Nonce
	msg    []byte
	units  []propeller.Unit // exactly as returned by CreatePropellerUnits
	fixed  []propeller.Unit // copies with Nonce set to the nonce that was signed (publisher-side intent)
	root   propeller.MessageRoot
	pubEnc string // leaf encoding under which the created proofs verify
}

// create runs CreatePropellerUnits and checks everything the publisher promises
// about the result. ok=false: nothing further can be checked for this case.
func create(c *caseCtx, rng *rand.Rand, cfg unitCfg, priv crypto.PrivKey, pubID peer.ID) (cr *created, ok bool) {
	cr = &created{cfg: cfg, priv: priv, pubID: pubID, nonce: propeller.Nonce(cfg.Nonce)}
	copy(cr.cid[:], randBytes(rng, 32))
	cr.msg = genMsg(rng, cfg.MsgLen, cfg.Fill)
	msgCopy := append([]byte(nil), cr.msg...)
	var err error
	if p := safe(func() {
		cr.units, err = propeller.CreatePropellerUnits(priv, &cr.cid, cr.nonce, cr.msg, cfg.D, cfg.P)
	}); p != nil {
		c.viol("create-panic:"+p.kind(), "CreatePropellerUnits panicked: "+p.Value, map[string]any{"panic": p})
		return nil, false
	}
	c.r.Eval(1)
	if err != nil {
		cl := "create-error"
		if cfg.P == 0 {
			cl = "create-error:parity-0"
		}
		c.viol(cl, fmt.Sprintf("CreatePropellerUnits(d=%d,p=%d,len=%d) returned error %v", cfg.D, cfg.P, cfg.MsgLen, err), map[string]any{"error": err.Error()})
		return nil, false
	}
	if !bytes.Equal(msgCopy, cr.msg) {
		c.viol("create-mutates-message", "CreatePropellerUnits modified the caller's message buffer", nil)
		cr.msg = msgCopy
	}
	total := cfg.D + cfg.P
	if len(cr.units) != total {
		c.viol("created-units-count", fmt.Sprintf("got %d units, want %d", len(cr.units), total), nil)
		return nil, false
	}
	cr.root = cr.units[0].MessageRoot
	pubKey := priv.GetPublic()
	// signature over (root, committee, nonce argument)
	var sigErr error
	if p := safe(func() {
		sigErr = propeller.VerifyMessageSignature(pubKey, &cr.root, &cr.cid, cr.nonce, cr.units[0].Signature)
	}); p != nil {
		c.viol("verify-signature-panic:"+p.kind(), "VerifyMessageSignature panicked: "+p.Value, map[string]any{"panic": p})
		return nil, false
	}
	c.r.Eval(1)
	sigOK := sigErr == nil
	if !sigOK {
		c.viol("created-unit-signature-invalid",
			fmt.Sprintf("signature of created units does not verify over (root, committee, nonce argument): %v", sigErr), nil)
	}
	shardLen := -1
	rawAll, protoAll := true, true
	for i := range cr.units {
		u := &cr.units[i]
		bad := ""
		switch {
		case int(u.ShardIndex) != i:
			bad = "shard-index"
		case u.Publisher != pubID:
			bad = "publisher"
		case u.CommitteeID != cr.cid:
			bad = "committee"
		case u.MessageRoot != cr.root:
			bad = "root-differs-between-units"
		case !bytes.Equal(u.Signature, cr.units[0].Signature):
			bad = "signature-differs-between-units"
		case len(u.ShardData) != 1:
			bad = "shard-count"
		}
		if bad != "" {
			c.viol("created-unit-field-wrong:"+bad, fmt.Sprintf("unit %d: field %s not as the publisher was asked", i, bad),
				map[string]any{"unit": i})
			return nil, false
		}
		if shardLen == -1 {
			shardLen = len(u.ShardData[0])
		} else if len(u.ShardData[0]) != shardLen {
			c.viol("created-unit-field-wrong:shard-length", fmt.Sprintf("unit %d has shard length %d, unit 0 has %d", i, len(u.ShardData[0]), shardLen), nil)
			return nil, false
		}
		if u.Nonce != cr.nonce && sigOK {
			cl := "created-unit-nonce-wrong"
			if u.Nonce == 0 {
				// the signature covers the nonce argument but the unit does not carry it
				cl = "created-unit-nonce-not-set"
			}
			c.viol(cl, fmt.Sprintf("CreatePropellerUnits(nonce=%d): unit %d has Nonce=%d although its signature verifies only with nonce %d",
				cr.nonce, i, u.Nonce, cr.nonce), map[string]any{"unit": i, "unit_nonce": int64(u.Nonce)})
		}
		// proof against the signed root, both leaf encodings
		h := merkle.Hash(cr.root)
		var rawOK, protoOK bool
		if p := safe(func() {
			rawOK = u.MerkleProof.Verify(&h, leafOf("raw", u.ShardData), uint32(u.ShardIndex))
			protoOK = u.MerkleProof.Verify(&h, leafOf("proto", u.ShardData), uint32(u.ShardIndex))
		}); p != nil {
			c.viol("merkle-verify-panic:"+p.kind(), "Proof.Verify panicked on a created unit: "+p.Value, map[string]any{"panic": p})
			return nil, false
		}
		c.r.Eval(2)
		c.r.Count("created_unit_proofs_checked", 1)
		rawAll = rawAll && rawOK
		protoAll = protoAll && protoOK
		if !rawOK && !protoOK {
			c.viol("created-unit-proof-not-verifying",
				fmt.Sprintf("unit %d of %d: Merkle proof verifies against the signed root neither with the raw shard nor with the proto-marshalled shard as leaf", i, total),
				map[string]any{"unit": i, "proof_len": len(u.MerkleProof.Siblings)})
		}
	}
	switch {
	case rawAll:
		cr.pubEnc = "raw"
	case protoAll:
		cr.pubEnc = "proto"
	default:
		return nil, false // reported above (or mixed encodings, equally reported per unit)
	}
	c.r.Count("publisher_leaf_encoding/"+cr.pubEnc, 1)
	cr.fixed = make([]propeller.Unit, total)
	for i := range cr.units {
		cr.fixed[i] = cloneUnit(&cr.units[i])
		cr.fixed[i].Nonce = cr.nonce
	}
	return cr, true
}

// ---------------------------------------------------------------- reconstruction

type reconOut struct {
	msg   []byte
	shard propeller.ShardData
	proof merkle.Proof
	err   error
	pan   *panicInfo
}

func callConstruct(units []*propeller.Unit, local, d, p int) (o reconOut) {
	o.pan = safe(func() {
		o.msg, o.shard, o.proof, o.err = propeller.ConstructMessageFromUnits(units, propeller.ShardIndex(local), d, p)
	})
	return o
}

func subsetPtrs(src []propeller.Unit, present []bool) []*propeller.Unit {
	ptrs := make([]*propeller.Unit, len(src))
	for i := range src {
		if present[i] {
			u := cloneUnit(&src[i])
			ptrs[i] = &u
		}
	}
	return ptrs
}

func missingShape(present []bool, d int) string {
	dataMissing, parMissing := 0, 0
	for i, p := range present {
		if !p {
			if i < d {
				dataMissing++
			} else {
				parMissing++
			}
		}
	}
	switch {
	case dataMissing == 0 && parMissing == 0:
		return "none-missing"
	case dataMissing == d:
		return "all-data-missing"
	case dataMissing == 0 && parMissing == len(present)-d:
		return "all-parity-missing"
	case dataMissing == 0:
		return "only-parity-missing"
	case parMissing == 0:
		return "only-data-missing"
	}
	return "mixed-missing"
}

// primitiveReconstruct re-does the receiver's job with the exported building
// blocks (reedsolomon.RecoverData -> join -> UnpadMessage, merkle.New root ==
// signed root). Used when ConstructMessageFromUnits itself fell over on a known
// defect, so that "any sufficient subset reconstructs" is still observed for that
// subset at the level below.
func primitiveReconstruct(c *caseCtx, cr *created, present []bool, tag string) {
	d, p := cr.cfg.D, cr.cfg.P
	shards := make([][]byte, len(present))
	for i := range present {
		if present[i] {
			shards[i] = append([]byte(nil), cr.units[i].ShardData[0]...)
		}
	}
	var rec [][]byte
	var err error
	if pn := safe(func() { rec, err = reedsolomon.RecoverData(shards, d, p) }); pn != nil {
		c.viol("rs-recover-panic:"+pn.kind(), "reedsolomon.RecoverData panicked: "+pn.Value, map[string]any{"present": presentString(present), "panic": pn})
		return
	}
	c.r.Eval(1)
	c.r.Count("primitive_level_reconstructions(fallback while ConstructMessageFromUnits panics)", 1)
	if err != nil {
		c.viol("primitive-reconstruct-error", fmt.Sprintf("[%s] RecoverData with %d/%d shards present (need %d): %v", tag, countTrue(present), len(present), d, err),
			map[string]any{"present": presentString(present)})
		return
	}
	var joined []byte
	for _, s := range rec {
		joined = append(joined, s...)
	}
	var got []byte
	if pn := safe(func() { got, err = propeller.UnpadMessage(joined) }); pn != nil {
		c.viol("unpad-panic:"+pn.kind(), "UnpadMessage panicked: "+pn.Value, map[string]any{"panic": pn})
		return
	}
	if err != nil || !bytes.Equal(got, cr.msg) {
		c.viol("primitive-reconstruct-wrong-bytes", fmt.Sprintf("[%s] RecoverData+UnpadMessage gives %s (err %v), original %s", tag, hexShort(got), err, hexShort(cr.msg)),
			map[string]any{"present": presentString(present)})
	}
	if cr.pubEnc == "raw" {
		var root merkle.Hash
		if pn := safe(func() { root, _ = merkle.New(rec) }); pn != nil {
			c.viol("merkle-new-panic:"+pn.kind(), "merkle.New panicked: "+pn.Value, map[string]any{"panic": pn})
			return
		}
		if propeller.MessageRoot(root) != cr.root {
			c.viol("primitive-reconstruct-root-mismatch", fmt.Sprintf("[%s] Merkle root of the recovered shards differs from the signed root", tag),
				map[string]any{"present": presentString(present)})
		}
	}
}

// checkReconstruct: one subset of the created (uncorrupted) units.
func checkReconstruct(c *caseCtx, cr *created, present []bool, local int, tag string) {
	d, p := cr.cfg.D, cr.cfg.P
	k := countTrue(present)
	ptrs := subsetPtrs(cr.units, present)
	o := callConstruct(ptrs, local, d, p)
	c.r.Eval(1)
	c.r.Count("reconstructions", 1)
	w := func() map[string]any {
		m := map[string]any{"present": presentString(present), "present_count": k, "threshold": d, "local_shard": local, "subset_kind": tag}
		if o.pan != nil {
			m["panic"] = o.pan
		}
		if o.err != nil {
			m["error"] = o.err.Error()
		}
		return m
	}
	if k < d {
		c.r.Count("reconstructions_below_threshold", 1)
		switch {
		case o.pan != nil:
			c.viol("reconstruct-panic:below-threshold:"+o.pan.kind(),
				fmt.Sprintf("ConstructMessageFromUnits panicked with %d of %d shards (threshold %d): %s", k, len(present), d, o.pan.Value), w())
		case o.err == nil && !bytes.Equal(o.msg, cr.msg):
			c.viol("reconstruct-wrong-bytes:below-threshold",
				fmt.Sprintf("with %d shards (< threshold %d) a message was delivered without error and it differs from the original", k, d), w())
		}
		return
	}
	shape := missingShape(present, d)
	c.r.Count("reconstructions_sufficient/"+shape, 1)
	if !present[0] {
		c.r.Count("reconstructions_sufficient_with_shard0_missing", 1)
	}
	if o.pan != nil {
		if !present[0] && o.pan.nilDeref() {
			c.viol("reconstruct-panic:shard0-missing",
				fmt.Sprintf("ConstructMessageFromUnits(d=%d,p=%d) with shard 0 absent and %d of %d shards present (threshold %d) panics: %s",
					d, p, k, len(present), d, o.pan.Value), w())
			primitiveReconstruct(c, cr, present, tag)
			return
		}
		c.viol("reconstruct-panic:"+o.pan.kind(),
			fmt.Sprintf("ConstructMessageFromUnits(d=%d,p=%d) panics with %d of %d shards present (shard 0 present=%v, %s): %s",
				d, p, k, len(present), present[0], shape, o.pan.Value), w())
		return
	}
	if o.err != nil {
		c.viol("reconstruct-error:sufficient-valid-shards",
			fmt.Sprintf("ConstructMessageFromUnits(d=%d,p=%d) fails with %d of %d valid shards present (threshold %d, %s): %v", d, p, k, len(present), d, shape, o.err), w())
		return
	}
	if !bytes.Equal(o.msg, cr.msg) {
		m := w()
		m["got"] = hexShort(o.msg)
		m["want"] = hexShort(cr.msg)
		c.viol("reconstruct-wrong-bytes",
			fmt.Sprintf("message rebuilt from %d of %d shards (%s) differs from the original: got %d bytes, want %d", k, len(present), shape, len(o.msg), len(cr.msg)), m)
		return
	}
	c.r.Count("reconstructions_exact", 1)
	// the receiver's own shard + proof (what it will forward)
	if len(o.shard) != 1 || !bytes.Equal(o.shard[0], cr.units[local].ShardData[0]) {
		c.viol("reconstruct-local-shard-wrong", fmt.Sprintf("local shard %d returned by ConstructMessageFromUnits differs from the publisher's shard", local), w())
		return
	}
	h := merkle.Hash(cr.root)
	okp := false
	if pn := safe(func() { okp = o.proof.Verify(&h, leafOf(cr.pubEnc, o.shard), uint32(local)) }); pn != nil {
		c.viol("merkle-verify-panic:"+pn.kind(), "Proof.Verify panicked on the local proof: "+pn.Value, w())
		return
	}
	if !okp {
		c.viol("reconstruct-local-proof-not-verifying",
			fmt.Sprintf("local proof for shard %d returned by ConstructMessageFromUnits does not verify against the signed root (leaf encoding %s)", local, cr.pubEnc), w())
	}
}

func reconstructions(c *caseCtx, rng *rand.Rand, cr *created) {
	d, p := cr.cfg.D, cr.cfg.P
	total := d + p
	if cr.cfg.Exhaustive {
		c.r.Count("cases_with_all_subsets", 1)
		for mask := uint64(0); mask < 1<<uint(total); mask++ {
			checkReconstruct(c, cr, maskToPresent(mask, total), rng.IntN(total), "exhaustive")
		}
		return
	}
	c.r.Count("cases_with_sampled_subsets", 1)
	all := func(v bool) []bool {
		b := make([]bool, total)
		for i := range b {
			b[i] = v
		}
		return b
	}
	// structured subsets
	checkReconstruct(c, cr, all(true), rng.IntN(total), "all-present")
	s := all(true)
	s[0] = false
	if total-1 >= d {
		checkReconstruct(c, cr, s, rng.IntN(total), "only-shard0-missing")
	}
	s = all(false)
	for i := 0; i < d; i++ {
		s[i] = true
	}
	checkReconstruct(c, cr, s, rng.IntN(total), "data-shards-only")
	if p >= d {
		s = all(false)
		for i := d; i < 2*d; i++ {
			s[i] = true
		}
		checkReconstruct(c, cr, s, rng.IntN(total), "first-d-parity-shards-only")
		s = all(false)
		for i := total - d; i < total; i++ {
			s[i] = true
		}
		checkReconstruct(c, cr, s, rng.IntN(total), "last-d-shards-only")
	}
	// random subsets: mostly exactly at the threshold, some around it
	for i := 0; i < 48; i++ {
		var k int
		switch {
		case i < 24:
			k = d
		case i < 32:
			k = min(total, d+1)
		case i < 38:
			k = d - 1
		case i < 40:
			k = total - 1
		default:
			k = rng.IntN(total + 1)
		}
		if k < 0 || k > total {
			continue
		}
		checkReconstruct(c, cr, randPresent(rng, total, k), rng.IntN(total), fmt.Sprintf("random-%d-of-%d", k, total))
	}
}

// corruptedInSet: the set handed to ConstructMessageFromUnits contains exactly one
// unit that was altered after creation and was NOT validated. Outcome must be an
// error or the true message; never a different message, never a panic.
func corruptedInSet(c *caseCtx, rng *rand.Rand, cr *created) {
	d, p := cr.cfg.D, cr.cfg.P
	total := d + p
	for trial := 0; trial < 14; trial++ {
		// present set: size d (corruption undetectable by Reed-Solomon alone), d+1 or more
		k := d
		switch trial % 3 {
		case 1:
			k = min(total, d+1)
		case 2:
			k = d + rng.IntN(total-d+1)
		}
		present := randPresent(rng, total, k)
		if trial%2 == 0 && !present[0] { // half of the sets keep shard 0 (meaningful while the shard-0 defect is open)
			for i := range present {
				if present[i] {
					present[i], present[0] = false, true
					break
				}
			}
		}
		var idxs []int
		for i, b := range present {
			if b {
				idxs = append(idxs, i)
			}
		}
		victim := idxs[rng.IntN(len(idxs))]
		if trial%5 == 0 {
			victim = idxs[0]
		}
		ptrs := subsetPtrs(cr.units, present)
		v := ptrs[victim]
		kind := ""
		switch kk := rng.IntN(7); {
		case kk <= 2 && len(v.ShardData[0]) > 0:
			kind = "shard-bit-flip"
			pos := rng.IntN(len(v.ShardData[0]))
			if rng.IntN(3) == 0 { // one of the last bytes
				pos = len(v.ShardData[0]) - 1 - rng.IntN(min(8, len(v.ShardData[0])))
			}
			v.ShardData[0][pos] ^= 1 << uint(rng.IntN(8))
		case kk == 3 && len(v.ShardData[0]) > 1:
			kind = "shard-truncated"
			v.ShardData[0] = v.ShardData[0][:len(v.ShardData[0])-1]
		case kk == 4:
			kind = "shard-extended"
			v.ShardData[0] = append(v.ShardData[0], byte(rng.Uint32()))
		case kk == 5:
			kind = "shard-replaced-by-other-shard"
			other := (victim + 1 + rng.IntN(max(1, total-1))) % total
			if other == victim || bytes.Equal(cr.units[other].ShardData[0], cr.units[victim].ShardData[0]) {
				kind = "shard-bit-flip"
				v.ShardData[0][0] ^= 0x80
			} else {
				v.ShardData[0] = append(propeller.Shard(nil), cr.units[other].ShardData[0]...)
			}
		default:
			kind = "root-bit-flip"
			v.MessageRoot[rng.IntN(32)] ^= 1 << uint(rng.IntN(8))
		}
		local := rng.IntN(total)
		o := callConstruct(ptrs, local, d, p)
		c.r.Eval(1)
		c.r.Count("reconstructions_with_one_unvalidated_corrupted_unit", 1)
		c.r.Count("corrupted_in_set/"+kind, 1)
		w := map[string]any{"present": presentString(present), "present_count": k, "threshold": d, "corrupted_unit": victim, "corruption": kind, "local_shard": local}
		switch {
		case o.pan != nil && !present[0] && o.pan.nilDeref():
			c.viol("reconstruct-panic:shard0-missing", "ConstructMessageFromUnits panics with shard 0 absent: "+o.pan.Value, w)
		case o.pan != nil:
			w["panic"] = o.pan
			c.viol("reconstruct-panic:corrupted-unit-in-set:"+kind+":"+o.pan.kind(),
				fmt.Sprintf("ConstructMessageFromUnits panics on a set with one %s unit: %s", kind, o.pan.Value), w)
		case o.err != nil:
			c.r.Count("corrupted_in_set_outcome/error", 1)
		case bytes.Equal(o.msg, cr.msg):
			c.r.Count("corrupted_in_set_outcome/true-message", 1)
		default:
			w["got"] = hexShort(o.msg)
			w["want"] = hexShort(cr.msg)
			c.viol("reconstruct-wrong-bytes:corrupted-unit-in-set:"+kind,
				fmt.Sprintf("a set with one %s unit (unit %d, %d of %d present) made ConstructMessageFromUnits deliver a different message without error", kind, victim, k, total), w)
		}
	}
}

// ---------------------------------------------------------------- one unit-level case

func unitCase(r *lib.Run, idx int) {
	rng := lib.Rng("C19/unit", uint64(idx))
	cfg := genUnitCfg(rng)
	c := newCase(r, idx, map[string]any{"kind": "unit", "cfg": cfg})
	r.Count("unit_cases", 1)
	r.Count("unit_cases/"+cfg.Mode, 1)

	// committee (publisher is a random member); in pair mode just a publisher key
	var privs []crypto.PrivKey
	var ids []peer.ID
	n := cfg.N
	if cfg.Mode == "pair" {
		n = 1
	}
	for i := 0; i < n; i++ {
		p, id := genKey(rng)
		privs = append(privs, p)
		ids = append(ids, id)
	}
	pubI := rng.IntN(n)
	cr, ok := create(c, rng, cfg, privs[pubI], ids[pubI])
	if !ok {
		return
	}
	total := cfg.D + cfg.P
	r.Case(fmt.Sprintf("unit/%s/d%d/p%d/len%d/%s/x%v", cfg.Mode, cfg.D, cfg.P, cfg.MsgLen, cfg.Fill, cfg.Exhaustive))
	if pad := len(refPad(cr.msg, cfg.D)); pad == len(cr.msg)+1 || pad == len(cr.msg)+2 || pad == len(cr.msg)+3 {
		r.Count("messages_filling_padding_exactly(no zero padding)", 1)
	}
	if cfg.MsgLen == 0 {
		r.Count("empty_messages", 1)
	}
	if cfg.P == 0 {
		r.Count("configs_with_parity_0", 1)
	}

	reconstructions(c, rng, cr)
	corruptedInSet(c, rng, cr)
	wireRoundTrip(c, cr)
	if cfg.Mode == "committee" {
		validatorChecks(c, rng, cr, ids, pubI)
	}
	if idx < 16 {
		r.Sample(map[string]any{"case": idx, "cfg": cfg, "units": total, "shard_len": len(cr.units[0].ShardData[0]),
			"proof_len": len(cr.units[0].MerkleProof.Siblings), "publisher_leaf_encoding": cr.pubEnc,
			"root": fmt.Sprintf("%x", cr.root[:])})
	}
}

// ---------------------------------------------------------------- entry point

func TestC19(t *testing.T) {
	r := lib.Start("C19", "exploration")
	n := r.N(1200, 30000)
	r.Cases(n, 0, func(idx int) {
		switch idx % 8 {
		case 5:
			rsCase(r, idx)
		case 6:
			merkleCase(r, idx)
		case 7:
			paddingAndWireCase(r, idx)
		default:
			unitCase(r, idx)
		}
	})
	r.Assume("klauspost/reedsolomon (Galois-field arithmetic), crypto/sha256, Ed25519 (libp2p crypto) and the protobuf runtime are trusted")
	r.Assume("the tag strings of the reference Merkle tree are copied from the package documentation of consensus/propeller/merkle; conformance with the Rust implementation's wire format is not observable here")
	r.Assume("UnitValidator is driven the way Processor drives it: one validator per (committee, publisher, root, nonce), created only if Scheduler.ShardIndexForPublisher accepts the claimed publisher")
	r.Assume("the goroutine/channel plumbing of Processor/Engine (unexported, not wired up in this snapshot: nil logger, nil event channel) is not exercised")
	r.Finish("unit cases: random (committee size 2..40 -> NewScheduler's (data,parity)) or arbitrary (data<=64, parity<=64 incl. 0) configuration, message length at 0..4 x 2*data +-2, "+
		"varint boundaries 128/16384, 1 KiB, 64 KiB, zero/0xff/random content; CreatePropellerUnits -> every unit's fields, signature over (root, committee, nonce), nonce carried, "+
		"Merkle proof against the signed root (raw and proto leaf) -> ConstructMessageFromUnits on ALL subsets when total shards <= 8 (and a third of 9..12), otherwise 50+ structured/random subsets "+
		"(at threshold, +-1, shard 0 missing, data only, parity only): >= threshold must give the exact bytes + own shard + verifying own proof, < threshold must not deliver other bytes, nothing may panic; "+
		"sets with one unvalidated corrupted unit must error or give the true message; wire round trip ToProto/UnitFromProto exact; committee cases: every created unit must pass UnitValidator.Validate from its "+
		"legitimate sender, 30 single-field (and transplant) corruptions must not be accepted by Validate, duplicates must be refused, a rejected unit must not block the true one "+
		"(judged on the created units when the validator accepts them, otherwise on units the harness assembles from PadMessage/EncodeData/merkle.New/SignMessage with the validator's leaf encoding; "+
		"the per-stage primitives Scheduler.ValidateShardOrigin (vs an independent sorted-committee schedule) / Proof.Verify / VerifyMessageSignature are judged unconditionally); "+
		"sub-packages: reedsolomon encode/recover over every subset (+ one altered shard), "+
		"merkle root/proofs vs an independent recursive definition + tampering, padding vs definition, hostile wire units through UnitFromProto. distinct = distinct (kind, configuration, length) tuples", map[bool]int{false: 150, true: 40}[r.Race])
}

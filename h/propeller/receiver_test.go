package vpropeller

// Receiver state machine of C19 (consensus/propeller/processor.go): the real subprocessor
// - collect units, validate each, rebuild the message at the build threshold, relay the
// local shard - and the real Processor routing are driven with arrival sequences of
// genuine, duplicated and corrupted units. The unexported pieces are reached through an
// export file the check's build adds to package propeller (h/propeller/inject).
//
// Oracle: a sequential model of "valid units are counted once, everything else is reported
// invalid and ignored; a message is built exactly when `data shards` valid units have been
// counted" predicts for every sequence whether the stage ends with the message, with the
// documented first-unit abort, or starved. The real stage must never panic, must deliver
// exactly the original bytes whenever it delivers, must relay exactly the genuine local
// unit (once, to every member but the publisher and itself), and must report every rejected
// unit with its sender.

import (
	"bytes"
	"context"
	"fmt"
	"reflect"
	"runtime"
	"sort"
	"sync/atomic"
	"time"

	"github.com/NethermindEth/juno/consensus/propeller"
	"github.com/libp2p/go-libp2p/core/peer"
)

type rxDelivery struct {
	Kind   string `json:"kind"` // genuine | duplicate | wrong-sender | corrupt:<name>
	Index  int    `json:"shard_index_of_the_genuine_unit_it_was_made_from"`
	unit   propeller.Unit
	sender peer.ID
	valid  bool // what the model says at generation time: a genuine unit from its legitimate sender
}

func sameKey(a, b *propeller.Unit) bool {
	return a.CommitteeID == b.CommitteeID && a.Publisher == b.Publisher && a.MessageRoot == b.MessageRoot && a.Nonce == b.Nonce
}

// rxCorrupt returns a corrupted copy of genuine unit i that keeps the message key (so that
// Processor routing hands it to the same subprocessor), or ok=false.
func rxCorrupt(env *corruptEnv, i int, keepKey bool) (d rxDelivery, ok bool) {
	for try := 0; try < 12; try++ {
		co := corruptions[env.rng.IntN(len(corruptions))]
		u := cloneUnit(&env.cr.fixed[i])
		sender := env.ref.legitSender(env.local, env.publisher, uint32(i))
		if !co.apply(env, &u, &sender) {
			continue
		}
		if sameKey(&u, &env.cr.fixed[i]) != keepKey {
			continue
		}
		return rxDelivery{Kind: "corrupt:" + co.name, Index: i, unit: u, sender: sender}, true
	}
	return d, false
}

func rxGenuine(env *corruptEnv, i int) rxDelivery {
	return rxDelivery{Kind: "genuine", Index: i, unit: cloneUnit(&env.cr.fixed[i]),
		sender: env.ref.legitSender(env.local, env.publisher, uint32(i)), valid: true}
}

func localShard(env *corruptEnv) int {
	for i := 0; i < env.total; i++ {
		if b, _ := env.ref.broadcaster(env.publisher, uint32(i)); b == env.local {
			return i
		}
	}
	return -1
}

// rxPlan builds one arrival sequence. shape selects the family.
func rxPlan(env *corruptEnv, shape int, d int) (plan []rxDelivery, name string) {
	rng, total := env.rng, env.total
	ls := localShard(env)
	perm := rng.Perm(total)
	without := func(xs []int, drop ...int) []int {
		var out []int
		for _, x := range xs {
			keep := true
			for _, y := range drop {
				keep = keep && x != y
			}
			if keep {
				out = append(out, x)
			}
		}
		return out
	}
	addG := func(is []int) {
		for _, i := range is {
			plan = append(plan, rxGenuine(env, i))
		}
	}
	switch shape {
	case 0:
		name = "threshold-reached-without-shard-0-and-without-the-local-shard"
		rest := without(perm, 0, ls)
		if len(rest) < d {
			rest = without(perm, ls)
			name = "threshold-reached-without-the-local-shard"
		}
		if len(rest) < d {
			rest = perm
			name = "all-units"
		}
		addG(rest[:min(d, len(rest))])
	case 1:
		name = "local-shard-first"
		addG(append([]int{ls}, without(perm, ls)...))
	case 2:
		name = "local-shard-last-needed"
		rest := without(perm, ls)
		k := min(d-1, len(rest))
		addG(append(append([]int{}, rest[:k]...), ls))
		addG(rest[k:])
	case 3:
		name = "corrupted-units-interleaved(not first)"
		addG(perm)
		for n := 1 + rng.IntN(4); n > 0; n-- {
			if cd, ok := rxCorrupt(env, rng.IntN(total), true); ok {
				at := 1 + rng.IntN(len(plan))
				plan = append(plan[:at], append([]rxDelivery{cd}, plan[at:]...)...)
			}
		}
	case 4:
		name = "corrupted-unit-first"
		if cd, ok := rxCorrupt(env, rng.IntN(total), true); ok {
			plan = append(plan, cd)
		}
		addG(perm)
	case 5:
		name = "duplicates-and-wrong-senders-interleaved"
		addG(perm)
		for n := 2 + rng.IntN(4); n > 0; n-- {
			at := 1 + rng.IntN(len(plan))
			src := plan[rng.IntN(at)]
			if !src.valid {
				continue
			}
			dup := rxDelivery{Kind: "duplicate", Index: src.Index, unit: cloneUnit(&src.unit), sender: src.sender}
			if rng.IntN(2) == 0 {
				if m, ok := otherMember(env, src.sender, env.local); ok {
					dup.Kind, dup.sender = "wrong-sender", m
				}
			}
			plan = append(plan[:at], append([]rxDelivery{dup}, plan[at:]...)...)
		}
	default:
		name = "starved(fewer valid units than the threshold)"
		k := rng.IntN(d) // 0..d-1 valid units
		addG(perm[:k])
		for n := rng.IntN(3); n > 0 && len(plan) > 0; n-- {
			if cd, ok := rxCorrupt(env, rng.IntN(total), true); ok {
				at := 1 + rng.IntN(len(plan))
				plan = append(plan[:at], append([]rxDelivery{cd}, plan[at:]...)...)
			}
		}
	}
	return plan, name
}

type rxOutcome struct {
	count int
	msg   []byte
	err   error
	pan   *panicInfo
}

const rxWatchdog = 30 * time.Second // normal: well under a millisecond

// a report that never comes costs one watchdog period: after the first such witness the
// routing trials of the remaining cases are skipped (counted)
var routingSilenceSeen atomic.Bool

func receiverTrial(c *caseCtx, env *corruptEnv, sch *propeller.Scheduler, shape int) {
	r, cr := c.r, env.cr
	d := sch.NumDataShards()
	plan, name := rxPlan(env, shape, d)
	ls := localShard(env)
	r.Count("receiver_trials", 1)
	r.Count("receiver_trials/"+name, 1)

	// ---- model
	accepted := map[int]bool{}
	nAcc, wantInvalid := 0, []peer.ID{}
	outcome := "starved"
	consumed := 0
	for _, dl := range plan {
		consumed++
		if dl.valid && !accepted[dl.Index] {
			accepted[dl.Index] = true
			nAcc++
			if nAcc == d {
				outcome = "built"
				break
			}
			continue
		}
		wantInvalid = append(wantInvalid, dl.sender)
		if nAcc == 0 {
			outcome = "aborted-on-invalid-first-unit"
			break
		}
	}
	r.Count("receiver_model_outcomes/"+outcome, 1)

	var rx *propeller.VerifReceiver
	var err error
	if p := safe(func() { rx, err = propeller.VerifNewReceiver(env.publisher, sch, env.local) }); p != nil || err != nil {
		c.viol("receiver:cannot-create-subprocessor", fmt.Sprintf("err=%v panic=%v", err, p), nil)
		return
	}
	if int(rx.LocalShardIndex()) != ls {
		c.viol("receiver:local-shard-index-differs-from-schedule-definition",
			fmt.Sprintf("ShardIndexForPublisher says %d, sorted-committee definition %d", rx.LocalShardIndex(), ls), nil)
		return
	}

	ctx, cancel := context.WithCancel(context.Background())
	defer cancel()
	done := make(chan rxOutcome, 1)
	stop := make(chan struct{})
	go func() {
		var o rxOutcome
		o.pan = safe(func() { o.count, o.msg, o.err = rx.Build(ctx) })
		close(stop)
		done <- o
	}()
	offered := 0
	for i := range plan {
		u := cloneUnit(&plan[i].unit)
		if !rx.Offer(stop, &u, plan[i].sender) {
			break
		}
		offered++
	}
	if offered == len(plan) {
		// everything was taken: a stage that still waits would wait for ever - end it the way
		// the stale-message timeout does (after the last unit has been taken the stage either
		// finishes on its own or looks at the context next: no race)
		select {
		case <-stop:
		default:
			// let the subprocessor finish handling the unit it just took before the context ends
			// only matters for the outcome "built": give it the chance to complete first
			if outcome == "built" || outcome == "aborted-on-invalid-first-unit" {
				select {
				case <-stop:
				case <-time.After(rxWatchdog):
				}
			}
			cancel()
		}
	}
	var o rxOutcome
	select {
	case o = <-done:
	case <-time.After(rxWatchdog):
		buf := make([]byte, 1<<16)
		buf = buf[:runtime.Stack(buf, true)]
		c.viol("receiver:stuck:"+name, fmt.Sprintf("the build stage neither returned nor took the next unit within %v (model outcome %s, %d of %d units taken)", rxWatchdog, outcome, offered, len(plan)),
			map[string]any{"plan": plan, "goroutines": string(buf[:min(len(buf), 6000)])})
		return
	}
	r.Eval(1)
	w := map[string]any{"shape": name, "plan": plan, "data_shards": d, "total_shards": env.total, "local_shard": ls, "committee_size": len(env.members),
		"model_outcome": outcome, "units_taken": offered, "model_units_consumed": consumed, "returned_count": o.count, "returned_error": fmt.Sprint(o.err), "returned_message_len": len(o.msg)}
	if o.pan != nil {
		w["panic"] = o.pan
		missing0 := !accepted[0]
		c.viol(fmt.Sprintf("receiver:panic:%s:shard0-among-counted-units=%v:local-shard-among-counted-units=%v", o.pan.kind(), !missing0, accepted[ls]),
			"the receiver's build stage panicked: "+o.pan.Value, w)
		return
	}
	inv := rx.DrainInvalid()
	bcs, otherEv := rx.DrainBroadcasts()
	w["invalid_reports"], w["broadcasts"] = len(inv), len(bcs)

	// ---- delivered bytes
	switch outcome {
	case "built":
		if o.err != nil {
			c.viol("receiver:message-not-built-from-sufficient-valid-units:"+name, fmt.Sprintf("%d distinct valid units (threshold %d) were taken but the stage ended with: %v", nAcc, d, o.err), w)
			return
		}
		if !bytes.Equal(o.msg, cr.msg) {
			c.viol("receiver:built-message-differs-from-original:"+name, fmt.Sprintf("rebuilt %d bytes, original %d bytes", len(o.msg), len(cr.msg)), w)
			return
		}
		want := d
		if !accepted[ls] {
			want++
		}
		if o.count != want {
			c.viol("receiver:unit-count-after-build", fmt.Sprintf("stage reports %d units held, expected %d (threshold %d, own shard rebuilt=%v)", o.count, want, d, !accepted[ls]), w)
		}
		r.Count("receiver_messages_rebuilt_exactly", 1)
		if !accepted[0] {
			r.Count("receiver_messages_rebuilt_without_shard_0", 1)
		}
		if !accepted[ls] {
			r.Count("receiver_messages_rebuilt_without_the_local_shard(local unit re-derived)", 1)
		}
	default:
		if o.err == nil {
			if bytes.Equal(o.msg, cr.msg) {
				c.viol("receiver:message-built-though-model-says-"+outcome, fmt.Sprintf("the stage delivered the message after %d valid units (threshold %d)", nAcc, d), w)
			} else {
				c.viol("receiver:delivered-different-bytes:"+name, fmt.Sprintf("the stage delivered %d bytes that are not the message (model outcome %s)", len(o.msg), outcome), w)
			}
			return
		}
		r.Count("receiver_stage_ended_without_message/"+outcome, 1)
	}

	// ---- relay of the local shard
	wantB := 0
	if accepted[ls] || outcome == "built" {
		wantB = 1
	}
	if otherEv != 0 {
		c.viol("receiver:unexpected-event", fmt.Sprintf("%d events other than a unit broadcast", otherEv), w)
	}
	if len(bcs) != wantB {
		c.viol(fmt.Sprintf("receiver:local-shard-relayed-%d-times-instead-of-%d:%s", len(bcs), wantB, outcome), "the local unit must be relayed exactly once, as soon as it is held (received or re-derived)", w)
	} else if wantB == 1 {
		b := bcs[0]
		g := &cr.fixed[ls]
		if b.Unit == nil || !reflect.DeepEqual(normUnit(b.Unit), normUnit(g)) {
			w["relayed"], w["genuine"] = fmt.Sprintf("%+v", b.Unit), fmt.Sprintf("%+v", *g)
			c.viol(fmt.Sprintf("receiver:relayed-unit-differs-from-the-genuine-local-unit:rederived=%v", !accepted[ls]), "the unit relayed for the local shard is not the publisher's unit for that shard", w)
		} else {
			r.Count("receiver_relayed_units_equal_to_genuine", 1)
		}
		var wantPeers []string
		for _, m := range env.members {
			if m != env.publisher && m != env.local {
				wantPeers = append(wantPeers, string(m))
			}
		}
		var gotPeers []string
		for _, p := range b.Peers {
			gotPeers = append(gotPeers, string(p))
		}
		sort.Strings(wantPeers)
		sort.Strings(gotPeers)
		if !reflect.DeepEqual(wantPeers, gotPeers) && !(len(wantPeers) == 0 && len(gotPeers) == 0) {
			c.viol("receiver:relay-targets-differ-from-committee-minus-publisher-and-self", fmt.Sprintf("%d targets, expected %d", len(gotPeers), len(wantPeers)), w)
		}
	}

	// ---- rejected units are reported, with their sender
	var got []string
	for _, x := range inv {
		got = append(got, string(x.Sender))
	}
	var wantS []string
	for _, s := range wantInvalid {
		wantS = append(wantS, string(s))
	}
	sort.Strings(got)
	sort.Strings(wantS)
	if !reflect.DeepEqual(got, wantS) && !(len(got) == 0 && len(wantS) == 0) {
		c.viol(fmt.Sprintf("receiver:invalid-unit-reports-differ:got=%d:want=%d:%s", len(got), len(wantS), outcome),
			"every unit the model rejects (corrupted, duplicate, wrong sender) must be reported invalid with its sender, and no other", w)
	} else {
		r.Count("receiver_rejected_units_reported", len(got))
	}

	// ---- second stage: never judged for termination (nothing is delivered from it in this
	// snapshot), only for panics
	if outcome == "built" && o.err == nil {
		ctx2, cancel2 := context.WithCancel(context.Background())
		stop2 := make(chan struct{})
		done2 := make(chan *panicInfo, 1)
		var err2 error
		go func() {
			p := safe(func() { err2 = rx.Received(ctx2, o.count, o.msg) })
			close(stop2)
			done2 <- p
		}()
		for i := 0; i < env.total; i++ {
			dl := rxGenuine(env, i)
			if env.rng.IntN(4) == 0 {
				if cd, ok := rxCorrupt(env, i, true); ok {
					dl = cd
				}
			}
			u := cloneUnit(&dl.unit)
			if !rx.Offer(stop2, &u, dl.sender) {
				break
			}
		}
		cancel2()
		select {
		case p := <-done2:
			if p != nil {
				w["panic"] = p
				c.viol("receiver:panic:second-stage:"+p.kind(), "the receiver's second stage panicked: "+p.Value, w)
			} else if err2 == nil {
				r.Count("receiver_second_stage_reached_receive_threshold", 1)
			} else {
				r.Count("receiver_second_stage_ended_by_context", 1)
			}
		case <-time.After(rxWatchdog):
			c.viol("receiver:stuck:second-stage", "the second stage did not return after its context ended", w)
		}
		rx.DrainInvalid()
	}
}

func normUnit(u *propeller.Unit) propeller.Unit {
	n := cloneUnit(u)
	if len(n.Signature) == 0 {
		n.Signature = nil
	}
	return n
}

func receiverChecks(c *caseCtx, env *corruptEnv, sch *propeller.Scheduler) {
	for shape := 0; shape <= 6; shape++ {
		receiverTrial(c, env, sch, shape)
	}
	routingTrial(c, env, sch)
}

// ---------------------------------------------------------------- Processor routing

// routingTrial drives the real Processor (ProcessMessage -> per-key subprocessor). Units of
// the genuine message stay below the build threshold (the subprocessors Processor creates
// cannot relay in this snapshot: their event channel is nil), in between come units whose
// key differs from the genuine one - units of another message of the same publisher dressed
// with the genuine signature (what a relaying member can forge), bit-flipped roots,
// committees, nonces. Each of those must be reported invalid (or refused by ProcessMessage);
// the genuine subprocessor must not count any of them.
func routingTrial(c *caseCtx, env *corruptEnv, sch *propeller.Scheduler) {
	r, rng, cr := c.r, env.rng, env.cr
	d := sch.NumDataShards()
	if d < 2 {
		r.Count("routing_trials_skipped(data shards < 2: first valid unit already builds)", 1)
		return
	}
	if routingSilenceSeen.Load() {
		r.Count("routing_trials_skipped(after a forged unit went unreported)", 1)
		return
	}
	ls := localShard(env)
	cfg := propeller.DefaultConfig()
	cfg.StaleMessageTimeout = time.Hour
	var proc *propeller.Processor
	if p := safe(func() { proc, _ = propeller.NewProcessor(env.local, &cfg) }); p != nil {
		c.viol("routing:NewProcessor-panic", p.Value, nil)
		return
	}
	ctx, cancel := context.WithCancel(context.Background())
	defer cancel()
	r.Count("routing_trials", 1)

	hand := func(u *propeller.Unit, sender peer.ID) (handed bool, perr error, pan *panicInfo) {
		// ProcessMessage hands over with a non-blocking send: a subprocessor that is not at
		// its receive yet (just created, or busy) drops the unit; the network layer would see
		// the error and the unit comes again. Retry until taken.
		for try := 0; try < 20000; try++ {
			cp := cloneUnit(u)
			var err error
			if pan = safe(func() { err = proc.ProcessMessage(ctx, &cp, sender, sch) }); pan != nil {
				return false, nil, pan
			}
			if err == nil {
				return true, nil, nil
			}
			perr = err
			if !bytes.Contains([]byte(err.Error()), []byte("channel full")) {
				return false, err, nil
			}
			r.Count("routing_units_dropped_by_nonblocking_handover(retried)", 1)
			if try < 100 {
				runtime.Gosched()
			} else {
				time.Sleep(50 * time.Microsecond)
			}
		}
		return false, perr, nil
	}
	forgedKeys := map[string]bool{}
	keyOf := func(u *propeller.Unit) string { return propeller.VerifKeyOf(u) } // the processor's own key function
	genuineKey := keyOf(&cr.fixed[0])
	// awaitInvalid polls the processor's report channels until the invalid-unit report for
	// (sender, root) arrives; finished subprocessors of forged keys may come in between.
	awaitInvalid := func(sender peer.ID, key string) (gotInv bool, stray string) {
		dl, cancelDl := context.WithTimeout(ctx, rxWatchdog)
		defer cancelDl()
		for {
			inv, fin := proc.VerifPoll(dl)
			switch {
			case inv == nil && fin == nil:
				return false, ""
			case inv != nil && inv.Sender == sender && inv.Key == key:
				return true, ""
			case fin != nil && forgedKeys[fin.Key]:
				r.Count("routing_subprocessors_of_forged_keys_finished", 1)
			default:
				return false, fmt.Sprintf("invalid=%+v finalized=%+v", inv, fin)
			}
		}
	}
	// genuine units (never the local shard, never reaching the threshold)
	var pool []int
	for _, i := range rng.Perm(env.total) {
		if i != ls {
			pool = append(pool, i)
		}
	}
	nGen := min(d-1, len(pool))
	genuineAt := map[int]bool{}
	steps := []string{}
	for k := 0; k < nGen; k++ {
		genuineAt[rng.IntN(4)] = true
	}
	gi := 0
	forged := 0
	usedKeys := map[string]bool{}
	for slot := 0; slot < 5; slot++ {
		if gi < nGen && (genuineAt[slot] || slot == 0) {
			g := rxGenuine(env, pool[gi])
			gi++
			ok, err, pan := hand(&g.unit, g.sender)
			steps = append(steps, fmt.Sprintf("genuine#%d", g.Index))
			if pan != nil || !ok {
				c.viol("routing:genuine-unit-refused", fmt.Sprintf("ProcessMessage(genuine unit %d): err=%v panic=%v", g.Index, err, pan), map[string]any{"steps": steps})
				return
			}
			r.Count("routing_genuine_units_handed", 1)
		}
		// a forged unit with another key
		var f rxDelivery
		var ok bool
		if slot%2 == 0 && env.other != nil && len(env.other.fixed) == env.total {
			j := pool[rng.IntN(len(pool))]
			u := cloneUnit(&env.other.fixed[j])
			u.Signature = append([]byte(nil), cr.fixed[0].Signature...)
			f, ok = rxDelivery{Kind: "corrupt:unit-of-another-message-with-the-genuine-signature", Index: j, unit: u,
				sender: env.ref.legitSender(env.local, env.publisher, uint32(j))}, true
		} else {
			f, ok = rxCorrupt(env, pool[rng.IntN(len(pool))], false)
		}
		if !ok {
			continue
		}
		// a key that was already used is remembered as finalised by the processor and units for
		// it are dropped silently: one forged unit per key
		fk := keyOf(&f.unit)
		ik := fmt.Sprintf("%x|%s|%x|%d", f.unit.CommitteeID, f.unit.Publisher, f.unit.MessageRoot, f.unit.Nonce)
		if usedKeys[ik] || sameKey(&f.unit, &cr.fixed[0]) {
			continue
		}
		usedKeys[ik] = true
		forgedKeys[fk] = true
		steps = append(steps, f.Kind)
		handed, err, pan := hand(&f.unit, f.sender)
		if pan != nil {
			c.viol("routing:ProcessMessage-panic:"+pan.kind(), "ProcessMessage panicked on "+f.Kind+": "+pan.Value, map[string]any{"steps": steps, "panic": pan})
			return
		}
		r.Count("routing_forged_units/"+f.Kind, 1)
		if !handed {
			r.Count("routing_forged_units_refused_by_ProcessMessage", 1)
			_ = err
			continue
		}
		forged++
		gotInv, stray := awaitInvalid(f.sender, fk)
		r.Eval(1)
		if !gotInv {
			what := fmt.Sprintf("no invalid-unit report with its sender and root followed within %v", rxWatchdog)
			if stray != "" {
				what = "the processor reported something else instead: " + stray
			} else {
				routingSilenceSeen.Store(true)
			}
			c.viol("routing:forged-unit-not-reported-invalid:"+f.Kind,
				"a unit whose (committee, publisher, root, nonce) differs from the genuine message was taken by the processor and "+what,
				map[string]any{"steps": steps, "data_shards": d, "committee_size": len(env.members), "forged_unit": fmt.Sprintf("%+v", f.unit)})
			return
		}
		r.Count("routing_forged_units_reported_invalid", 1)
	}
	// the genuine subprocessor is still collecting: it reports a duplicate of a unit it holds
	if gi > 0 {
		g := rxGenuine(env, pool[0])
		if ok, _, _ := hand(&g.unit, g.sender); ok {
			gotInv, stray := awaitInvalid(g.sender, genuineKey)
			r.Eval(1)
			if !gotInv {
				c.viol("routing:genuine-subprocessor-lost", fmt.Sprintf("after %d forged units the subprocessor of the genuine message does not report a duplicate of a unit it was given (%s)", forged, stray),
					map[string]any{"steps": steps})
			} else {
				r.Count("routing_genuine_subprocessor_alive_after_forged_units", 1)
			}
		}
	}
	// end: every subprocessor still open finishes with the context
	cancel()
	for n := proc.VerifOpenSubprocessors(); n > 0; n-- {
		dl, cancelDl := context.WithTimeout(context.Background(), rxWatchdog)
		_, fin := proc.VerifPoll(dl)
		cancelDl()
		if fin == nil {
			break
		}
	}
}

package vpropeller

// Independent reference definitions and small harness helpers for C19.
// Nothing in this file calls into consensus/propeller: the Merkle tree, the
// padding layout and the shard schedule are re-stated here from the protocol
// description (tagged SHA-256 tree, varint length prefix, sorted committee with
// the publisher skipped) so that Juno's implementation can be compared with
// them.

import (
	"bytes"
	"crypto/ed25519"
	"crypto/sha256"
	"encoding/binary"
	"fmt"
	"math/rand/v2"
	"runtime"
	"sort"
	"strings"
	"sync"

	"github.com/NethermindEth/juno/verifh/lib"
	"github.com/libp2p/go-libp2p/core/crypto"
	"github.com/libp2p/go-libp2p/core/peer"
)

// ---------------------------------------------------------------- recover()

type panicInfo struct {
	Value string `json:"value"`
	Stack string `json:"stack"`
}

// safe runs fn under recover; every call into Juno goes through it.
func safe(fn func()) (p *panicInfo) {
	defer func() {
		if x := recover(); x != nil {
			buf := make([]byte, 6144)
			buf = buf[:runtime.Stack(buf, false)]
			p = &panicInfo{Value: fmt.Sprint(x), Stack: string(buf)}
		}
	}()
	fn()
	return nil
}

func (p *panicInfo) nilDeref() bool {
	return p != nil && strings.Contains(p.Value, "nil pointer dereference")
}

// short, stable token for a panic value (used inside violation classes)
func (p *panicInfo) kind() string {
	switch {
	case p == nil:
		return "none"
	case p.nilDeref():
		return "nil-deref"
	case strings.Contains(p.Value, "index out of range"):
		return "index-out-of-range"
	case strings.Contains(p.Value, "slice bounds out of range"):
		return "slice-bounds"
	case strings.Contains(p.Value, "cannot convert slice"):
		return "slice-to-array-conversion"
	case strings.Contains(p.Value, "divide by zero"):
		return "divide-by-zero"
	default:
		return "other"
	}
}

// ---------------------------------------------------------------- per-case reporting

// caseCtx reports at most one violation per (case, class) - a defect such as
// "panics whenever shard 0 is missing" would otherwise produce thousands of
// identical witnesses - and counts every occurrence under "occurrences/<class>".
type caseCtx struct {
	r    *lib.Run
	idx  int
	mu   sync.Mutex
	seen map[string]int
	desc map[string]any
}

func newCase(r *lib.Run, idx int, desc map[string]any) *caseCtx {
	return &caseCtx{r: r, idx: idx, seen: map[string]int{}, desc: desc}
}

func (c *caseCtx) viol(class, brief string, witness map[string]any) {
	c.mu.Lock()
	c.seen[class]++
	first := c.seen[class] == 1
	c.mu.Unlock()
	c.r.Count("occurrences/"+class, 1)
	if !first {
		return
	}
	w := map[string]any{"case": c.desc}
	for k, v := range witness {
		w[k] = v
	}
	c.r.Violation(class, c.idx, brief, w)
}

// ---------------------------------------------------------------- keys

func randBytes(rng *rand.Rand, n int) []byte {
	b := make([]byte, n)
	i := 0
	for ; i+8 <= n; i += 8 {
		binary.LittleEndian.PutUint64(b[i:], rng.Uint64())
	}
	for ; i < n; i++ {
		b[i] = byte(rng.Uint32())
	}
	return b
}

// genKey derives an Ed25519 libp2p key deterministically from the case PRNG.
func genKey(rng *rand.Rand) (crypto.PrivKey, peer.ID) {
	sk := ed25519.NewKeyFromSeed(randBytes(rng, ed25519.SeedSize))
	priv, err := crypto.UnmarshalEd25519PrivateKey(sk)
	if err != nil {
		panic("harness: " + err.Error())
	}
	id, err := peer.IDFromPrivateKey(priv)
	if err != nil {
		panic("harness: " + err.Error())
	}
	return priv, id
}

// ---------------------------------------------------------------- reference Merkle tree
//
// Definition (package doc of consensus/propeller/merkle, "matches the Propeller
// protocol specification"): leaf = SHA256("<leaf>" d "</leaf>"), node =
// SHA256("<node><left>" l "</left><right>" r "</right></node>"), leaves padded
// with the hash of the empty leaf to the next power of two, at least 2.
// Written recursively (Juno builds it layer by layer).

type h32 = [32]byte

func refLeaf(d []byte) h32 {
	return sha256.Sum256([]byte("<leaf>" + string(d) + "</leaf>"))
}

func refNode(l, r h32) h32 {
	return sha256.Sum256([]byte("<node><left>" + string(l[:]) + "</left><right>" + string(r[:]) + "</right></node>"))
}

func refWidth(n int) int {
	w := 2
	for w < n {
		w *= 2
	}
	return w
}

// refSub = hash of the subtree covering padded positions [lo, lo+w).
func refSub(leaves [][]byte, lo, w int) h32 {
	if w == 1 {
		if lo < len(leaves) {
			return refLeaf(leaves[lo])
		}
		return refLeaf(nil)
	}
	return refNode(refSub(leaves, lo, w/2), refSub(leaves, lo+w/2, w/2))
}

func refRoot(leaves [][]byte) h32 {
	if len(leaves) == 0 {
		return h32{}
	}
	return refSub(leaves, 0, refWidth(len(leaves)))
}

// refProof: sibling subtree hashes from the leaf level up to the root.
func refProof(leaves [][]byte, i int) []h32 {
	var out []h32
	w := refWidth(len(leaves))
	for sz := 1; sz < w; sz *= 2 {
		blk := i / sz // index of i's ancestor block of size sz
		sib := blk ^ 1
		out = append(out, refSub(leaves, sib*sz, sz))
	}
	return out
}

// refVerify folds a proof; bits of the index above the proof length are ignored
// (same convention as a fixed-depth tree: position = index mod 2^depth).
func refVerify(root h32, leaf []byte, index uint32, sibs []h32) bool {
	cur := refLeaf(leaf)
	for _, s := range sibs {
		if index%2 == 0 {
			cur = refNode(cur, s)
		} else {
			cur = refNode(s, cur)
		}
		index /= 2
	}
	return cur == root
}

// ---------------------------------------------------------------- reference padding

// refPad: varint(len) || msg || zeros up to the next multiple of 2*d.
func refPad(msg []byte, d int) []byte {
	var v []byte
	for x := uint64(len(msg)); ; {
		if x < 0x80 {
			v = append(v, byte(x))
			break
		}
		v = append(v, byte(x)|0x80)
		x >>= 7
	}
	out := append(v, msg...)
	for len(out)%(2*d) != 0 {
		out = append(out, 0)
	}
	return out
}

// ---------------------------------------------------------------- reference schedule

// refSchedule: committee sorted by peer id (byte order), the publisher is skipped,
// the i-th remaining member broadcasts shard i; data = max(1,(N-1)/3), total = N-1.
type refSchedule struct {
	sorted []peer.ID
}

func newRefSchedule(members []peer.ID) refSchedule {
	s := append([]peer.ID(nil), members...)
	sort.Slice(s, func(i, j int) bool { return bytes.Compare([]byte(s[i]), []byte(s[j])) < 0 })
	return refSchedule{sorted: s}
}

func (s refSchedule) member(id peer.ID) bool {
	for _, m := range s.sorted {
		if m == id {
			return true
		}
	}
	return false
}

func (s refSchedule) data() int   { return max(1, (len(s.sorted)-1)/3) }
func (s refSchedule) total() int  { return len(s.sorted) - 1 }
func (s refSchedule) parity() int { return s.total() - s.data() }

// broadcaster of shard idx for publisher; ok=false if publisher is no member or
// idx is out of range.
func (s refSchedule) broadcaster(publisher peer.ID, idx uint32) (peer.ID, bool) {
	if !s.member(publisher) || int64(idx) >= int64(s.total()) {
		return "", false
	}
	k := 0
	for _, m := range s.sorted {
		if m == publisher {
			continue
		}
		if uint32(k) == idx {
			return m, true
		}
		k++
	}
	return "", false
}

// originOK: may `local` accept shard idx of `publisher` from `sender`?
// (either from its designated broadcaster, or - if local itself is the
// designated broadcaster - directly from the publisher).
func (s refSchedule) originOK(local, sender, publisher peer.ID, idx uint32) bool {
	if sender == local || publisher == local {
		return false
	}
	b, ok := s.broadcaster(publisher, idx)
	if !ok {
		return false
	}
	return (b == local && sender == publisher) || b == sender
}

// legitimate sender of shard idx towards local
func (s refSchedule) legitSender(local, publisher peer.ID, idx uint32) peer.ID {
	b, _ := s.broadcaster(publisher, idx)
	if b == local {
		return publisher
	}
	return b
}

// ---------------------------------------------------------------- subsets

func popcount(mask uint64) int {
	n := 0
	for ; mask != 0; mask &= mask - 1 {
		n++
	}
	return n
}

func maskToPresent(mask uint64, total int) []bool {
	p := make([]bool, total)
	for i := 0; i < total; i++ {
		p[i] = mask&(1<<uint(i)) != 0
	}
	return p
}

// randPresent draws a subset with exactly k members out of total.
func randPresent(rng *rand.Rand, total, k int) []bool {
	p := make([]bool, total)
	perm := rng.Perm(total)
	for _, i := range perm[:k] {
		p[i] = true
	}
	return p
}

func countTrue(p []bool) int {
	n := 0
	for _, b := range p {
		if b {
			n++
		}
	}
	return n
}

func presentString(p []bool) string {
	var sb strings.Builder
	for _, b := range p {
		if b {
			sb.WriteByte('1')
		} else {
			sb.WriteByte('.')
		}
	}
	return sb.String()
}

func hexShort(b []byte) string {
	if len(b) <= 48 {
		return fmt.Sprintf("%x", b)
	}
	return fmt.Sprintf("%x...(%d bytes)", b[:48], len(b))
}

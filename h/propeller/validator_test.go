package vpropeller

// Receiver side of C19: UnitValidator.Validate on pristine, duplicated and
// corrupted units, driven the way Processor drives it, plus the per-stage
// exported primitives judged on their own (so that the check is not vacuous
// while Validate rejects everything).

import (
	"bytes"
	"fmt"
	"math"
	"math/rand/v2"

	"github.com/NethermindEth/juno/consensus/propeller"
	"github.com/NethermindEth/juno/consensus/propeller/merkle"
	"github.com/NethermindEth/juno/consensus/propeller/reedsolomon"
	"github.com/libp2p/go-libp2p/core/peer"
)

// ---------------------------------------------------------------- model of Processor routing

type msgKey struct {
	cid   propeller.CommitteeID
	pub   peer.ID
	root  propeller.MessageRoot
	nonce propeller.Nonce
}

// pipeline = the exported pieces of Processor.ProcessMessage/createSubprocessor:
// units are routed by (committee, publisher, root, nonce) to one UnitValidator
// each; a validator is created only if the scheduler knows the claimed publisher.
type pipeline struct {
	sch  *propeller.Scheduler
	vals map[msgKey]*propeller.UnitValidator
}

func newPipeline(sch *propeller.Scheduler) *pipeline {
	return &pipeline{sch: sch, vals: map[msgKey]*propeller.UnitValidator{}}
}

type delivery struct {
	accepted bool
	routed   bool // false: dropped before a validator existed (publisher unknown / is the local peer)
	err      error
	pan      *panicInfo
	where    string
}

func (pl *pipeline) deliver(u *propeller.Unit, sender peer.ID) (d delivery) {
	k := msgKey{u.CommitteeID, u.Publisher, u.MessageRoot, u.Nonce}
	v := pl.vals[k]
	if v == nil {
		var err error
		if p := safe(func() { _, err = pl.sch.ShardIndexForPublisher(u.Publisher) }); p != nil {
			return delivery{pan: p, where: "Scheduler.ShardIndexForPublisher"}
		}
		if err != nil {
			return delivery{err: err}
		}
		if p := safe(func() { nv := propeller.NewValidator(u.Publisher, pl.sch); v = &nv }); p != nil {
			return delivery{pan: p, where: "NewValidator"}
		}
		pl.vals[k] = v
	}
	d.routed = true
	if p := safe(func() { d.err = v.Validate(u, sender) }); p != nil {
		d.pan, d.where = p, "UnitValidator.Validate"
		return d
	}
	d.accepted = d.err == nil
	return d
}

// ---------------------------------------------------------------- per-stage primitives (Juno's own, exported)

type stages struct {
	origin, proof, sig bool
	pan                *panicInfo
}

func (s stages) all() bool { return s.origin && s.proof && s.sig }

// primitives evaluates the three checks a receiver is meant to make, each with
// Juno's exported function, with the leaf encoding the PUBLISHER used.
func primitives(sch *propeller.Scheduler, enc string, u *propeller.Unit, sender peer.ID) (s stages) {
	s.pan = safe(func() {
		s.origin = sch.ValidateShardOrigin(sender, u.Publisher, u.ShardIndex) == nil
		h := merkle.Hash(u.MessageRoot)
		s.proof = len(u.ShardData) == 1 && u.MerkleProof.Verify(&h, leafOf(enc, u.ShardData), uint32(u.ShardIndex))
		pk, err := u.Publisher.ExtractPublicKey()
		s.sig = err == nil && propeller.VerifyMessageSignature(pk, &u.MessageRoot, &u.CommitteeID, u.Nonce, u.Signature) == nil
	})
	return s
}

// ---------------------------------------------------------------- corruptions

type corruptEnv struct {
	rng       *rand.Rand
	cr        *created
	other     *created // a second message of the same publisher/committee/nonce (for transplants)
	ref       refSchedule
	local     peer.ID
	members   []peer.ID
	outsider  peer.ID
	total     int
	proofLen  int
	publisher peer.ID
}

type corruption struct {
	name string
	// apply edits the unit / sender in place; returns false if not applicable for this unit
	apply func(e *corruptEnv, u *propeller.Unit, sender *peer.ID) bool
}

func otherMember(e *corruptEnv, not ...peer.ID) (peer.ID, bool) {
	var cands []peer.ID
next:
	for _, m := range e.members {
		for _, x := range not {
			if m == x {
				continue next
			}
		}
		cands = append(cands, m)
	}
	if len(cands) == 0 {
		return "", false
	}
	return cands[e.rng.IntN(len(cands))], true
}

var corruptions = []corruption{
	{"shard-bit-flip", func(e *corruptEnv, u *propeller.Unit, _ *peer.ID) bool {
		s := u.ShardData[0]
		s[e.rng.IntN(len(s))] ^= 1 << uint(e.rng.IntN(8))
		return true
	}},
	{"shard-bit-flip-near-end", func(e *corruptEnv, u *propeller.Unit, _ *peer.ID) bool {
		s := u.ShardData[0]
		if len(s) == 0 {
			return false
		}
		s[len(s)-1-e.rng.IntN(min(8, len(s)))] ^= 1 << uint(e.rng.IntN(8))
		return true
	}},
	{"shard-truncated", func(e *corruptEnv, u *propeller.Unit, _ *peer.ID) bool {
		u.ShardData[0] = u.ShardData[0][:len(u.ShardData[0])-1]
		return true
	}},
	{"shard-extended", func(e *corruptEnv, u *propeller.Unit, _ *peer.ID) bool {
		u.ShardData[0] = append(u.ShardData[0], 0)
		return true
	}},
	{"shard-list-empty", func(e *corruptEnv, u *propeller.Unit, _ *peer.ID) bool {
		u.ShardData = propeller.ShardData{}
		return true
	}},
	{"shard-list-doubled", func(e *corruptEnv, u *propeller.Unit, _ *peer.ID) bool {
		u.ShardData = append(u.ShardData, append(propeller.Shard(nil), u.ShardData[0]...))
		return true
	}},
	{"proof-node-bit-flip", func(e *corruptEnv, u *propeller.Unit, _ *peer.ID) bool {
		s := u.MerkleProof.Siblings
		s[e.rng.IntN(len(s))][e.rng.IntN(32)] ^= 1 << uint(e.rng.IntN(8))
		return true
	}},
	{"proof-truncated", func(e *corruptEnv, u *propeller.Unit, _ *peer.ID) bool {
		u.MerkleProof.Siblings = u.MerkleProof.Siblings[:len(u.MerkleProof.Siblings)-1]
		return true
	}},
	{"proof-extended", func(e *corruptEnv, u *propeller.Unit, _ *peer.ID) bool {
		var h merkle.Hash
		copy(h[:], randBytes(e.rng, 32))
		u.MerkleProof.Siblings = append(u.MerkleProof.Siblings, h)
		return true
	}},
	{"proof-of-other-shard", func(e *corruptEnv, u *propeller.Unit, _ *peer.ID) bool {
		if e.total < 2 {
			return false
		}
		j := (int(u.ShardIndex) + 1 + e.rng.IntN(e.total-1)) % e.total
		u.MerkleProof.Siblings = append([]merkle.Hash(nil), e.cr.fixed[j].MerkleProof.Siblings...)
		// identical proofs are possible only for sibling leaves with identical hashes
		return fmt.Sprint(u.MerkleProof.Siblings) != fmt.Sprint(e.cr.fixed[u.ShardIndex].MerkleProof.Siblings)
	}},
	{"index-changed-sender-kept", func(e *corruptEnv, u *propeller.Unit, _ *peer.ID) bool {
		if e.total < 2 {
			return false
		}
		u.ShardIndex = propeller.ShardIndex((int(u.ShardIndex) + 1 + e.rng.IntN(e.total-1)) % e.total)
		return true
	}},
	{"index-changed-sender-matching", func(e *corruptEnv, u *propeller.Unit, sender *peer.ID) bool {
		if e.total < 2 {
			return false
		}
		j := (int(u.ShardIndex) + 1 + e.rng.IntN(e.total-1)) % e.total
		if bytes.Equal(e.cr.fixed[j].ShardData[0], u.ShardData[0]) {
			// identical shard contents (all-zero messages): the result can be a genuinely valid unit j
			return false
		}
		u.ShardIndex = propeller.ShardIndex(j)
		*sender = e.ref.legitSender(e.local, e.publisher, uint32(u.ShardIndex))
		return true
	}},
	{"index-out-of-range", func(e *corruptEnv, u *propeller.Unit, _ *peer.ID) bool {
		u.ShardIndex = propeller.ShardIndex(e.total + e.rng.IntN(3))
		return true
	}},
	{"index-plus-tree-width", func(e *corruptEnv, u *propeller.Unit, _ *peer.ID) bool {
		// Proof.Verify ignores index bits above the proof length: only the range check can stop this one
		u.ShardIndex += propeller.ShardIndex(1 << uint(e.proofLen))
		return true
	}},
	{"index-max-uint32", func(e *corruptEnv, u *propeller.Unit, _ *peer.ID) bool {
		u.ShardIndex = math.MaxUint32
		return true
	}},
	{"signature-bit-flip", func(e *corruptEnv, u *propeller.Unit, _ *peer.ID) bool {
		u.Signature[e.rng.IntN(len(u.Signature))] ^= 1 << uint(e.rng.IntN(8))
		return true
	}},
	{"signature-truncated", func(e *corruptEnv, u *propeller.Unit, _ *peer.ID) bool {
		u.Signature = u.Signature[:len(u.Signature)-1]
		return true
	}},
	{"signature-empty", func(e *corruptEnv, u *propeller.Unit, _ *peer.ID) bool {
		u.Signature = nil
		return true
	}},
	{"signature-of-other-message", func(e *corruptEnv, u *propeller.Unit, _ *peer.ID) bool {
		u.Signature = append(propeller.Signature(nil), e.other.fixed[0].Signature...)
		return true
	}},
	{"committee-bit-flip", func(e *corruptEnv, u *propeller.Unit, _ *peer.ID) bool {
		u.CommitteeID[e.rng.IntN(32)] ^= 1 << uint(e.rng.IntN(8))
		return true
	}},
	{"nonce-changed", func(e *corruptEnv, u *propeller.Unit, _ *peer.ID) bool {
		u.Nonce += propeller.Nonce(1 + e.rng.IntN(1000))
		return true
	}},
	{"root-bit-flip", func(e *corruptEnv, u *propeller.Unit, _ *peer.ID) bool {
		u.MessageRoot[e.rng.IntN(32)] ^= 1 << uint(e.rng.IntN(8))
		return true
	}},
	{"root-of-other-message", func(e *corruptEnv, u *propeller.Unit, _ *peer.ID) bool {
		// root + signature of another genuinely signed message, shard + proof of this one
		u.MessageRoot = e.other.root
		u.Signature = append(propeller.Signature(nil), e.other.fixed[0].Signature...)
		return true
	}},
	{"shard-and-proof-of-other-message", func(e *corruptEnv, u *propeller.Unit, _ *peer.ID) bool {
		o := cloneUnit(&e.other.fixed[u.ShardIndex])
		u.ShardData, u.MerkleProof = o.ShardData, o.MerkleProof
		return true
	}},
	{"publisher-other-member", func(e *corruptEnv, u *propeller.Unit, _ *peer.ID) bool {
		m, ok := otherMember(e, e.publisher, e.local)
		if !ok {
			return false
		}
		u.Publisher = m
		return true
	}},
	{"publisher-is-local", func(e *corruptEnv, u *propeller.Unit, _ *peer.ID) bool {
		u.Publisher = e.local
		return true
	}},
	{"publisher-outsider", func(e *corruptEnv, u *propeller.Unit, _ *peer.ID) bool {
		u.Publisher = e.outsider
		return true
	}},
	{"sender-other-member", func(e *corruptEnv, u *propeller.Unit, sender *peer.ID) bool {
		// any member that is neither the designated broadcaster nor (for the local shard) the publisher
		b, _ := e.ref.broadcaster(e.publisher, uint32(u.ShardIndex))
		not := []peer.ID{*sender, b, e.local}
		if b == e.local {
			not = append(not, e.publisher)
		}
		m, ok := otherMember(e, not...)
		if !ok {
			return false
		}
		*sender = m
		return true
	}},
	{"sender-publisher-for-foreign-shard", func(e *corruptEnv, u *propeller.Unit, sender *peer.ID) bool {
		// the publisher may hand a shard directly only to its designated broadcaster
		b, _ := e.ref.broadcaster(e.publisher, uint32(u.ShardIndex))
		if b == e.local {
			return false
		}
		*sender = e.publisher
		return true
	}},
	{"sender-is-local", func(e *corruptEnv, u *propeller.Unit, sender *peer.ID) bool {
		*sender = e.local
		return true
	}},
	{"sender-outsider", func(e *corruptEnv, u *propeller.Unit, sender *peer.ID) bool {
		*sender = e.outsider
		return true
	}},
}

// ---------------------------------------------------------------- the checks

func validatorChecks(c *caseCtx, rng *rand.Rand, cr *created, ids []peer.ID, pubI int) {
	r := c.r
	total := cr.cfg.D + cr.cfg.P
	publisher := ids[pubI]
	// local receiver: a random non-publisher
	li := rng.IntN(len(ids) - 1)
	if li >= pubI {
		li++
	}
	local := ids[li]
	ref := newRefSchedule(ids)
	nodes := make([]propeller.PeerCommittee, len(ids))
	for i, id := range ids {
		nodes[i] = propeller.PeerCommittee{ID: id, Stake: propeller.Stake(1 + rng.IntN(100))}
	}
	var sch *propeller.Scheduler
	var err error
	if p := safe(func() { sch, err = propeller.NewScheduler(local, nodes) }); p != nil || err != nil {
		c.viol("scheduler-construct-failed", fmt.Sprintf("NewScheduler for a committee of %d distinct peers: err=%v panic=%v", len(ids), err, p), nil)
		return
	}
	if sch.NumDataShards() != ref.data() || sch.NumCodingShards() != ref.parity() {
		c.viol("scheduler-shard-counts-differ-from-definition", fmt.Sprintf("N=%d: scheduler says (%d,%d), definition (%d,%d)",
			len(ids), sch.NumDataShards(), sch.NumCodingShards(), ref.data(), ref.parity()), nil)
		return
	}
	_, outsider := genKey(rng)
	// a second message of the same publisher under the same (committee, nonce): source of transplants
	msg2 := randBytes(rng, max(1, cr.cfg.MsgLen))
	other := &created{cfg: cr.cfg}
	{
		var u2 []propeller.Unit
		var e2 error
		if p := safe(func() { u2, e2 = propeller.CreatePropellerUnits(cr.priv, &cr.cid, cr.nonce, msg2, cr.cfg.D, cr.cfg.P) }); p != nil || e2 != nil || len(u2) != total {
			return // creation problems are reported by create()
		}
		other.units, other.fixed, other.root = u2, make([]propeller.Unit, total), u2[0].MessageRoot
		for i := range u2 {
			other.fixed[i] = cloneUnit(&u2[i])
			other.fixed[i].Nonce = cr.nonce
		}
		if other.root == cr.root {
			return
		}
	}
	env := &corruptEnv{rng: rng, cr: cr, other: other, ref: ref, local: local, members: ids, outsider: outsider,
		total: total, proofLen: len(cr.fixed[0].MerkleProof.Siblings), publisher: publisher}
	if validatorSuite(c, env, sch, "created") {
		// the receiver's state machine and the processor's routing, on units its validator accepts
		receiverChecks(c, env, sch)
		return
	}
	// The validator refuses what the publisher creates (reported above). So that the rest of
	// Validate (duplicates, signature stage, state after a rejection) is not left unobserved,
	// judge it on units the harness assembles from Juno's exported building blocks
	// (PadMessage, reedsolomon.EncodeData, merkle.New, SignMessage) with the OTHER leaf encoding.
	for _, enc := range []string{"proto", "raw"} {
		if enc == cr.pubEnc {
			continue
		}
		alt, ok1 := assemble(cr, cr.msg, enc)
		altOther, ok2 := assemble(cr, msg2, enc)
		if !ok1 || !ok2 || alt.root == altOther.root {
			r.Count("validator_dialect_suites_not_built", 1)
			continue
		}
		r.Count("validator_dialect_suites(harness-assembled units, "+enc+" leaves)", 1)
		env2 := *env
		env2.cr, env2.other, env2.proofLen = alt, altOther, len(alt.fixed[0].MerkleProof.Siblings)
		validatorSuite(c, &env2, sch, "harness-assembled-"+enc+"-leaf")
	}
}

// assemble builds the unit set of msg the way CreatePropellerUnits does, from the exported
// building blocks, with the given leaf encoding and the nonce carried in the unit.
func assemble(cr *created, msg []byte, enc string) (*created, bool) {
	d, p := cr.cfg.D, cr.cfg.P
	out := &created{cfg: cr.cfg, priv: cr.priv, pubID: cr.pubID, cid: cr.cid, nonce: cr.nonce, msg: msg, pubEnc: enc}
	ok := false
	safe(func() {
		shards, err := reedsolomon.EncodeData(propeller.PadMessage(msg, d), d, p)
		if err != nil {
			return
		}
		leaves := make([][]byte, len(shards))
		for i := range shards {
			leaves[i] = leafOf(enc, propeller.ShardData{shards[i]})
		}
		root, tree := merkle.New(leaves)
		out.root = propeller.MessageRoot(root)
		sig, err := propeller.SignMessage(cr.priv, &out.root, &out.cid, cr.nonce)
		if err != nil || len(tree) != len(shards) {
			return
		}
		for i := range shards {
			out.fixed = append(out.fixed, propeller.Unit{CommitteeID: cr.cid, Publisher: cr.pubID, MessageRoot: out.root, MerkleProof: tree[i],
				Signature: append(propeller.Signature(nil), sig...), ShardIndex: propeller.ShardIndex(i), ShardData: propeller.ShardData{shards[i]}, Nonce: cr.nonce})
		}
		out.units = out.fixed
		ok = len(out.fixed) == d+p
	})
	return out, ok
}

// validatorSuite runs pristine / duplicate / corrupted units of env.cr through
// Validate. Returns whether the validator accepted every pristine unit ("live").
func validatorSuite(c *caseCtx, env *corruptEnv, sch *propeller.Scheduler, label string) bool {
	r, rng, cr, ref, local, ids, publisher, total := c.r, env.rng, env.cr, env.ref, env.local, env.members, env.publisher, env.total
	created := label == "created"

	// --- 1. pristine units, each from its legitimate sender, through one pipeline (one validator)
	pl := newPipeline(sch)
	live := true
	for i := range cr.fixed {
		u := cloneUnit(&cr.fixed[i])
		sender := ref.legitSender(local, publisher, uint32(i))
		st := primitives(sch, cr.pubEnc, &u, sender)
		r.Eval(2)
		r.Count(label+"_units_validated", 1)
		if sender == publisher {
			r.Count(label+"_units_direct_from_publisher", 1)
		}
		w := map[string]any{"unit": i, "units": total, "committee_size": len(ids), "sender_is_publisher": sender == publisher,
			"stage_origin_ok": st.origin, "stage_proof_ok(publisher leaf encoding " + cr.pubEnc + ")": st.proof, "stage_signature_ok": st.sig}
		if st.pan != nil {
			w["panic"] = st.pan
			c.viol("primitive-check-panic:"+st.pan.kind(), "an exported per-stage check panicked on a pristine unit: "+st.pan.Value, w)
			live = false
			continue
		}
		if !st.origin {
			c.viol("origin-check-rejects-legitimate-sender",
				fmt.Sprintf("Scheduler.ValidateShardOrigin rejects shard %d from its designated sender (committee %d)", i, len(ids)), w)
		}
		if !st.sig || !st.proof {
			c.viol("pristine-unit-fails-primitive-check", fmt.Sprintf("unit %d (nonce field set to the signed nonce): proof ok=%v signature ok=%v", i, st.proof, st.sig), w)
		}
		d := pl.deliver(&u, sender)
		if d.pan != nil {
			w["panic"] = d.pan
			c.viol("validate-panic:pristine:"+d.pan.kind(), d.where+" panicked on a pristine unit: "+d.pan.Value, w)
			live = false
			continue
		}
		if d.accepted {
			r.Count(label+"_units_accepted_by_validator", 1)
			continue
		}
		live = false
		r.Count(label+"_units_rejected_by_validator", 1)
		w["validate_error"] = fmt.Sprint(d.err)
		// classify by the shape of the witness, not by the error text
		otherEnc := "proto"
		if cr.pubEnc == "proto" {
			otherEnc = "raw"
		}
		h := merkle.Hash(u.MessageRoot)
		otherEncOK := u.MerkleProof.Verify(&h, leafOf(otherEnc, u.ShardData), uint32(u.ShardIndex))
		w["proof_ok_with_"+otherEnc+"_leaf"] = otherEncOK
		reason := "unexplained"
		switch {
		case !d.routed:
			reason = "not-routed"
		case !st.origin:
			reason = "origin"
		case st.proof && !otherEncOK && st.sig:
			// all publisher-side checks pass; the proof fails only under the other leaf encoding
			reason = "leaf-encoding-mismatch"
		case !st.sig:
			reason = "signature"
		}
		if !created {
			c.viol("validator-rejects-"+label+"-unit:"+reason,
				fmt.Sprintf("unit %d/%d assembled from PadMessage/EncodeData/merkle.New/SignMessage with %s leaves is rejected by Validate as well: %v", i, total, cr.pubEnc, d.err), w)
			continue
		}
		c.viol("created-unit-rejected-by-validator:"+reason,
			fmt.Sprintf("unit %d/%d produced by CreatePropellerUnits (Nonce set to the signed nonce) is rejected by UnitValidator.Validate from its legitimate sender: %v "+
				"[origin ok=%v, proof vs signed root with %s leaf ok=%v / with %s leaf ok=%v, signature ok=%v]", i, total, d.err, st.origin, cr.pubEnc, st.proof, otherEnc, otherEncOK, st.sig), w)
	}
	if live {
		r.Count("validator_live_suites/"+label, 1)
	} else {
		r.Count("validator_rejecting_pristine_units_suites/"+label+"(corruption verdicts of Validate vacuous except origin stage)", 1)
	}

	// --- 2. duplicates (only meaningful when the first copy was accepted)
	if live {
		for i := range cr.fixed {
			u := cloneUnit(&cr.fixed[i])
			d := pl.deliver(&u, ref.legitSender(local, publisher, uint32(i)))
			r.Eval(1)
			r.Count("duplicate_units_checked", 1)
			if d.pan != nil {
				c.viol("validate-panic:duplicate:"+d.pan.kind(), "Validate panicked on a duplicate: "+d.pan.Value, map[string]any{"unit": i, "panic": d.pan})
			} else if d.accepted {
				c.viol("duplicate-unit-accepted-by-validator", fmt.Sprintf("the same unit %d is accepted twice by one validator", i), map[string]any{"unit": i})
			}
		}
	}

	// --- 3. single-field corruptions
	targets := []int{rng.IntN(total), rng.IntN(total)}
	if ls, ok := func() (int, bool) { // the shard local is designated for (arrives directly from the publisher)
		for i := 0; i < total; i++ {
			if b, _ := ref.broadcaster(publisher, uint32(i)); b == local {
				return i, true
			}
		}
		return 0, false
	}(); ok {
		targets[0] = ls
	}
	for ti, i := range targets {
		if ti == 1 && targets[1] == targets[0] {
			continue
		}
		for _, co := range corruptions {
			u := cloneUnit(&cr.fixed[i])
			sender := ref.legitSender(local, publisher, uint32(i))
			if !co.apply(env, &u, &sender) {
				continue
			}
			r.Count("corruptions/"+co.name, 1)
			w := map[string]any{"unit": i, "units": total, "committee_size": len(ids), "corruption": co.name}
			// (a) schedule model vs Juno's origin check, on the corrupted (unit, sender) too
			wantOrigin := ref.originOK(local, sender, u.Publisher, uint32(u.ShardIndex))
			st := primitives(sch, cr.pubEnc, &u, sender)
			r.Eval(1)
			if st.pan != nil {
				w["panic"] = st.pan
				c.viol("primitive-check-panic:"+co.name+":"+st.pan.kind(), "an exported per-stage check panicked on a corrupted unit: "+st.pan.Value, w)
				continue
			}
			if st.origin != wantOrigin {
				dir := "juno-rejects"
				if st.origin {
					dir = "juno-accepts"
				}
				c.viol("origin-check-disagrees-with-schedule-definition:"+dir,
					fmt.Sprintf("ValidateShardOrigin(sender, publisher, idx=%d) accepts=%v, sorted-committee definition says %v", u.ShardIndex, st.origin, wantOrigin), w)
			}
			// (b) publisher-side definition of validity: origin + proof (publisher's leaf encoding) + signature
			if st.all() {
				c.viol("corrupted-unit-passes-stage-checks:"+co.name,
					fmt.Sprintf("unit %d corrupted by %s passes ValidateShardOrigin, Proof.Verify against the signed root and VerifyMessageSignature", i, co.name), w)
			} else {
				r.Count("corrupted_units_rejected_by_stage_checks", 1)
			}
			// (c) Validate, through a fresh pipeline and through one that already accepted/saw another unit
			for _, warm := range []bool{false, true} {
				pl := newPipeline(sch)
				if warm {
					if total < 2 {
						continue
					}
					j := (i + 1 + rng.IntN(total-1)) % total
					uj := cloneUnit(&cr.fixed[j])
					pl.deliver(&uj, ref.legitSender(local, publisher, uint32(j)))
				}
				uc := cloneUnit(&u)
				d := pl.deliver(&uc, sender)
				r.Eval(1)
				r.Count("corrupted_units_through_validate", 1)
				w["validator_warm"] = warm
				switch {
				case d.pan != nil:
					w["panic"] = d.pan
					c.viol("validate-panic:"+co.name+":"+d.pan.kind(), d.where+" panicked on a corrupted unit: "+d.pan.Value, w)
					continue
				case d.accepted:
					c.viol("corrupted-unit-accepted-by-validator:"+co.name,
						fmt.Sprintf("unit %d corrupted by %s is accepted by UnitValidator.Validate (warm validator=%v)", i, co.name, warm), w)
					continue
				case !d.routed:
					r.Count("corrupted_units_dropped_by_routing(publisher unknown/local)", 1)
				case live || !st.origin:
					r.Count("corrupted_units_rejected_by_validate_nonvacuously", 1)
				default:
					r.Count("corrupted_units_rejected_by_validate_vacuously(validator rejects pristine units too)", 1)
				}
				// a rejected unit must not stop the true unit from being accepted afterwards
				if live {
					ut := cloneUnit(&cr.fixed[i])
					d2 := pl.deliver(&ut, ref.legitSender(local, publisher, uint32(i)))
					r.Eval(1)
					r.Count("true_unit_after_rejected_corrupted_unit_checked", 1)
					if !d2.accepted {
						c.viol("valid-unit-rejected-after-corrupted-unit:"+co.name,
							fmt.Sprintf("after rejecting unit %d corrupted by %s the validator refuses the genuine unit %d: %v %v", i, co.name, i, d2.err, d2.pan), w)
					}
				}
			}
		}
	}
	return live
}

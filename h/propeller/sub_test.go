package vpropeller

// Direct exercise of the sub-packages (reedsolomon, merkle), of the padding
// functions, and of the wire decoding of units.

import (
	"bytes"
	"fmt"
	"math/rand/v2"

	"github.com/NethermindEth/juno/consensus/propeller"
	"github.com/NethermindEth/juno/consensus/propeller/merkle"
	pb "github.com/NethermindEth/juno/consensus/propeller/proto"
	"github.com/NethermindEth/juno/consensus/propeller/reedsolomon"
	"github.com/NethermindEth/juno/verifh/lib"
	"github.com/starknet-io/starknet-p2p-specs/p2p/proto/common"
	"google.golang.org/protobuf/proto"
)

// ---------------------------------------------------------------- reedsolomon

func rsCase(r *lib.Run, idx int) {
	rng := lib.Rng("C19/rs", uint64(idx))
	var d, p int
	exhaustive := true
	switch rng.IntN(8) {
	case 0:
		d, p = 1+rng.IntN(40), rng.IntN(41)
		exhaustive = d+p <= 10
	default:
		d = 1 + rng.IntN(6)
		p = rng.IntN(min(6, 11-d))
	}
	total := d + p
	n := 1 + rng.IntN(400)
	if rng.IntN(3) == 0 {
		n = d * (1 + rng.IntN(40)) // divisible by d
	}
	data := randBytes(rng, n)
	c := newCase(r, idx, map[string]any{"kind": "reedsolomon", "d": d, "p": p, "data_len": n, "all_subsets": exhaustive})
	r.Count("rs_cases", 1)
	r.Case(fmt.Sprintf("rs/d%d/p%d/n%d", d, p, n))

	var enc [][]byte
	var err error
	dataCopy := append([]byte(nil), data...)
	if pn := safe(func() { enc, err = reedsolomon.EncodeData(data, d, p) }); pn != nil {
		c.viol("rs-encode-panic:"+pn.kind(), "EncodeData panicked: "+pn.Value, map[string]any{"panic": pn})
		return
	}
	r.Eval(1)
	if err != nil {
		c.viol("rs-encode-error", fmt.Sprintf("EncodeData(len=%d,d=%d,p=%d): %v", n, d, p, err), nil)
		return
	}
	if len(enc) != total {
		c.viol("rs-encode-shard-count", fmt.Sprintf("EncodeData returned %d shards, want %d", len(enc), total), nil)
		return
	}
	var joined []byte
	for i, s := range enc {
		if len(s) != len(enc[0]) {
			c.viol("rs-encode-unequal-shards", fmt.Sprintf("shard %d has %d bytes, shard 0 %d", i, len(s), len(enc[0])), nil)
			return
		}
		if i < d {
			joined = append(joined, s...)
		}
	}
	if len(joined) < n || !bytes.Equal(joined[:n], dataCopy) || len(bytes.Trim(joined[n:], "\x00")) != 0 {
		c.viol("rs-encode-not-systematic", "the first d shards are not the input data followed by zeros", nil)
		return
	}
	orig := make([][]byte, total)
	for i := range enc {
		orig[i] = append([]byte(nil), enc[i]...)
	}
	one := func(present []bool, corrupt int) {
		shards := make([][]byte, total)
		for i := range shards {
			if present[i] {
				shards[i] = append([]byte(nil), orig[i]...)
			}
		}
		if corrupt >= 0 {
			shards[corrupt][rng.IntN(len(shards[corrupt]))] ^= 1 << uint(rng.IntN(8))
		}
		k := countTrue(present)
		var rec [][]byte
		var err error
		pn := safe(func() { rec, err = reedsolomon.RecoverData(shards, d, p) })
		r.Eval(1)
		w := map[string]any{"present": presentString(present), "present_count": k, "corrupted_shard": corrupt}
		if pn != nil {
			w["panic"] = pn
			c.viol("rs-recover-panic:"+pn.kind(), "RecoverData panicked: "+pn.Value, w)
			return
		}
		same := err == nil && len(rec) == total
		if same {
			for i := range rec {
				if !bytes.Equal(rec[i], orig[i]) {
					same = false
				}
			}
		}
		switch {
		case corrupt >= 0:
			r.Count("rs_recoveries_with_corrupted_shard", 1)
			// more shards than the threshold and one of them altered: the altered word is not a
			// codeword (minimum distance parity+1), so verification must fail
			if k > d && err == nil {
				c.viol("rs-recover-accepts-corrupted-shard", fmt.Sprintf("RecoverData(d=%d,p=%d) with %d shards present, one altered, returns no error", d, p, k), w)
			}
		case k >= d:
			r.Count("rs_recoveries_sufficient", 1)
			if err != nil {
				w["error"] = err.Error()
				c.viol("rs-recover-error:sufficient-shards", fmt.Sprintf("RecoverData(d=%d,p=%d) with %d of %d shards: %v", d, p, k, total, err), w)
			} else if !same {
				c.viol("rs-recover-wrong-bytes", fmt.Sprintf("RecoverData(d=%d,p=%d) with %d of %d shards returns shards that differ from the encoded ones", d, p, k, total), w)
			}
		default:
			r.Count("rs_recoveries_below_threshold", 1)
			if err == nil {
				c.viol("rs-recover-no-error-below-threshold", fmt.Sprintf("RecoverData(d=%d,p=%d) with %d of %d shards returns no error", d, p, k, total), w)
			}
		}
	}
	if exhaustive {
		for mask := uint64(0); mask < 1<<uint(total); mask++ {
			pr := maskToPresent(mask, total)
			one(pr, -1)
			if k := popcount(mask); k > d && mask%3 == 0 {
				// alter one present shard
				var idxs []int
				for i, b := range pr {
					if b {
						idxs = append(idxs, i)
					}
				}
				one(pr, idxs[rng.IntN(len(idxs))])
			}
		}
	} else {
		for i := 0; i < 40; i++ {
			k := d
			switch {
			case i >= 20 && i < 28:
				k = min(total, d+1)
			case i >= 28 && i < 34:
				k = d - 1
			case i >= 34:
				k = rng.IntN(total + 1)
			}
			pr := randPresent(rng, total, k)
			one(pr, -1)
			if k > d {
				for j, b := range pr {
					if b {
						one(pr, j)
						break
					}
				}
			}
		}
	}
	// malformed calls must be errors, not panics
	for name, fn := range map[string]func() error{
		"encode-empty-data":      func() error { _, e := reedsolomon.EncodeData(nil, d, p); return e },
		"encode-zero-data-shard": func() error { _, e := reedsolomon.EncodeData(data, 0, p); return e },
		"encode-negative-parity": func() error { _, e := reedsolomon.EncodeData(data, d, -1); return e },
		"recover-no-shards":      func() error { _, e := reedsolomon.RecoverData(nil, d, p); return e },
		"recover-too-few-slots": func() error {
			if total < 2 {
				return fmt.Errorf("n/a")
			}
			s := make([][]byte, total-1)
			for i := range s {
				s[i] = append([]byte(nil), orig[i]...)
			}
			_, e := reedsolomon.RecoverData(s, d, p)
			return e
		},
		"recover-unequal-shard-sizes": func() error {
			if total < 2 || len(orig[0]) < 2 { // a shard truncated to zero length counts as missing, which is legal

				return fmt.Errorf("n/a")
			}
			s := make([][]byte, total)
			for i := range s {
				s[i] = append([]byte(nil), orig[i]...)
			}
			s[total-1] = s[total-1][:len(s[total-1])-1]
			_, e := reedsolomon.RecoverData(s, d, p)
			return e
		},
	} {
		var e error
		pn := safe(func() { e = fn() })
		r.Eval(1)
		r.Count("rs_malformed_calls", 1)
		if pn != nil {
			c.viol("rs-malformed-call-panic:"+name, "panic: "+pn.Value, map[string]any{"panic": pn})
		} else if e == nil {
			c.viol("rs-malformed-call-accepted:"+name, "malformed call returned no error", nil)
		}
	}
}

// ---------------------------------------------------------------- merkle

func toH(s []merkle.Hash) []h32 {
	out := make([]h32, len(s))
	for i := range s {
		out[i] = h32(s[i])
	}
	return out
}

func merkleCase(r *lib.Run, idx int) {
	rng := lib.Rng("C19/merkle", uint64(idx))
	var n int
	switch rng.IntN(10) {
	case 0:
		n = []int{1, 2, 3, 4, 5, 7, 8, 9, 15, 16, 17, 31, 32, 33, 63, 64, 65, 100}[rng.IntN(18)]
	default:
		n = 1 + rng.IntN(40)
	}
	unique := rng.IntN(3) != 0
	// leaf lengths: short ones, every length up to 600 (idx-driven so that a run covers all of
	// them), and lengths around powers of two up to 16 KiB (shards of real messages are that long)
	lenClass := rng.IntN(4)
	leafLen := func(i int) int {
		switch lenClass {
		case 0:
			return rng.IntN(40)
		case 1:
			return (idx*7 + i) % 600
		case 2:
			return max(0, (1<<uint(4+rng.IntN(11)))-16+rng.IntN(32))
		default:
			return rng.IntN(700)
		}
	}
	if lenClass >= 1 && n > 12 {
		n = 1 + n%12
	}
	leaves := make([][]byte, n)
	for i := range leaves {
		if unique {
			leaves[i] = append([]byte{byte(i), byte(i >> 8), 0xA5}, randBytes(rng, leafLen(i))...)
		} else {
			switch rng.IntN(4) {
			case 0:
				leaves[i] = nil // same as a padding leaf
			case 1:
				leaves[i] = []byte{1} // duplicates
			default:
				leaves[i] = randBytes(rng, rng.IntN(8))
			}
		}
	}
	c := newCase(r, idx, map[string]any{"kind": "merkle", "leaves": n, "unique_leaves": unique})
	r.Count("merkle_cases", 1)
	r.Case(fmt.Sprintf("merkle/n%d/u%v/%x", n, unique, refRoot(leaves)))

	var root merkle.Hash
	var tree merkle.Tree
	if pn := safe(func() { root, tree = merkle.New(leaves) }); pn != nil {
		c.viol("merkle-new-panic:"+pn.kind(), "merkle.New panicked: "+pn.Value, map[string]any{"panic": pn})
		return
	}
	r.Eval(1)
	if len(tree) != n {
		c.viol("merkle-proof-count", fmt.Sprintf("merkle.New(%d leaves) returned %d proofs", n, len(tree)), nil)
		return
	}
	if h32(root) != refRoot(leaves) {
		c.viol("merkle-root-differs-from-definition", fmt.Sprintf("merkle.New(%d leaves) root %x, tagged-SHA-256 definition %x", n, root[:], refRoot(leaves)), nil)
	}
	width := refWidth(n)
	verify := func(p *merkle.Proof, rt merkle.Hash, leaf []byte, index uint32) (ok bool, pn *panicInfo) {
		pn = safe(func() { ok = p.Verify(&rt, leaf, index) })
		r.Eval(1)
		r.Count("merkle_verifications", 1)
		return
	}
	tamper := func(name string, i int, p merkle.Proof, rt merkle.Hash, leaf []byte, index uint32, mustReject bool) {
		got, pn := verify(&p, rt, leaf, index)
		w := map[string]any{"leaf_index": i, "verify_index": index, "tamper": name, "proof_len": len(p.Siblings)}
		if pn != nil {
			w["panic"] = pn
			c.viol("merkle-verify-panic:"+name+":"+pn.kind(), "Proof.Verify panicked: "+pn.Value, w)
			return
		}
		r.Count("merkle_tamperings/"+name, 1)
		want := refVerify(h32(rt), leaf, index, toH(p.Siblings))
		if got != want {
			c.viol("merkle-verify-disagrees-with-definition:"+name, fmt.Sprintf("Proof.Verify=%v, definition=%v", got, want), w)
			return
		}
		if got && mustReject {
			c.viol("merkle-tampered-proof-accepted:"+name, fmt.Sprintf("leaf %d of %d: proof tampered by %s still verifies", i, n, name), w)
		}
	}
	for i := 0; i < n; i++ {
		p := tree[i]
		if want := refProof(leaves, i); fmt.Sprint(toH(p.Siblings)) != fmt.Sprint(want) {
			c.viol("merkle-proof-differs-from-definition", fmt.Sprintf("proof of leaf %d of %d differs from the definition (len %d vs %d)", i, n, len(p.Siblings), len(want)), nil)
		}
		ok, pn := verify(&p, root, leaves[i], uint32(i))
		if pn != nil {
			c.viol("merkle-verify-panic:own-proof:"+pn.kind(), "Proof.Verify panicked: "+pn.Value, map[string]any{"panic": pn})
			continue
		}
		if !ok {
			c.viol("merkle-own-proof-not-verifying", fmt.Sprintf("proof %d of %d returned by merkle.New does not verify against its root", i, n), map[string]any{"leaf_index": i})
			continue
		}
		cp := func() merkle.Proof { return merkle.Proof{Siblings: append([]merkle.Hash(nil), p.Siblings...)} }
		// leaf
		l2 := append(append([]byte(nil), leaves[i]...), 0)
		tamper("leaf-extended", i, cp(), root, l2, uint32(i), true)
		if len(leaves[i]) > 0 {
			l3 := append([]byte(nil), leaves[i]...)
			l3[rng.IntN(len(l3))] ^= 1 << uint(rng.IntN(8))
			tamper("leaf-bit-flip", i, cp(), root, l3, uint32(i), true)
			for _, back := range []int{1, 2, 3, 4, 5, 6, 7, 8, 13, 14} {
				if back <= len(leaves[i]) {
					l4 := append([]byte(nil), leaves[i]...)
					l4[len(l4)-back] ^= 1 << uint(rng.IntN(8))
					tamper("leaf-bit-flip-near-end", i, cp(), root, l4, uint32(i), true)
				}
			}
			l5 := append([]byte(nil), leaves[i]...)
			l5[0] ^= 1 << uint(rng.IntN(8))
			tamper("leaf-bit-flip-first-byte", i, cp(), root, l5, uint32(i), true)
			tamper("leaf-truncated", i, cp(), root, leaves[i][:len(leaves[i])-1], uint32(i), !(len(leaves[i]) == 1 && !unique))
		}
		// every sibling
		for s := range p.Siblings {
			q := cp()
			q.Siblings[s][rng.IntN(32)] ^= 1 << uint(rng.IntN(8))
			tamper("sibling-bit-flip", i, q, root, leaves[i], uint32(i), true)
		}
		q := cp()
		q.Siblings = q.Siblings[:len(q.Siblings)-1]
		tamper("proof-truncated", i, q, root, leaves[i], uint32(i), true)
		q = cp()
		q.Siblings = append(q.Siblings, merkle.Hash(refLeaf(nil)))
		tamper("proof-extended", i, q, root, leaves[i], uint32(i), true)
		q = cp()
		if len(q.Siblings) >= 2 {
			q.Siblings[0], q.Siblings[1] = q.Siblings[1], q.Siblings[0]
			tamper("siblings-swapped", i, q, root, leaves[i], uint32(i), q.Siblings[0] != q.Siblings[1])
		}
		rt := root
		rt[rng.IntN(32)] ^= 1 << uint(rng.IntN(8))
		tamper("root-bit-flip", i, cp(), rt, leaves[i], uint32(i), true)
		// every other position of the padded tree; with unique leaves none may verify
		for j := 0; j < width; j++ {
			if j != i {
				tamper("wrong-index", i, cp(), root, leaves[i], uint32(j), unique)
			}
		}
		// index bits above the proof length are ignored by Verify (observation, not demanded either way)
		if ok, _ := verify(&p, root, leaves[i], uint32(i+width)); ok {
			r.Count("merkle_index_plus_width_verifies(high index bits ignored; range check is the caller's)", 1)
		}
		// proof of another leaf
		if n > 1 {
			j := (i + 1 + rng.IntN(n-1)) % n
			tamper("proof-of-other-leaf", i, merkle.Proof{Siblings: append([]merkle.Hash(nil), tree[j].Siblings...)}, root, leaves[i], uint32(i), unique)
		}
	}
	// empty input
	var r0 merkle.Hash
	var t0 merkle.Tree
	if pn := safe(func() { r0, t0 = merkle.New(nil) }); pn != nil {
		c.viol("merkle-new-panic:empty:"+pn.kind(), "merkle.New(nil) panicked", map[string]any{"panic": pn})
	} else if r0 != (merkle.Hash{}) || t0 != nil {
		c.viol("merkle-new-empty-not-zero", "merkle.New(nil) does not return the documented zero root / nil tree", nil)
	}
}

// ---------------------------------------------------------------- padding + hostile wire units

func paddingAndWireCase(r *lib.Run, idx int) {
	rng := lib.Rng("C19/padwire", uint64(idx))
	d := 1 + rng.IntN(70)
	c := newCase(r, idx, map[string]any{"kind": "padding+wire", "d": d})
	r.Count("padding_wire_cases", 1)
	r.Case(fmt.Sprintf("pad/d%d/%d", d, rng.IntN(1<<30)))
	for t := 0; t < 60; t++ {
		n := genMsgLen(rng, d)
		if n > 20000 {
			n = 16380 + rng.IntN(8)
		}
		msg := genMsg(rng, n, []string{"random", "zeros", "ff"}[rng.IntN(3)])
		var padded, back []byte
		var err error
		if pn := safe(func() { padded = propeller.PadMessage(msg, d) }); pn != nil {
			c.viol("pad-panic:"+pn.kind(), "PadMessage panicked: "+pn.Value, map[string]any{"len": n, "panic": pn})
			continue
		}
		want := refPad(msg, d)
		r.Eval(2)
		r.Count("padding_roundtrips", 1)
		if len(want)-n <= 3 && len(want)%(2*d) == 0 && (len(want)-n == 1 || n >= 128) {
			r.Count("padding_exact_fit_lengths", 1)
		}
		if !bytes.Equal(padded, want) {
			c.viol("padding-layout-differs-from-definition",
				fmt.Sprintf("PadMessage(len=%d, d=%d) = %d bytes, definition varint||msg||zeros to a multiple of %d gives %d bytes (or content differs)", n, d, len(padded), 2*d, len(want)),
				map[string]any{"len": n, "got": hexShort(padded), "want": hexShort(want)})
		}
		if pn := safe(func() { back, err = propeller.UnpadMessage(append([]byte(nil), padded...)) }); pn != nil {
			c.viol("unpad-panic:"+pn.kind(), "UnpadMessage panicked: "+pn.Value, map[string]any{"len": n, "panic": pn})
			continue
		}
		if err != nil || !bytes.Equal(back, msg) {
			c.viol("padding-roundtrip-wrong", fmt.Sprintf("UnpadMessage(PadMessage(m)) != m for len=%d d=%d (err %v, got %d bytes)", n, d, err, len(back)), map[string]any{"len": n})
		}
	}
	// hostile padded buffers: error or some slice, never a panic
	for name, b := range map[string][]byte{
		"empty": {}, "only-continuation-bytes": bytes.Repeat([]byte{0x80}, 4), "varint-overflow": bytes.Repeat([]byte{0xff}, 11),
		"length-beyond-data": {0x05, 1, 2}, "length-max-uint64": append(bytes.Repeat([]byte{0xff}, 9), 0x01, 7, 7),
		"length-exact": {0x02, 9, 9},
	} {
		var err error
		var out []byte
		pn := safe(func() { out, err = propeller.UnpadMessage(b) })
		r.Eval(1)
		r.Count("unpad_hostile_buffers", 1)
		switch {
		case pn != nil:
			c.viol("unpad-panic:"+name+":"+pn.kind(), "UnpadMessage panicked on a hostile buffer: "+pn.Value,
				map[string]any{"buffer": hexShort(b), "panic": pn, "reachable_through_ConstructMessageFromUnits_if_publisher_signs_it": signedPayloadPanics(rng, b)})
		case name == "length-exact" && (err != nil || !bytes.Equal(out, []byte{9, 9})):
			c.viol("padding-roundtrip-wrong", "UnpadMessage({2,9,9}) wrong", nil)
		case name != "length-exact" && err == nil:
			c.viol("unpad-accepts-malformed-buffer:"+name, fmt.Sprintf("UnpadMessage(%x) returned %x without error", b, out), nil)
		}
	}
	hostileWire(c, rng)
}

// signedPayloadPanics: a (Byzantine) publisher erasure-codes, commits and signs the
// given padded payload with the exported building blocks; does a receiver that
// holds all its units panic in ConstructMessageFromUnits? Only used to annotate
// the witness of an UnpadMessage panic.
func signedPayloadPanics(rng *rand.Rand, padded []byte) string {
	const d, p = 2, 1
	buf := append([]byte(nil), padded...)
	for len(buf)%(2*d) != 0 {
		buf = append(buf, 0)
	}
	priv, pubID := genKey(rng)
	var cid propeller.CommitteeID
	res := "not-built"
	pn := safe(func() {
		shards, err := reedsolomon.EncodeData(buf, d, p)
		if err != nil {
			return
		}
		root, tree := merkle.New(shards)
		mr := propeller.MessageRoot(root)
		sig, err := propeller.SignMessage(priv, &mr, &cid, 1)
		if err != nil {
			return
		}
		units := make([]*propeller.Unit, len(shards))
		for i := range shards {
			units[i] = &propeller.Unit{CommitteeID: cid, Publisher: pubID, MessageRoot: mr, MerkleProof: tree[i], Signature: sig,
				ShardIndex: propeller.ShardIndex(i), ShardData: propeller.ShardData{shards[i]}, Nonce: 1}
		}
		res = "built"
		_, _, _, err = propeller.ConstructMessageFromUnits(units, 0, d, p)
		res = fmt.Sprintf("no panic (err=%v)", err)
	})
	if pn != nil {
		return "yes (" + res + "): " + pn.Value
	}
	return res
}

// field-by-field comparison of a unit with its decoded wire form
func unitDiff(a, b *propeller.Unit) string {
	switch {
	case a.CommitteeID != b.CommitteeID:
		return "committee"
	case a.Publisher != b.Publisher:
		return "publisher"
	case a.MessageRoot != b.MessageRoot:
		return "root"
	case !bytes.Equal(a.Signature, b.Signature):
		return "signature"
	case a.ShardIndex != b.ShardIndex:
		return "index"
	case a.Nonce != b.Nonce:
		return "nonce"
	case len(a.ShardData) != len(b.ShardData):
		return "shard-count"
	case len(a.MerkleProof.Siblings) != len(b.MerkleProof.Siblings):
		return "proof-length"
	}
	for i := range a.ShardData {
		if !bytes.Equal(a.ShardData[i], b.ShardData[i]) {
			return "shard-bytes"
		}
	}
	for i := range a.MerkleProof.Siblings {
		if a.MerkleProof.Siblings[i] != b.MerkleProof.Siblings[i] {
			return "proof-node"
		}
	}
	return ""
}

func decodeWire(raw []byte) (u propeller.Unit, err error, pn *panicInfo) {
	var batch pb.PropellerUnitBatch
	if e := proto.Unmarshal(raw, &batch); e != nil || len(batch.GetBatch()) != 1 {
		return u, fmt.Errorf("harness: unmarshal: %v (%d units)", e, len(batch.GetBatch())), nil
	}
	pn = safe(func() { u, err = propeller.UnitFromProto(batch.GetBatch()[0]) })
	return
}

// wireRoundTrip: every created unit survives ToProto -> bytes -> UnitFromProto unchanged
// (the way propellerService sends and receives them).
func wireRoundTrip(c *caseCtx, cr *created) {
	for i := range cr.fixed {
		u := &cr.fixed[i]
		var raw []byte
		var err error
		if pn := safe(func() { raw, err = proto.Marshal(&pb.PropellerUnitBatch{Batch: []*pb.PropellerUnit{u.ToProto()}}) }); pn != nil || err != nil {
			c.viol("wire-encode-failed", fmt.Sprintf("Unit.ToProto/Marshal: err=%v panic=%v", err, pn), map[string]any{"unit": i})
			return
		}
		got, err, pn := decodeWire(raw)
		c.r.Eval(1)
		c.r.Count("wire_roundtrips", 1)
		switch {
		case pn != nil:
			c.viol("wire-decode-panic:pristine-unit:"+pn.kind(), "UnitFromProto panicked on a unit produced by ToProto: "+pn.Value, map[string]any{"unit": i, "panic": pn})
			return
		case err != nil:
			c.viol("wire-decode-error:pristine-unit", fmt.Sprintf("UnitFromProto rejects a unit produced by ToProto: %v", err), map[string]any{"unit": i})
			return
		}
		if f := unitDiff(u, &got); f != "" {
			c.viol("wire-roundtrip-mismatch:"+f, fmt.Sprintf("unit %d: field %s changes across ToProto -> UnitFromProto", i, f), map[string]any{"unit": i})
			return
		}
	}
}

// hostileWire: well-formed protobuf, malformed unit. The stream handler
// (propellerService.receiveUnits) calls UnitFromProto without recover, so a panic
// here is a remote crash of the receiver.
func hostileWire(c *caseCtx, rng *rand.Rand) {
	priv, pubID := genKey(rng)
	var cid propeller.CommitteeID
	copy(cid[:], randBytes(rng, 32))
	d, p := 1+rng.IntN(4), 1+rng.IntN(4)
	var units []propeller.Unit
	var err error
	if pn := safe(func() {
		units, err = propeller.CreatePropellerUnits(priv, &cid, 7, randBytes(rng, 1+rng.IntN(60)), d, p)
	}); pn != nil || err != nil || len(units) == 0 {
		return // reported by the unit cases
	}
	_ = pubID
	base := func() *pb.PropellerUnit { u := units[rng.IntN(len(units))]; u.Nonce = 7; return u.ToProto() }
	h := func(n int) *common.Hash256 { return &common.Hash256{Elements: randBytes(rng, n)} }
	shapes := []struct {
		name string
		edit func(u *pb.PropellerUnit)
	}{
		{"all-fields-absent", func(u *pb.PropellerUnit) { *u = pb.PropellerUnit{} }},
		{"shards-field-absent", func(u *pb.PropellerUnit) { u.Shards = nil }},
		{"shard-list-empty", func(u *pb.PropellerUnit) { u.Shards = &pb.ShardsOfPeer{} }},
		{"shard-data-empty", func(u *pb.PropellerUnit) { u.Shards = &pb.ShardsOfPeer{Shards: []*pb.Shard{{}}} }},
		{"two-shards-unequal-length", func(u *pb.PropellerUnit) {
			u.Shards = &pb.ShardsOfPeer{Shards: []*pb.Shard{{Data: []byte{1, 2}}, {Data: []byte{1, 2, 3}}}}
		}},
		{"merkle-root-absent", func(u *pb.PropellerUnit) { u.MerkleRoot = nil }},
		{"merkle-root-31-bytes", func(u *pb.PropellerUnit) { u.MerkleRoot = h(31) }},
		{"merkle-root-0-bytes", func(u *pb.PropellerUnit) { u.MerkleRoot = h(0) }},
		{"merkle-root-33-bytes", func(u *pb.PropellerUnit) { u.MerkleRoot = h(33) }},
		{"merkle-proof-absent", func(u *pb.PropellerUnit) { u.MerkleProof = nil }},
		{"merkle-proof-sibling-5-bytes", func(u *pb.PropellerUnit) { u.MerkleProof = &pb.MerkleProof{Siblings: []*common.Hash256{h(5)}} }},
		{"merkle-proof-sibling-nil", func(u *pb.PropellerUnit) { u.MerkleProof = &pb.MerkleProof{Siblings: []*common.Hash256{nil}} }},
		{"merkle-proof-1000-siblings", func(u *pb.PropellerUnit) {
			s := make([]*common.Hash256, 1000)
			for i := range s {
				s[i] = h(32)
			}
			u.MerkleProof = &pb.MerkleProof{Siblings: s}
		}},
		{"publisher-absent", func(u *pb.PropellerUnit) { u.Publisher = nil }},
		{"publisher-garbage", func(u *pb.PropellerUnit) { u.Publisher = &common.PeerID{Id: randBytes(rng, 7)} }},
		{"committee-absent", func(u *pb.PropellerUnit) { u.CommitteeId = nil }},
		{"committee-5-bytes", func(u *pb.PropellerUnit) { u.CommitteeId = h(5) }},
		{"committee-40-bytes", func(u *pb.PropellerUnit) { u.CommitteeId = h(40) }},
		{"signature-absent", func(u *pb.PropellerUnit) { u.Signature = nil }},
		{"index-2^63", func(u *pb.PropellerUnit) { u.Index = 1 << 63 }},
		{"nonce-max-uint64", func(u *pb.PropellerUnit) { u.Nonce = ^uint64(0) }},
	}
	for _, sh := range shapes {
		u := base()
		sh.edit(u)
		raw, err := proto.Marshal(&pb.PropellerUnitBatch{Batch: []*pb.PropellerUnit{u}})
		if err != nil {
			continue
		}
		got, derr, pn := decodeWire(raw)
		c.r.Eval(1)
		c.r.Count("hostile_wire_units", 1)
		c.r.Count("hostile_wire_shapes/"+sh.name, 1)
		if pn != nil {
			// class from the shape of the decoded message + the kind of panic (root cause), not from the recipe name
			cl := "wire-decode-panic:" + sh.name + ":" + pn.kind()
			switch {
			case len(u.GetShards().GetShards()) == 0 && pn.kind() == "index-out-of-range":
				cl = "wire-decode-panic:no-shards"
			case len(u.GetMerkleRoot().GetElements()) < 32 && pn.kind() == "slice-to-array-conversion":
				cl = "wire-decode-panic:merkle-root-shorter-than-32-bytes"
			}
			c.viol(cl,
				fmt.Sprintf("UnitFromProto panics on a well-formed protobuf unit with %s (called without recover from the stream handler): %s", sh.name, pn.Value),
				map[string]any{"shape": sh.name, "shards": len(u.GetShards().GetShards()), "merkle_root_len": len(u.GetMerkleRoot().GetElements()),
					"panic": pn, "wire_hex": hexShort(raw)})
			continue
		}
		if derr != nil {
			c.r.Count("hostile_wire_units_rejected_by_decoder", 1)
			continue
		}
		c.r.Count("hostile_wire_units_decoded(left to the validator)", 1)
		// a decoded unit must be harmless for reconstruction too when it is the only "present" one below
		// the threshold - not demanded here; the validator path is covered by validatorChecks.
		_ = got
	}
}

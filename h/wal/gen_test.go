package vwal

import (
	"math"
	"math/rand/v2"
	"sort"
)

// script is a well-formed sequence of store calls: the store is open at op 0,
// every "close" is followed by "open" except possibly at the very end.
type script struct {
	Profile string `json:"profile"`
	Ops     []op   `json:"ops"`
}

type gen struct {
	rng *rand.Rand
	tag uint64
	ops []op
}

func (g *gen) entry(h uint64) {
	g.tag++
	e := &entrySpec{Kind: 1 + g.rng.IntN(5), H: h, R: int64(g.rng.IntN(4)), Tag: g.tag, Nil: g.rng.IntN(6) == 0}
	g.ops = append(g.ops, op{Kind: opSet, E: e})
}

func (g *gen) entryKind(h uint64, kind int, round int64) {
	g.tag++
	g.ops = append(g.ops, op{Kind: opSet, E: &entrySpec{Kind: kind, H: h, R: round, Tag: g.tag, Nil: g.rng.IntN(8) == 0}})
}

func (g *gen) add(kind string)   { g.ops = append(g.ops, op{Kind: kind}) }
func (g *gen) del(h uint64)      { g.ops = append(g.ops, op{Kind: opDel, H: h}) }
func (g *gen) reopen()           { g.add(opClose); g.add(opOpen) }
func (g *gen) maybeFlush(p int)  { if g.rng.IntN(100) < p { g.add(opFlush) } }
func sub(a, b uint64) uint64     { if a > b { return a - b }; return 1 }

// genMix: short scripts with an unconstrained mix of calls (entries below,
// at and above the watermark, several prunes per batch, prunes before entries
// in one batch, empty flushes, reopen at arbitrary points).
func genMix(rng *rand.Rand) script {
	g := &gen{rng: rng}
	cur := uint64(1 + rng.IntN(4))
	if rng.IntN(8) == 0 {
		cur = uint64(1)<<40 + uint64(rng.IntN(1000))
	}
	n := 8 + rng.IntN(50)
	for i := 0; i < n; i++ {
		switch x := rng.IntN(100); {
		case x < 42:
			h := cur
			switch rng.IntN(8) {
			case 0:
				h = sub(cur, 1)
			case 1:
				h = sub(cur, uint64(1+rng.IntN(4)))
			case 2, 3:
				h = cur + 1
			case 4:
				h = cur + uint64(rng.IntN(5))
			}
			g.entry(h)
		case x < 60:
			g.add(opFlush)
		case x < 76:
			h := pick(rng, sub(cur, 1), cur, cur, sub(cur, 3), cur+1, sub(cur, 2))
			g.del(h)
			if h >= cur && rng.IntN(3) > 0 {
				cur = h + 1
			}
			g.maybeFlush(60)
		case x < 82:
			g.reopen()
		case x < 85:
			g.add(opFlush)
			g.add(opFlush)
		case x < 87 && i > n/2:
			// prune everything that can ever exist
			g.del(math.MaxUint64)
		default:
			cur++
		}
	}
	g.add(opClose)
	return script{Profile: "mix", Ops: g.ops}
}

// genDriver imitates the consensus driver: per height start / proposal / votes
// with a flush after every few entries, then prune-up-to (height-lag) and flush.
// heights > 256 makes the crash-safe cleanup (watermark, rotation, file removal) run;
// lag and lookahead keep live heights inside old files.
func genDriver(rng *rand.Rand, heights int, lean bool) script {
	g := &gen{rng: rng}
	base := uint64(rng.IntN(3))
	if rng.IntN(6) == 0 {
		base = uint64(rng.IntN(1 << 30))
	}
	lag := uint64(rng.IntN(4))
	if rng.IntN(3) == 0 {
		lag = 0
	}
	lookahead := rng.IntN(3) == 0
	// a reopen resets the store's in-memory prune-record counter, so scripts that
	// are meant to reach the cleanup reopen rarely and early
	reopenEvery := 0
	if heights <= 256 {
		if rng.IntN(2) == 0 {
			reopenEvery = 2 + rng.IntN(heights)
		}
	} else if rng.IntN(3) == 0 {
		reopenEvery = 260 + rng.IntN(heights)
	}
	for i := 1; i <= heights; i++ {
		h := base + uint64(i)
		g.entryKind(h, eStart, 0)
		g.maybeFlush(50)
		if !lean || rng.IntN(4) == 0 {
			rounds := 1 + rng.IntN(2)
			for r := 0; r < rounds; r++ {
				g.entryKind(h, eProp, int64(r))
				g.maybeFlush(70)
				nv := 1 + rng.IntN(3)
				for v := 0; v < nv; v++ {
					g.entryKind(h, ePrevote, int64(r))
					g.maybeFlush(60)
				}
				for v := 0; v < nv; v++ {
					g.entryKind(h, ePrecomm, int64(r))
					g.maybeFlush(60)
				}
				if rng.IntN(4) == 0 {
					g.entryKind(h, eTimeout, int64(r))
				}
			}
		}
		if lookahead && rng.IntN(3) == 0 {
			// a faster peer's message for a later height - usually the next one, sometimes two or
			// three ahead (the heights in between may never get an entry before they are pruned)
			ahead := uint64(1)
			if rng.IntN(3) == 0 {
				ahead = 2 + uint64(rng.IntN(2))
			}
			g.entryKind(h+ahead, []int{ePrevote, eProp}[rng.IntN(2)], 0)
		}
		if heights > 256 && (i%256 >= 250 || i%256 <= 4) && rng.IntN(2) == 0 {
			// around the 256th prune record (when obsolete log files are removed): an early message for a
			// height two or three ahead, while the heights in between have no entry yet
			g.entryKind(h+2+uint64(rng.IntN(2)), eProp, 0)
		}
		if h > lag {
			g.del(h - lag)
		}
		g.add(opFlush)
		if reopenEvery > 0 && i%reopenEvery == 0 {
			g.reopen()
		}
	}
	// leave something alive and unpruned at the end
	g.entryKind(base+uint64(heights)+1, eStart, 0)
	g.add(opClose)
	p := "driver"
	if heights > 256 {
		p = "driver-cleanup"
	}
	return script{Profile: p, Ops: g.ops}
}

// genBig: batches larger than one 32 KiB log block (multi-chunk records).
func genBig(rng *rand.Rand) script {
	g := &gen{rng: rng}
	cur := uint64(1 + rng.IntN(10))
	for b := 0; b < 1+rng.IntN(2); b++ {
		for i := 0; i < rng.IntN(4); i++ {
			g.entry(cur)
			g.maybeFlush(50)
		}
		n := 330 + rng.IntN(500)
		for i := 0; i < n; i++ {
			g.entryKind(cur+uint64(rng.IntN(3)), pick(rng, eProp, ePrevote, ePrecomm), int64(rng.IntN(3)))
			if i == n/2 && rng.IntN(2) == 0 {
				g.del(sub(cur, 1))
			}
		}
		g.add(opFlush)
		if rng.IntN(2) == 0 {
			g.reopen()
		}
		g.del(cur)
		cur++
		g.entry(cur + 1)
		g.add(opFlush)
	}
	g.add(opClose)
	return script{Profile: "big", Ops: g.ops}
}

// genGap: the live heights sit far above the prune records. A handful of live heights get
// their first entries in NON-monotone order across log rotations (reopen, or the rotation a
// cleanup performs), so that a higher live height can have its entries in an older log file
// than every entry of a lower live height; then runs of >= 256 prune records for low heights
// make the clean-up remove obsolete files while those heights stay live.
func genGap(rng *rand.Rand) script {
	g := &gen{rng: rng}
	base := uint64(1000 + rng.IntN(5000))
	next := uint64(1) // next low height to prune
	// n flushed batches that each carry a prune record (several prunes buffered in one batch
	// are coalesced into one record by the store, so they count once)
	pruneRun := func(n int) {
		for i := 0; i < n; i++ {
			for k := 1 + rng.IntN(5)/4; k > 0; k-- {
				g.del(next)
				next++
			}
			g.add(opFlush)
		}
	}
	live := rng.Perm(2 + rng.IntN(3)) // offsets, in the order their first entry is written
	if rng.IntN(2) == 0 {
		sort.Sort(sort.Reverse(sort.IntSlice(live))) // highest first
	}
	for i, off := range live {
		h := base + uint64(off)
		for k := 1 + rng.IntN(3); k > 0; k-- {
			g.entryKind(h, pick(rng, eStart, eProp, ePrevote, ePrecomm), int64(rng.IntN(2)))
		}
		g.add(opFlush)
		if i == len(live)-1 {
			break
		}
		switch rng.IntN(10) {
		case 0, 1, 2, 3, 4, 5:
			g.reopen()
		case 6, 7, 8:
			pruneRun(256 + rng.IntN(6)) // the cleanup rotates the log
		}
	}
	pruneRun(256 + rng.IntN(10))
	if rng.IntN(2) == 0 {
		// more entries for live heights (old and new files), another cleanup
		for k := 1 + rng.IntN(4); k > 0; k-- {
			g.entryKind(base+uint64(live[rng.IntN(len(live))]), pick(rng, eProp, ePrevote, ePrecomm), int64(rng.IntN(3)))
			g.maybeFlush(50)
		}
		g.add(opFlush)
		if rng.IntN(2) == 0 {
			g.reopen()
		}
		pruneRun(256 + rng.IntN(10))
	}
	if rng.IntN(3) == 0 {
		// the lowest live height is decided: pruned for real
		g.del(base)
		g.add(opFlush)
	}
	g.reopen()
	g.entryKind(base+5, eStart, 0)
	g.add(opClose)
	return script{Profile: "gap-cleanup", Ops: g.ops}
}

// genCase picks the profile from the case index so that every run of the tier
// contains all profiles (cleanup scripts are the expensive ones).
func genCase(rng *rand.Rand, idx int) script {
	switch idx % 10 {
	case 0:
		return genDriver(rng, 258+rng.IntN(40), true)
	case 1:
		return genBig(rng)
	case 2, 3:
		return genDriver(rng, 3+rng.IntN(25), false)
	case 5:
		return genGap(rng)
	case 4:
		if idx%20 == 4 {
			return genDriver(rng, 515+rng.IntN(30), true) // two cleanups: second one removes files
		}
		return genMix(rng)
	default:
		return genMix(rng)
	}
}

package vwal

// Layer (d): faults at the log-writer interface. The consensus log obtains every log
// writer from a pebblewal.Manager; the check's build exports a way to wrap that manager
// (h/wal/inject/export.go.txt). The wrapped writers fail chosen WriteRecord / Close
// calls the way the interface allows - independently of how pebble's own writer happens
// to behave after an OS error (it repeats the error from Close, which hides the
// "failed append, clean close, retry succeeds" histories from the syscall-level layer):
//
//   write       WriteRecord returns an error, nothing was written
//   sync        the record was written and synced, the sync is reported as failed
//   sync-lost   the sync is reported as failed and nothing was written
//   close       Close closes the file and reports an error
//   close-torn  Close reports an error after its final write (the end-of-log trailer) reached the
//               file only partly: the file ends in a torn chunk
//
// The child counts WriteRecord / Close calls over the whole process (all store
// instances); the parent judges the run with the fault oracle of the strace layer.

import (
	"errors"
	"fmt"
	"os"
	"path/filepath"
	"strconv"
	"strings"
	"sync"

	"github.com/NethermindEth/juno/consensus/walstore"
	"github.com/cockroachdb/pebble/v2/record"
	pebblewal "github.com/cockroachdb/pebble/v2/wal"
)

// apiFault: the calls number When, When+Step, When+2*Step, ... (Step 0: only When) of
// the given kind of call fail.
type apiFault struct {
	Kind string `json:"kind"`
	When int    `json:"when"`
	Step int    `json:"step"`
}

func (f apiFault) String() string {
	s := fmt.Sprintf("api:%s:when=%d", f.Kind, f.When)
	if f.Step > 0 {
		s += "+" + strconv.Itoa(f.Step)
	}
	return s
}

func (f apiFault) hits(n int) bool {
	if n == f.When {
		return true
	}
	return f.Step > 0 && n > f.When && (n-f.When)%f.Step == 0
}

type apiInjector struct {
	mu     sync.Mutex
	faults []apiFault
	writes int
	closes int
	fired  func(string)
}

func (a *apiInjector) next(isClose bool) string {
	a.mu.Lock()
	defer a.mu.Unlock()
	n := 0
	if isClose {
		a.closes++
		n = a.closes
	} else {
		a.writes++
		n = a.writes
	}
	for _, f := range a.faults {
		if strings.HasPrefix(f.Kind, "close") == isClose && f.hits(n) {
			if a.fired != nil {
				a.fired(fmt.Sprintf("%s call=%d", f.Kind, n))
			}
			return f.Kind
		}
	}
	return ""
}

type faultyManager struct {
	pebblewal.Manager
	inj *apiInjector
	dir string
}

func (m faultyManager) Create(wn pebblewal.NumWAL, jobID int) (pebblewal.Writer, error) {
	w, err := m.Manager.Create(wn, jobID)
	if err != nil {
		return w, err
	}
	return &faultyWriter{inner: w, inj: m.inj, path: filepath.Join(m.dir, wn.String()+".log")}, nil
}

type faultyWriter struct {
	inner pebblewal.Writer
	inj   *apiInjector
	path  string
	size  int64 // file size after the last successful WriteRecord
}

var errInjected = errors.New("injected log-writer fault")

func (w *faultyWriter) WriteRecord(p []byte, opts pebblewal.SyncOptions, ref pebblewal.RefCount) (int64, error) {
	switch w.inj.next(false) {
	case "write":
		return 0, fmt.Errorf("write: %w", errInjected)
	case "sync-lost":
		if opts.Err != nil {
			*opts.Err = fmt.Errorf("sync: %w", errInjected)
		}
		if opts.Done != nil {
			opts.Done.Done()
		}
		return 0, nil
	case "sync":
		var (
			done     sync.WaitGroup
			innerErr error
		)
		done.Add(1)
		off, err := w.inner.WriteRecord(p, pebblewal.SyncOptions{Done: &done, Err: &innerErr}, ref)
		if err != nil {
			return off, err
		}
		done.Wait()
		if opts.Err != nil {
			*opts.Err = errors.Join(innerErr, fmt.Errorf("sync: %w", errInjected))
		}
		if opts.Done != nil {
			opts.Done.Done()
		}
		return off, nil
	}
	return w.inner.WriteRecord(p, opts, ref)
}

func (w *faultyWriter) Close() (int64, error) {
	before := int64(-1)
	if st, err := os.Stat(w.path); err == nil {
		before = st.Size()
	}
	off, err := w.inner.Close()
	switch w.inj.next(true) {
	case "close":
		err = errors.Join(err, fmt.Errorf("close: %w", errInjected))
	case "close-torn":
		// what Close appended (the end-of-log trailer) reached the file only partly
		if st, serr := os.Stat(w.path); serr == nil && before >= 0 && st.Size() > before+1 {
			_ = os.Truncate(w.path, before+(st.Size()-before)/2+1)
		}
		err = errors.Join(err, fmt.Errorf("close (final write torn): %w", errInjected))
	}
	return off, err
}

func (w *faultyWriter) Metrics() record.LogWriterMetrics { return w.inner.Metrics() }

// installAPIFaults wraps the manager of a freshly opened store.
func installAPIFaults(ws walStore, inj *apiInjector, walDir string) bool {
	return walstore.VerifWrapWALManager(ws, func(m pebblewal.Manager) pebblewal.Manager {
		return faultyManager{Manager: m, inj: inj, dir: walDir}
	})
}

func apiFaultNames(fs []apiFault) []string {
	var out []string
	for _, f := range fs {
		out = append(out, f.String())
	}
	return out
}

func isAPIFaultSpec(inject []string) bool {
	return len(inject) > 0 && strings.HasPrefix(inject[0], "api:")
}

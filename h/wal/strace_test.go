package vwal

// Layer 3 of C14: the script runs in a child process under strace. Three uses:
//  (a) reference run: full syscall trace (WAL paths + progress file) -> ordering
//      checker (watermark durable before any log file is unlinked) and the list
//      of state-changing WAL syscalls from which kill targets are chosen;
//  (b) kill runs: SIGKILL before the N-th write/openat/renameat/unlinkat/... on a
//      WAL path; the directory left behind is the crash image;
//  (c) fault runs: EIO / ENOSPC / EACCES injected into WAL syscalls; the child
//      keeps going, snapshots the directory whenever a call fails.

import (
	"bufio"
	"context"
	"encoding/json"
	"fmt"
	"math/rand/v2"
	"os"
	"os/exec"
	"path/filepath"
	"regexp"
	"runtime"
	"sort"
	"strconv"
	"strings"
	"sync"
	"testing"
	"time"

	"github.com/NethermindEth/juno/verifh/lib"
)

// ---------------------------------------------------------------- trace parsing

type sysEv struct {
	Pid      int
	Name     string
	Args     string
	Ret      string // "" while unfinished, "?" if the process died inside
	Injected bool
	Done     bool
}

var (
	reLine    = regexp.MustCompile(`^(\d+)\s+(\w+)\((.*)$`)
	reResumed = regexp.MustCompile(`^(\d+)\s+<\.\.\. (\w+) resumed>(.*)$`)
	reRet     = regexp.MustCompile(`\)\s+= (-?\d+|\?|0x[0-9a-f]+)(.*)$`)
	reFdPath  = regexp.MustCompile(`^\d+<([^>]*)>`)
	reQuoted  = regexp.MustCompile(`"((?:[^"\\]|\\.)*)"`)
)

// parseTrace returns the syscalls in completion order; syscalls that never
// completed (the process was killed inside / before them) come last with Done=false.
func parseTrace(path string) ([]sysEv, error) {
	f, err := os.Open(path)
	if err != nil {
		return nil, err
	}
	defer f.Close()
	var out []sysEv
	pending := map[int]*sysEv{}
	finish := func(ev *sysEv, rest string) {
		m := reRet.FindStringSubmatchIndex(rest)
		if m == nil {
			ev.Args += rest
			return
		}
		ev.Args += rest[:m[0]]
		ev.Ret = rest[m[2]:m[3]]
		ev.Injected = strings.Contains(rest[m[4]:m[5]], "INJECTED")
		ev.Done = ev.Ret != "?"
	}
	sc := bufio.NewScanner(f)
	sc.Buffer(make([]byte, 1<<20), 1<<24)
	for sc.Scan() {
		line := sc.Text()
		if m := reResumed.FindStringSubmatch(line); m != nil {
			pid, _ := strconv.Atoi(m[1])
			if ev := pending[pid]; ev != nil {
				delete(pending, pid)
				finish(ev, m[3])
				out = append(out, *ev)
			}
			continue
		}
		m := reLine.FindStringSubmatch(line)
		if m == nil {
			continue
		}
		pid, _ := strconv.Atoi(m[1])
		ev := &sysEv{Pid: pid, Name: m[2]}
		rest := m[3]
		if strings.HasSuffix(rest, "<unfinished ...>") {
			ev.Args = strings.TrimSuffix(rest, "<unfinished ...>")
			pending[pid] = ev
			continue
		}
		finish(ev, rest)
		if ev.Ret == "" || ev.Ret == "?" {
			pending[pid] = ev
			continue
		}
		out = append(out, *ev)
	}
	for _, ev := range pending {
		out = append(out, *ev)
	}
	return out, sc.Err()
}

func (e sysEv) fdPath() string {
	if m := reFdPath.FindStringSubmatch(e.Args); m != nil {
		return m[1]
	}
	return ""
}

func cUnescape(s string) string {
	var b []byte
	for i := 0; i < len(s); i++ {
		c := s[i]
		if c != '\\' || i+1 >= len(s) {
			b = append(b, c)
			continue
		}
		i++
		switch s[i] {
		case 'n':
			b = append(b, '\n')
		case 't':
			b = append(b, '\t')
		case 'r':
			b = append(b, '\r')
		case 'v':
			b = append(b, '\v')
		case 'f':
			b = append(b, '\f')
		case 'x':
			j := i + 1
			for j < len(s) && j < i+3 && strings.IndexByte("0123456789abcdefABCDEF", s[j]) >= 0 {
				j++
			}
			v, _ := strconv.ParseUint(s[i+1:j], 16, 8)
			b = append(b, byte(v))
			i = j - 1
		case '0', '1', '2', '3', '4', '5', '6', '7':
			j := i
			for j < len(s) && j < i+3 && s[j] >= '0' && s[j] <= '7' {
				j++
			}
			v, _ := strconv.ParseUint(s[i:j], 8, 16)
			b = append(b, byte(v))
			i = j - 1
		default:
			b = append(b, s[i])
		}
	}
	return string(b)
}

func (e sysEv) strings() []string {
	var out []string
	for _, m := range reQuoted.FindAllStringSubmatch(e.Args, -1) {
		out = append(out, cUnescape(m[1]))
	}
	return out
}

// target path of the syscall (fd path for fd calls, first path string otherwise).
func (e sysEv) path() string {
	switch e.Name {
	case "write", "pwrite64", "fsync", "fdatasync", "ftruncate", "sync_file_range", "close", "read", "pread64", "fstat", "fallocate":
		return e.fdPath()
	}
	if s := e.strings(); len(s) > 0 {
		return s[0]
	}
	return e.fdPath()
}

// mutating: the call changes what a later reader of the directory can see
// (or, for the sync family, what is durable).
func (e sysEv) mutating() bool {
	switch e.Name {
	case "write", "pwrite64", "fsync", "fdatasync", "ftruncate", "renameat", "renameat2", "rename", "unlinkat", "unlink", "mkdirat", "fallocate":
		return true
	case "openat":
		return strings.Contains(e.Args, "O_CREAT") || strings.Contains(e.Args, "O_TRUNC")
	}
	return false
}

// ---------------------------------------------------------------- running the child

type childResult struct {
	dir      string // scratch root (caller removes)
	base     string
	trace    []sysEv
	progress []progLine
	ended    bool // child wrote END
	timedOut bool
	apiFired int // faults injected at the log-writer interface ("F" lines of the progress file)
}

type progLine struct {
	Kind   string // C, R, S
	I      int
	Op     string
	Status string // ok / err
	View   string
	Msg    string
}

func parseProgress(path string) ([]progLine, bool) {
	b, err := os.ReadFile(path)
	if err != nil {
		return nil, false
	}
	var out []progLine
	ended := false
	for _, l := range strings.Split(string(b), "\n") {
		f := strings.SplitN(l, " ", 5)
		switch {
		case l == "END":
			ended = true
		case len(f) >= 3 && (f[0] == "C" || f[0] == "S"):
			i, _ := strconv.Atoi(f[1])
			out = append(out, progLine{Kind: f[0], I: i, Op: f[2]})
		case len(f) >= 4 && f[0] == "R":
			i, _ := strconv.Atoi(f[1])
			p := progLine{Kind: "R", I: i, Status: f[2], View: f[3]}
			if len(f) == 5 {
				p.Msg = f[4]
			}
			out = append(out, p)
		}
	}
	return out, ended
}

func selfBinary() string {
	if s := os.Getenv("VERIF_SELF"); s != "" {
		return s
	}
	s, _ := os.Executable()
	return s
}

// runChild executes the script in a child under strace. inject: strace -e inject
// expressions; traceProgress adds the progress file to the traced paths (only for
// runs without injection). snaps asks the child for a directory copy on every failed call.
func runChild(ops []op, inject []string, traceProgress, views, snaps bool, api ...apiFault) (*childResult, error) {
	root, err := os.MkdirTemp("", "c14k")
	if err != nil {
		return nil, err
	}
	res := &childResult{dir: root, base: filepath.Join(root, "base")}
	if err := os.MkdirAll(res.base, 0o755); err != nil {
		return res, err
	}
	job := childJob{Base: res.base, Progress: filepath.Join(root, "progress"), Views: views, Ops: ops, APIFaults: api}
	if snaps {
		job.MaxFail = 40
		job.SnapDir = filepath.Join(root, "snaps")
		os.MkdirAll(job.SnapDir, 0o755)
	}
	jb, _ := json.Marshal(job)
	jp := filepath.Join(root, "job.json")
	if err := os.WriteFile(jp, jb, 0o644); err != nil {
		return res, err
	}
	wd := walDirOf(res.base)
	nlogs := 8
	for _, o := range ops {
		if o.Kind == opOpen {
			nlogs++
		}
	}
	nlogs += len(ops) / 200 // rotations by cleanup and by failed appends
	if len(inject) > 0 {
		nlogs += 40
	}
	tracePath := filepath.Join(root, "trace")
	args := []string{"-f", "-y", "-s", "256", "--signal=none", "-o", tracePath, "-P", wd, "-P", filepath.Join(wd, wmName), "-P", filepath.Join(wd, wmTmpName)}
	for i := 1; i <= nlogs; i++ {
		args = append(args, "-P", filepath.Join(wd, logName(i)))
	}
	if traceProgress {
		args = append(args, "-P", job.Progress)
	}
	for _, in := range inject {
		args = append(args, "-e", "inject="+in)
	}
	args = append(args, selfBinary(), "-test.run", "^TestC14Child$", "-test.timeout", "0")
	ctx, cancel := context.WithTimeout(context.Background(), 5*time.Minute) // watchdog only (normal: ~1 s)
	defer cancel()
	cmd := exec.CommandContext(ctx, "strace", args...)
	cmd.Env = append(os.Environ(), "VERIF_C14_JOB="+jp)
	cmd.Dir = root
	out, runErr := cmd.CombinedOutput()
	if ctx.Err() != nil {
		res.timedOut = true
		return res, nil
	}
	res.trace, err = parseTrace(tracePath)
	if err != nil {
		return res, fmt.Errorf("strace produced no trace (%v; run error %v; output %s)", err, runErr, string(out))
	}
	res.progress, res.ended = parseProgress(job.Progress)
	if pb, err := os.ReadFile(job.Progress); err == nil {
		for _, l := range strings.Split(string(pb), "\n") {
			if strings.HasPrefix(l, "F ") {
				res.apiFired++
			}
		}
	}
	return res, nil
}

func parallel(n int, fn func(i int)) {
	var wg sync.WaitGroup
	ch := make(chan int)
	for w := 0; w < runtime.GOMAXPROCS(0); w++ {
		wg.Add(1)
		go func() {
			defer wg.Done()
			for i := range ch {
				fn(i)
			}
		}()
	}
	for i := 0; i < n; i++ {
		ch <- i
	}
	close(ch)
	wg.Wait()
}

// ---------------------------------------------------------------- ordering checker

type orderWitness struct {
	Script string   `json:"script"`
	Event  string   `json:"event"`
	Detail string   `json:"detail"`
	Tail   []string `json:"trace_before"`
}

// checkOrdering replays the reference trace: which entry heights went into which
// log file (from the call brackets in the traced progress file and the model),
// which watermark value is durable (tmp written+fsynced, renamed, directory
// fsynced), and demands at every unlink of a log file that the durable watermark
// covers every height indexed in that file.
func checkOrdering(r *lib.Run, caseIdx int, sc script, res *childResult) {
	wd := walDirOf(res.base)
	progPath := filepath.Join(res.dir, "progress")
	// heights added per flushing op, from the model
	added := map[int][]uint64{}
	m := &model{}
	for i, o := range sc.Ops {
		if o.Kind == opFlush || o.Kind == opClose {
			m.pending = append([]rec(nil), m.pending...)
			added[i] = m.commit()
		} else {
			m.apply(o)
		}
	}
	fileMax := map[string]uint64{}
	fileHas := map[string]bool{}
	curOp := -2
	var tmpContent []byte
	tmpSynced := false
	renamedW, haveRenamed, dirSyncedAfterRename := uint64(0), false, false
	durableW, haveDurable := uint64(0), false
	var recent []string
	fail := func(class, ev, detail string) {
		r.Violation("order:"+class, caseIdx, fmt.Sprintf("%s script, %s: %s", sc.Profile, ev, detail),
			orderWitness{Script: scriptString(sc.Ops, 60), Event: ev, Detail: detail, Tail: append([]string(nil), recent...)})
	}
	unlinks, renames := 0, 0
	for _, e := range res.trace {
		if !e.Done {
			continue
		}
		p := e.path()
		if p == progPath {
			if e.Name == "write" {
				if s := e.strings(); len(s) > 0 {
					f := strings.Fields(s[0])
					if len(f) >= 2 && f[0] == "C" {
						curOp, _ = strconv.Atoi(f[1])
					}
				}
			}
			continue
		}
		if !strings.HasPrefix(p, wd) {
			continue
		}
		if e.mutating() {
			recent = append(recent, fmt.Sprintf("%s(%s) = %s", e.Name, strings.TrimPrefix(shorten(e.Args, 120), wd), e.Ret))
			if len(recent) > 14 {
				recent = recent[1:]
			}
		}
		ok := !strings.HasPrefix(e.Ret, "-")
		bn := filepath.Base(p)
		switch e.Name {
		case "write":
			if !ok {
				continue
			}
			if _, isLog := logNum(bn); isLog {
				for _, h := range added[curOp] {
					fileHas[bn] = true
					if h > fileMax[bn] {
						fileMax[bn] = h
					}
				}
			}
			if bn == wmTmpName {
				if s := e.strings(); len(s) > 0 {
					tmpContent = append(tmpContent, s[0]...)
				}
				tmpSynced = false
			}
		case "openat":
			if bn == wmTmpName && ok && strings.Contains(e.Args, "O_TRUNC") {
				tmpContent = nil
				tmpSynced = false
			}
		case "fsync", "fdatasync":
			if !ok {
				continue
			}
			if bn == wmTmpName {
				tmpSynced = true
			}
			if p == wd && haveRenamed {
				dirSyncedAfterRename = true
				durableW, haveDurable = renamedW, true
			}
		case "renameat", "renameat2", "rename":
			s := e.strings()
			if !ok || len(s) < 2 || filepath.Base(s[0]) != wmTmpName || filepath.Base(s[1]) != wmName {
				continue
			}
			renames++
			const hdr = "juno-wal-prune-watermark-v1"
			if len(tmpContent) != len(hdr)+8 || string(tmpContent[:len(hdr)]) != hdr {
				fail("watermark-content-malformed-at-rename", "rename tmp->prune-watermark", fmt.Sprintf("tmp content %q", tmpContent))
				continue
			}
			if !tmpSynced {
				fail("watermark-renamed-before-tmp-fsync", "rename tmp->prune-watermark", "the temporary file had not been fsynced when it was renamed over the watermark")
			}
			w := uint64(0)
			for _, c := range tmpContent[len(hdr):] {
				w = w<<8 | uint64(c)
			}
			if haveRenamed && w < renamedW {
				fail("watermark-went-backwards", "rename tmp->prune-watermark", fmt.Sprintf("%d after %d", w, renamedW))
			}
			renamedW, haveRenamed, dirSyncedAfterRename = w, true, false
		case "unlinkat", "unlink":
			s := e.strings()
			if len(s) == 0 {
				continue
			}
			ub := filepath.Base(s[0])
			if _, isLog := logNum(ub); !isLog {
				continue
			}
			unlinks++
			if !fileHas[ub] {
				continue // no entry was ever indexed in this file
			}
			switch {
			case !haveDurable && !haveRenamed:
				fail("unlink-without-any-watermark", "unlink "+ub, fmt.Sprintf("file holds entries up to height %d and no watermark was ever published", fileMax[ub]))
			case haveRenamed && !dirSyncedAfterRename && (!haveDurable || durableW < fileMax[ub]):
				fail("unlink-before-watermark-dir-fsync", "unlink "+ub, fmt.Sprintf("watermark %d renamed but the directory was not fsynced before the unlink; file holds heights up to %d", renamedW, fileMax[ub]))
			case durableW < fileMax[ub]:
				fail("unlink-of-file-above-durable-watermark", "unlink "+ub, fmt.Sprintf("durable watermark %d, file holds entries up to height %d", durableW, fileMax[ub]))
			}
		}
	}
	r.Eval(1)
	r.Count("order_check_unlinks_seen", unlinks)
	r.Count("order_check_watermark_renames_seen", renames)
	r.Count("order_check_traces", 1)
}

func shorten(s string, n int) string {
	if len(s) > n {
		return s[:n] + "..."
	}
	return s
}

// ---------------------------------------------------------------- kill runs

type killTarget struct {
	script  int
	syscall string
	when    int
	refPos  int
	refDesc string
}

// mutatingSeq lists the state-changing WAL syscalls of a trace in order.
func mutatingSeq(res *childResult) []sysEv {
	wd := walDirOf(res.base)
	var out []sysEv
	for _, e := range res.trace {
		if e.mutating() && strings.HasPrefix(e.path(), wd) {
			out = append(out, e)
		}
	}
	return out
}

// chooseKillTargets: every syscall in the windows around watermark publication,
// rotation, file removal, tail repair and log creation, plus a seeded sample of
// the ordinary append/sync pairs.
func chooseKillTargets(rng *rand.Rand, si int, seq []sysEv, wd string, sample int) []killTarget {
	interesting := map[int]bool{}
	for i, e := range seq {
		bn := filepath.Base(e.path())
		special := e.Name != "write" && e.Name != "fdatasync"
		if bn == wmTmpName || bn == wmName {
			special = true
		}
		if special {
			for d := -3; d <= 3; d++ {
				if i+d >= 0 && i+d < len(seq) {
					interesting[i+d] = true
				}
			}
		}
	}
	for k := 0; k < sample && len(seq) > 0; k++ {
		interesting[rng.IntN(len(seq))] = true
	}
	idxs := make([]int, 0, len(interesting))
	for i := range interesting {
		idxs = append(idxs, i)
	}
	sort.Ints(idxs)
	var out []killTarget
	for _, i := range idxs {
		e := seq[i]
		n := 0
		for j := 0; j <= i; j++ {
			if seq[j].Name == e.Name && seq[j].Pid == e.Pid {
				n++
			}
		}
		out = append(out, killTarget{script: si, syscall: e.Name, when: n, refPos: i,
			refDesc: fmt.Sprintf("%s %s", e.Name, strings.TrimPrefix(e.path(), wd+"/"))})
	}
	return out
}

type killWitness struct {
	Profile  string   `json:"profile"`
	Inject   string   `json:"inject"`
	Position string   `json:"position"`
	InFlight string   `json:"in_flight_call"`
	Problem  *problem `json:"problem"`
	Script   string   `json:"script"`
	Tail     []string `json:"last_wal_syscalls"`
}

// replayProgress applies the child's returned calls to a model; returns the model
// after every returned call and, if a call was in flight, its index.
func replayProgress(sc script, prog []progLine) (m *model, inflight int, errs []progLine) {
	m = &model{}
	inflight = -2
	open := map[int]bool{}
	for _, p := range prog {
		switch p.Kind {
		case "C":
			open[p.I] = true
			inflight = p.I
		case "R":
			delete(open, p.I)
			inflight = -2
			if p.Status != "ok" {
				errs = append(errs, p)
				continue
			}
			if p.I >= 0 {
				m.apply(sc.Ops[p.I])
			}
		}
	}
	return m, inflight, errs
}

func runKill(r *lib.Run, caseIdx int, sc script, kt killTarget, seen *sync.Map) {
	// when=N counts per thread and the runtime may spread the calls over other
	// threads than in the reference run: if no thread reached N the child simply
	// finished; try again with a smaller N (the position reached is read back from
	// the trace in any case).
	var res *childResult
	var err error
	inj := ""
	for attempt, n := 0, kt.when; attempt < 3; attempt++ {
		inj = fmt.Sprintf("%s:signal=KILL:when=%d", kt.syscall, n)
		if res != nil {
			os.RemoveAll(res.dir)
		}
		res, err = runChild(sc.Ops, []string{inj}, false, false, false)
		r.Count("kill_child_runs", 1)
		if err != nil || res.timedOut || !res.ended || n == 1 {
			break
		}
		n = max(1, n*2/3)
	}
	if res != nil {
		defer os.RemoveAll(res.dir)
	}
	if err != nil {
		r.Inconclusive("strace-run-failed")
		r.Note("kill run failed: " + err.Error())
		return
	}
	if res.timedOut {
		r.Inconclusive("strace-child-watchdog")
		return
	}
	wd := walDirOf(res.base)
	seq := mutatingSeq(res)
	pos := 0
	var victim *sysEv
	var tail []string
	for i := range seq {
		if seq[i].Done {
			pos++
		} else if victim == nil {
			victim = &seq[i]
		}
		tail = append(tail, fmt.Sprintf("%s(%s) = %s", seq[i].Name, strings.TrimPrefix(shorten(seq[i].Args, 100), wd), seq[i].Ret))
	}
	if len(tail) > 12 {
		tail = tail[len(tail)-12:]
	}
	if res.ended || victim == nil {
		r.Count("kill_runs_where_no_thread_reached_N(child finished)", 1)
	}
	m, inflight, errs := replayProgress(sc, res.progress)
	if len(errs) > 0 {
		r.Violation("kill:call-fails-without-fault:"+errClass(fmt.Errorf("%s", errs[0].Msg)), caseIdx,
			fmt.Sprintf("call %d returned an error although nothing was injected: %s", errs[0].I, errs[0].Msg), nil)
		return
	}
	before := m.clone()
	before.dropPending()
	var after *model
	desc := "none"
	if inflight >= 0 {
		o := sc.Ops[inflight]
		desc = fmt.Sprintf("#%d %s", inflight, o)
		if o.Kind == opFlush || o.Kind == opClose {
			after = m.clone()
			after.commit()
		}
	} else if inflight == -1 {
		desc = "initial open"
	}
	which, p := checkDir(res.base, altsOf(before, after), "kill", "")
	r.Eval(1)
	r.Count("kill_images_checked", 1)
	vd := "end"
	if victim != nil {
		vd = victim.Name + " " + strings.TrimPrefix(victim.path(), wd+"/")
		r.Count("killed_before:"+victim.Name+":"+classifyPath(victim.path()), 1)
	}
	position := fmt.Sprintf("script%d after %d WAL syscalls, before %s", kt.script, pos, vd)
	if _, dup := seen.LoadOrStore(position, true); !dup {
		r.Case("kill:" + position)
		r.Count("distinct_kill_positions", 1)
	}
	if which >= 0 && after != nil {
		r.Count("kill_outcome_with_batch_in_flight:"+[]string{"batch-absent", "batch-present"}[which], 1)
	}
	if p != nil {
		im, _ := readImage(wd)
		p.Files = im.describe()
		r.Violation(p.Class, caseIdx, fmt.Sprintf("%s script, SIGKILL %s, in-flight call %s: %s", sc.Profile, position, desc, p.Brief),
			killWitness{Profile: sc.Profile, Inject: inj, Position: position, InFlight: desc, Problem: p, Script: scriptString(sc.Ops, 80), Tail: tail})
	}
}

func classifyPath(p string) string {
	bn := filepath.Base(p)
	if _, ok := logNum(bn); ok {
		return "log"
	}
	if bn == wmName || bn == wmTmpName {
		return bn
	}
	return "dir"
}

// ---------------------------------------------------------------- fault runs

type faultWitness struct {
	Profile string   `json:"profile"`
	Inject  []string `json:"inject"`
	Call    string   `json:"call"`
	Error   string   `json:"error"`
	Problem *problem `json:"problem"`
	Script  string   `json:"script"`
}

// runFault: errors injected into WAL syscalls. The parent follows the child's
// returns with a *set* of model states: a flush/close that reported failure either
// left its batch buffered with nothing on disk, or committed it as a whole (the
// error came from the cleanup after the commit), or - if the tail repair failed
// too - left the whole batch in the log unacknowledged, after which every further
// write must be refused. The running store's view (digest logged after every call)
// selects among them. Oracle: the view always matches a state; the directory
// copied at every failed call and the final directory reopen (without faults) to
// the disk content of a state of the set - never a partial batch, never a
// duplicate, never an unreadable log.
func runFault(r *lib.Run, caseIdx int, sc script, inject []string, api ...apiFault) {
	var straceInject []string
	if len(api) == 0 {
		straceInject = inject
	}
	res, err := runChild(sc.Ops, straceInject, false, true, true, api...)
	if res != nil {
		defer os.RemoveAll(res.dir)
	}
	if err != nil {
		r.Inconclusive("strace-run-failed")
		r.Note("fault run failed: " + err.Error())
		return
	}
	if res.timedOut {
		r.Inconclusive("fault-run-watchdog(hang?)")
		r.Note(fmt.Sprintf("fault run %v on %s script did not finish within the watchdog", inject, sc.Profile))
		return
	}
	if os.Getenv("VERIF_C14_DEBUG") != "" && sc.Profile == "plain" {
		var sb strings.Builder
		for _, p := range res.progress {
			if p.Kind == "R" && p.Status != "ok" {
				fmt.Fprintf(&sb, "  op %d %s: %s\n", p.I, sc.Ops[max(p.I, 0)].Kind, p.Msg)
			}
		}
		fmt.Printf("DEBUG plain %v:\n%s", inject, sb.String())
	}
	injected := 0
	for _, e := range res.trace {
		if e.Injected {
			injected++
			r.Count("faults_injected:"+e.Name+":"+classifyPath(e.path()), 1)
		}
	}
	if len(api) > 0 {
		injected = res.apiFired
		r.Count("log_writer_interface_faults_fired", res.apiFired)
		for _, f := range api {
			r.Count("log_writer_interface_fault_runs:"+f.Kind, 1)
		}
	}
	if injected == 0 {
		r.Count("fault_runs_where_nothing_was_hit", 1)
	}
	report := func(class, call, msg string, p *problem) {
		brief := fmt.Sprintf("%s script under %v, call %s", sc.Profile, inject, call)
		if msg != "" {
			brief += " (returned: " + shorten(msg, 160) + ")"
		}
		if p != nil {
			class = p.Class
			brief += ": " + p.Brief
		}
		r.Violation(class, caseIdx, brief,
			faultWitness{Profile: sc.Profile, Inject: inject, Call: call, Error: msg, Problem: p, Script: scriptString(sc.Ops, 80)})
	}
	// fstate: live = what the running store has committed + buffered; ghost = one
	// whole batch whose flush reported failure and whose bytes may nevertheless
	// have stayed in the log because the tail repair failed too (the store must
	// then refuse every further write, so a ghost is always the last thing on disk).
	type fstate struct {
		live  *model
		ghost []rec
		has   bool
	}
	disk := func(s *fstate) *model {
		d := s.live.clone()
		d.dropPending()
		if s.has {
			d.pending = append([]rec(nil), s.ghost...)
			d.commit()
		}
		return d
	}
	states := []*fstate{{live: &model{}}}
	storeOpen := false
	dedup := func(in []*fstate) []*fstate {
		seen := map[string]bool{}
		var out []*fstate
		for _, s := range in {
			// a state with an unacknowledged batch never accepts another write, so its
			// future depends only on its live side and on what its disk content is
			d := disk(s)
			k := viewDigest(s.live.view()) + fmt.Sprint(len(s.live.pending), s.live.w, s.has) + viewDigest(d.view()) + fmt.Sprint(d.w)
			if !seen[k] {
				seen[k] = true
				out = append(out, s)
			}
		}
		return out
	}
	diskAlts := func() []alt {
		var alts []alt
		for _, s := range states {
			d := disk(s)
			alts = append(alts, alt{fmt.Sprintf("state(pending=%d,unacknowledged-batch-on-disk=%v)", len(s.live.pending), s.has), d.view(), d.w})
		}
		return alts
	}
	failedCalls := 0
	for _, p := range res.progress {
		if p.Kind != "R" {
			continue
		}
		var o op
		if p.I >= 0 {
			o = sc.Ops[p.I]
		} else {
			o = op{Kind: opOpen}
		}
		call := fmt.Sprintf("#%d %s", p.I, o)
		okRet := p.Status == "ok"
		var next []*fstate
		switch o.Kind {
		case opSet, opDel:
			if !okRet {
				report("fault:buffering-call-fails", call, p.Msg, nil)
				return
			}
			for _, s := range states {
				s.live.apply(o)
			}
			next = states
		case opFlush, opClose:
			for _, s := range states {
				if s.has {
					// repair failed earlier: only a refusal is consistent with this state
					if !okRet || len(s.live.pending) == 0 {
						next = append(next, s)
					}
					continue
				}
				if !okRet {
					// (A) nothing of the batch on disk, batch still buffered
					next = append(next, &fstate{live: s.live.clone()})
					// (C) whole batch left in the log, not acknowledged, still buffered
					if len(s.live.pending) > 0 {
						next = append(next, &fstate{live: s.live.clone(), ghost: append([]rec(nil), s.live.pending...), has: true})
					}
				}
				// (B) / success: whole batch committed
				c := s.live.clone()
				c.commit()
				next = append(next, &fstate{live: c})
			}
			if o.Kind == opClose {
				storeOpen = false
				for _, s := range next {
					s.live.dropPending()
				}
			}
		case opOpen:
			storeOpen = okRet
			if !okRet {
				r.Count("fault_runs_open_failed_while_faults_armed", 1)
				next = states
			} else {
				for _, s := range states {
					next = append(next, &fstate{live: disk(s)}) // what is on disk is what the new instance has
				}
			}
		}
		states = dedup(next)
		if len(states) == 0 {
			report("fault:write-accepted-while-unacknowledged-batch-still-in-log", call, p.Msg, nil)
			return
		}
		if len(states) > 200 {
			r.Inconclusive("fault-state-set-too-large")
			r.Note(fmt.Sprintf("state set too large: %s script under %v at call %s", sc.Profile, inject, call))
			return
		}
		// the running store's view selects the states that are still possible
		if storeOpen && p.View != "-" {
			var keep []*fstate
			for _, s := range states {
				if viewDigest(s.live.view()) == p.View {
					keep = append(keep, s)
				}
			}
			r.Eval(1)
			if len(keep) == 0 {
				var legal []string
				for _, s := range states {
					legal = append(legal, viewDigest(s.live.view()))
				}
				report("", call, p.Msg, &problem{Class: "fault:live-view-illegal-after-" + o.Kind + "-" + p.Status,
					Brief: fmt.Sprintf("running store shows view %s; legal: %v", p.View, legal)})
				return
			}
			states = keep
		}
		if !okRet {
			failedCalls++
			r.Count("failed_calls:"+o.Kind, 1)
		}
		// directory copies: taken by the child at every failed call and after the next few
		// successful flush / close / open calls that follow a failure
		snap := filepath.Join(res.dir, "snaps", fmt.Sprintf("op%d", p.I))
		if _, err := os.Stat(snap); err == nil {
			alts := diskAlts()
			which, pr := checkDir(snap, alts, "fault-snapshot", "")
			r.Eval(1)
			if okRet {
				r.Count("fault_follow_up_snapshots_checked(after a successful call following a failure)", 1)
			} else {
				r.Count("fault_snapshots_checked", 1)
			}
			if which >= 0 && states[which].has {
				r.Count("fault_snapshots_showing_unacknowledged_whole_batch(repair failed)", 1)
			}
			if pr != nil {
				im, _ := readImage(walDirOf(snap))
				pr.Files = im.describe()
				if okRet {
					pr.Class = strings.Replace(pr.Class, "fault-snapshot:", "fault-follow-up-snapshot:", 1)
				}
				report("", call, p.Msg, pr)
				return
			}
			// the copy shows what is on disk right now: keep the states that agree
			observed := disk(states[which]).view()
			var keep []*fstate
			for _, s := range states {
				if equalViews(disk(s).view(), observed) {
					keep = append(keep, s)
				}
			}
			states = keep
		}
	}
	if !res.ended {
		r.Count("fault_runs_child_died", 1)
	}
	for _, s := range states {
		s.live.dropPending()
	}
	states = dedup(states)
	_, pr := checkDir(res.base, diskAlts(), "fault-final", "")
	r.Eval(1)
	r.Count("fault_runs_checked", 1)
	if failedCalls > 0 {
		r.Case(fmt.Sprintf("fault:%s:%v:failed%d:final%s", sc.Profile, inject, failedCalls, viewDigest(states[0].live.view())))
	}
	if pr != nil {
		im, _ := readImage(walDirOf(res.base))
		pr.Files = im.describe()
		report("", "final reopen", "", pr)
	}
}

// ---------------------------------------------------------------- driver

func straceScripts(r *lib.Run) []script {
	var out []script
	n := r.N(6, 30)
	for i := 0; i < n; i++ {
		rng := lib.Rng("C14/strace-script", uint64(i))
		switch i % 6 {
		case 0:
			out = append(out, genDriver(rng, 258+rng.IntN(10), true))
		case 1:
			out = append(out, genDriver(rng, 515+rng.IntN(10), true))
		case 2:
			out = append(out, genMix(rng))
		case 3:
			out = append(out, genDriver(rng, 3+rng.IntN(10), false))
		case 4:
			sc := genDriver(rng, 258+rng.IntN(6), true)
			// a reopen right after the cleanup: recovery with watermark + rotated files
			sc.Ops = append(sc.Ops, op{Kind: opOpen}, op{Kind: opSet, E: &entrySpec{Kind: eStart, H: 100000, Tag: 999999}}, op{Kind: opClose})
			out = append(out, sc)
		default:
			out = append(out, genBig(rng))
		}
	}
	// plain scripts: a few live heights, a flush after every one or two entries, no prune, a
	// reopen near the end - everything written stays live, so whatever a failed flush and its
	// retry do to earlier batches of the same log file is visible
	for i := 0; i < r.N(2, 8); i++ {
		rng := lib.Rng("C14/strace-plain", uint64(i))
		g := &gen{rng: rng}
		base := uint64(10 + rng.IntN(1000))
		for k := 0; k < 14+rng.IntN(10); k++ {
			g.entryKind(base+uint64(rng.IntN(3)), pick(rng, eStart, eProp, ePrevote, ePrecomm, eTimeout), int64(rng.IntN(3)))
			if rng.IntN(3) > 0 {
				g.add(opFlush)
			}
			if k == 9 && rng.IntN(3) == 0 {
				g.reopen()
			}
		}
		g.add(opFlush)
		g.reopen()
		g.entryKind(base+3, eStart, 0)
		g.add(opClose)
		out = append(out, script{Profile: "plain", Ops: g.ops})
	}
	return out
}

func straceLayer(r *lib.Run, t *testing.T) {
	if _, err := exec.LookPath("strace"); err != nil {
		r.Note("strace not found: syscall-boundary kills, fault injection and the ordering checker were skipped")
		r.Inconclusive("strace-missing")
		return
	}
	scripts := straceScripts(r)
	refs := make([]*childResult, len(scripts))
	var targets []killTarget
	var mu sync.Mutex
	perScriptSample := 8
	if !r.Quick() {
		perScriptSample = 60
	}
	// (a) reference runs: ordering check + kill target selection
	parallel(len(scripts), func(i int) {
		res, err := runChild(scripts[i].Ops, nil, true, false, false)
		if err != nil || res.timedOut || !res.ended {
			r.Inconclusive("strace-reference-run-failed")
			if err != nil {
				r.Note("reference run: " + err.Error())
			}
			if res != nil {
				os.RemoveAll(res.dir)
			}
			return
		}
		refs[i] = res
		checkOrdering(r, 200000+i, scripts[i], res)
		// the un-injected run must of course end in the model's final state
		m, _, errs := replayProgress(scripts[i], res.progress)
		if len(errs) > 0 {
			r.Violation("api:call-fails-without-fault:"+errClass(fmt.Errorf("%s", errs[0].Msg)), 200000+i, errs[0].Msg, nil)
		} else if _, p := checkDir(res.base, altsOf(m, nil), "traced-run-final", ""); p != nil {
			r.Violation(p.Class, 200000+i, p.Brief, p)
		}
		seq := mutatingSeq(res)
		r.Count("reference_wal_syscalls", len(seq))
		kt := chooseKillTargets(lib.Rng("C14/kill-targets", uint64(i)), i, seq, walDirOf(res.base), perScriptSample)
		mu.Lock()
		targets = append(targets, kt...)
		mu.Unlock()
		os.RemoveAll(res.dir)
	})
	sort.Slice(targets, func(a, b int) bool {
		if targets[a].script != targets[b].script {
			return targets[a].script < targets[b].script
		}
		return targets[a].refPos < targets[b].refPos
	})
	r.Count("kill_targets_before_cap", len(targets))
	maxKills := r.N(140, 2500)
	if len(targets) > maxKills {
		// keep a seeded subset, spread over scripts
		rng := lib.Rng("C14/kill-subset", 0)
		rng.Shuffle(len(targets), func(a, b int) { targets[a], targets[b] = targets[b], targets[a] })
		targets = targets[:maxKills]
	}
	r.Count("kill_targets", len(targets))
	// (b) kill runs
	var seen sync.Map
	r.Cases(len(targets), 0, func(k int) {
		runKill(r, k, scripts[targets[k].script], targets[k], &seen)
	})
	// (c) fault runs
	type faultJob struct {
		script int
		inject []string
	}
	var fjobs []faultJob
	for i := range scripts {
		rng := lib.Rng("C14/faults", uint64(i))
		specs := [][]string{
			{fmt.Sprintf("fdatasync:error=EIO:when=%d", 1+rng.IntN(6))},
			{fmt.Sprintf("fdatasync:error=EIO:when=%d", 2+rng.IntN(200))},
			{fmt.Sprintf("write:error=ENOSPC:when=%d", 1+rng.IntN(8))},
			{fmt.Sprintf("write:error=ENOSPC:when=%d", 2+rng.IntN(250))},
			{fmt.Sprintf("write:error=ENOSPC:when=%d+", 3+rng.IntN(30))},
			{fmt.Sprintf("fdatasync:error=EIO:when=%d+%d", 2+rng.IntN(5), 3+rng.IntN(9))},
			{fmt.Sprintf("fsync:error=EIO:when=%d", 1+rng.IntN(4))},
			{fmt.Sprintf("fdatasync:error=EIO:when=%d", 1+rng.IntN(20)), "ftruncate:error=EIO:when=1"},
			{fmt.Sprintf("fdatasync:error=EIO:when=%d", 1+rng.IntN(20)), "fsync:error=EIO:when=1+"},
			{fmt.Sprintf("openat:error=EIO:when=%d", 3+rng.IntN(12))},
			{"renameat:error=EIO:when=1"},
			{"unlinkat:error=EACCES:when=1"},
		}
		if scripts[i].Profile == "plain" {
			// one-shot failures at early, spread positions (a retry follows each of them)
			specs = nil
			for k := 0; k < 4; k++ {
				specs = append(specs, []string{fmt.Sprintf("write:error=ENOSPC:when=%d", 2+k*2+rng.IntN(2))},
					[]string{fmt.Sprintf("fdatasync:error=EIO:when=%d", 2+k*2+rng.IntN(2))})
			}
		} else if r.Quick() {
			// the watermark / cleanup path (openat + renameat of the watermark, unlinkat of obsolete
			// files) only exists in scripts with more than 256 prunes: there its three faults are
			// always injected; the rest is a seeded sample
			pruneHeavy := i%6 == 0 || i%6 == 1 || i%6 == 4
			var keep [][]string
			if pruneHeavy {
				keep = append(keep, specs[9:]...)
			}
			rest := specs[:9]
			if !pruneHeavy {
				rest = specs
			}
			rng.Shuffle(len(rest), func(a, b int) { rest[a], rest[b] = rest[b], rest[a] })
			specs = append(keep, rest[:8-len(keep)]...)
		}
		for _, s := range specs {
			fjobs = append(fjobs, faultJob{i, s})
		}
	}
	r.Count("fault_runs", len(fjobs))
	r.Cases(len(fjobs), 0, func(k int) {
		runFault(r, k, scripts[fjobs[k].script], fjobs[k].inject)
	})
	// (d) faults at the log-writer interface (apifault_test.go)
	type apiJob struct {
		script int
		faults []apiFault
	}
	var ajobs []apiJob
	for i := range scripts {
		rng := lib.Rng("C14/api-faults", uint64(i))
		var specs [][]apiFault
		for _, kind := range []string{"write", "sync", "sync-lost"} {
			specs = append(specs,
				[]apiFault{{Kind: kind, When: 1 + rng.IntN(3)}},
				[]apiFault{{Kind: kind, When: 2 + rng.IntN(12)}},
				[]apiFault{{Kind: kind, When: 2 + rng.IntN(8), Step: 2 + rng.IntN(7)}})
			if len(scripts[i].Ops) > 600 {
				specs = append(specs, []apiFault{{Kind: kind, When: 250 + rng.IntN(30)}}) // around the 256th prune record
			}
		}
		specs = append(specs,
			[]apiFault{{Kind: "close-torn", When: 1 + rng.IntN(2)}},
			[]apiFault{{Kind: "close-torn", When: 1, Step: 1 + rng.IntN(2)}},
			[]apiFault{{Kind: "close", When: 1 + rng.IntN(3)}},
			[]apiFault{{Kind: "close", When: 1 + rng.IntN(2), Step: 1 + rng.IntN(3)}},
			[]apiFault{{Kind: pick(rng, "write", "sync", "sync-lost"), When: 2 + rng.IntN(6)}, {Kind: "close", When: 1 + rng.IntN(3)}},
			[]apiFault{{Kind: "write", When: 2 + rng.IntN(5)}, {Kind: "sync", When: 8 + rng.IntN(5)}, {Kind: "sync-lost", When: 14 + rng.IntN(5)}})
		if r.Quick() && scripts[i].Profile != "plain" {
			keep := [][]apiFault{specs[len(specs)-6], specs[len(specs)-5]} // the two torn-close specs always run
			rest := append(append([][]apiFault{}, specs[:len(specs)-6]...), specs[len(specs)-4:]...)
			rng.Shuffle(len(rest), func(a, b int) { rest[a], rest[b] = rest[b], rest[a] })
			specs = append(keep, rest[:5]...)
		}
		for _, sp := range specs {
			ajobs = append(ajobs, apiJob{i, sp})
		}
	}
	r.Count("log_writer_interface_fault_runs", len(ajobs))
	r.Cases(len(ajobs), 0, func(k int) {
		runFault(r, k, scripts[ajobs[k].script], apiFaultNames(ajobs[k].faults), ajobs[k].faults...)
	})
}

package vwal

import (
	"testing"

	"github.com/NethermindEth/juno/verifh/lib"
)

func straceLayer(r *lib.Run, t *testing.T) {}

package vwal

import (
	"encoding/json"
	"fmt"
	"hash/fnv"
	"os"
	"path/filepath"
	"strings"
	"testing"
)

// childJob is what the parent hands to the re-executed test binary.
type childJob struct {
	Base     string `json:"base"`     // data dir (the WAL lives in <base>/consensus-wal)
	Progress string `json:"progress"` // progress log (never a traced path in injection runs)
	SnapDir  string `json:"snap_dir"` // if set: copy of the WAL dir after every call that returned an error
	Views    bool   `json:"views"`    // log a digest of the running store's LoadAllEntries after every call
	MaxFail  int    `json:"max_fail"` // if >0: after that many failed calls skip to the final close
	// faults injected at the log-writer interface (apifault_test.go); counted over the whole process
	APIFaults []apiFault `json:"api_faults,omitempty"`
	Ops      []op   `json:"ops"`
}

func viewDigest(v []string) string {
	h := fnv.New64a()
	for _, s := range v {
		h.Write([]byte(s))
		h.Write([]byte{0})
	}
	return fmt.Sprintf("%d:%016x", len(v), h.Sum64())
}

func oneLine(s string) string {
	return strings.ReplaceAll(strings.ReplaceAll(s, "\n", " | "), "\r", "")
}

// TestC14Child runs a script against the real store and reports every call and
// return through the progress file: "C <i> <op>" before, "R <i> ok|err <view> <msg>" after.
func TestC14Child(t *testing.T) {
	jp := os.Getenv("VERIF_C14_JOB")
	if jp == "" {
		t.Skip("child only")
	}
	raw, err := os.ReadFile(jp)
	if err != nil {
		t.Fatal(err)
	}
	var job childJob
	if err := json.Unmarshal(raw, &job); err != nil {
		t.Fatal(err)
	}
	pf, err := os.OpenFile(job.Progress, os.O_CREATE|os.O_APPEND|os.O_WRONLY, 0o644)
	if err != nil {
		t.Fatal(err)
	}
	defer pf.Close()
	say := func(format string, a ...any) {
		if _, err := pf.WriteString(fmt.Sprintf(format, a...) + "\n"); err != nil {
			os.Exit(3)
		}
	}
	var ws walStore
	var inj *apiInjector
	if len(job.APIFaults) > 0 {
		inj = &apiInjector{faults: job.APIFaults, fired: func(what string) { say("F %s", what) }}
	}
	view := func() string {
		if !job.Views || ws == nil {
			return "-"
		}
		v, err := loadView(ws)
		if err != nil {
			return "loaderr"
		}
		return viewDigest(v)
	}
	snap := func(i int) {
		if job.SnapDir == "" {
			return
		}
		// the copy itself runs under the fault injector (its opens and reads of the WAL files are
		// traced paths too): a copy that met an error is discarded, never judged
		top := filepath.Join(job.SnapDir, fmt.Sprintf("op%d", i))
		dst := filepath.Join(top, "consensus-wal")
		ok := os.MkdirAll(dst, 0o755) == nil
		ents, err := os.ReadDir(walDirOf(job.Base))
		ok = ok && err == nil
		for _, e := range ents {
			if !ok {
				break
			}
			ok = copyFile(filepath.Join(dst, e.Name()), filepath.Join(walDirOf(job.Base), e.Name())) == nil
		}
		if !ok {
			os.RemoveAll(top)
			say("X %d snapshot-discarded", i)
		}
	}
	ops := append([]op{{Kind: opOpen}}, job.Ops...)
	failures := 0
	// after a failed call the directory is also copied after each of the next few successful
	// flush / close / open calls: what a retry leaves on disk is judged, not only what the
	// failure itself left
	followUps := 0
	for k, o := range ops {
		i := k - 1
		if job.MaxFail > 0 && failures >= job.MaxFail && !(k == len(ops)-1 && o.Kind == opClose) {
			continue
		}
		if ws == nil && o.Kind != opOpen {
			say("S %d %s", i, o.Kind)
			continue
		}
		say("C %d %s", i, o.Kind)
		var err error
		switch o.Kind {
		case opSet:
			err = ws.SetWALEntry(o.E.build())
		case opDel:
			err = ws.DeleteWALEntries(typesHeight(o.H))
		case opFlush:
			err = ws.Flush()
		case opClose:
			err = ws.Close()
			ws = nil
		case opOpen:
			ws, err = openStore(job.Base)
			if err != nil {
				ws = nil
			} else if inj != nil && !installAPIFaults(ws, inj, walDirOf(job.Base)) {
				say("X %d api-fault-wrapper-not-installed", i)
				os.Exit(4)
			}
		}
		if err != nil {
			failures++
			followUps = 4
			snap(i)
			say("R %d err %s %s", i, view(), oneLine(err.Error()))
			continue
		}
		if followUps > 0 && (o.Kind == opFlush || o.Kind == opClose || o.Kind == opOpen) {
			followUps--
			snap(i)
		}
		say("R %d ok %s", i, view())
	}
	say("END")
}

package vwal

import (
	"encoding/binary"
	"fmt"
	"math/rand/v2"
	"os"
	"regexp"
	"strings"
	"sync"
	"testing"
	"time"

	"github.com/NethermindEth/juno/verifh/lib"
)

// ---------------------------------------------------------------- image oracle

// alt is one legal outcome of reopening a crash image.
type alt struct {
	name string
	view []string
	w    uint64
}

func altsOf(before, after *model) []alt {
	a := []alt{{"flushed-batches-only", before.view(), before.w}}
	if after != nil {
		a = append(a, alt{"flushed+in-flight-batch", after.view(), after.w})
	}
	return a
}

type problem struct {
	Class string   `json:"class"`
	Brief string   `json:"brief"`
	Got   []string `json:"got,omitempty"`
	Want  []string `json:"want,omitempty"`
	Files string   `json:"files"`
}

var (
	rePath = regexp.MustCompile(`/[^\s:"]+`)
	reNum  = regexp.MustCompile(`\d+`)
)

// errClass turns an error text into a stable classifier (no paths, no numbers).
func errClass(err error) string {
	s := rePath.ReplaceAllString(err.Error(), "<p>")
	s = reNum.ReplaceAllString(s, "N")
	s = strings.ReplaceAll(s, "\n", "; ")
	if len(s) > 90 {
		s = s[:90]
	}
	return s
}

func trunc(v []string, n int) []string {
	if len(v) <= n {
		return v
	}
	out := append([]string(nil), v[:n]...)
	return append(out, fmt.Sprintf("...(%d entries)", len(v)))
}

const probeHeight = uint64(1) << 62

// checkImage is the oracle applied to every crash image: the store must open,
// LoadAllEntries must equal one of the legal outcomes, and the recovered log
// must stay usable: append+flush+close must work and a second reopen must return
// the same entries plus the appended one (this is what notices an untruncated
// torn tail or a recovery that left files in an unreadable state).
func checkImage(im image, alts []alt, src string) (matched int, p *problem) {
	base, err := os.MkdirTemp(imageScratch(), "c14img")
	if err != nil {
		panic(err)
	}
	defer os.RemoveAll(base)
	if err := im.materialise(base); err != nil {
		panic(err)
	}
	return checkDir(base, alts, src, im.describe())
}

func checkDir(base string, alts []alt, src, files string) (matched int, p *problem) {
	ws, err := openStore(base)
	if err != nil {
		return -1, &problem{Class: src + ":reopen-fails:" + errClass(err), Brief: "NewTendermintWALStore on the crash image failed: " + err.Error(), Files: files}
	}
	got, err := loadView(ws)
	if err != nil {
		ws.Close()
		return -1, &problem{Class: src + ":load-fails:" + errClass(err), Brief: "LoadAllEntries on the crash image failed: " + err.Error(), Files: files}
	}
	matched = -1
	for i, a := range alts {
		if equalViews(got, a.view) {
			matched = i
			break
		}
	}
	if matched < 0 {
		ws.Close()
		d := diffViews(got, alts[0].view)
		if len(alts) > 1 {
			d += "/" + diffViews(got, alts[1].view)
		}
		return -1, &problem{Class: src + ":reopen-illegal-entries:" + d,
			Brief: fmt.Sprintf("reopen returned %d entries; legal: %d (flushed batches)%s", len(got), len(alts[0].view),
				map[bool]string{true: fmt.Sprintf(" or %d (plus whole in-flight batch)", len(alts[len(alts)-1].view)), false: ""}[len(alts) > 1]),
			Got: trunc(got, 60), Want: trunc(alts[0].view, 60), Files: files}
	}
	// the recovered store must remain usable
	// (several legal outcomes can show the same entries and differ only in the
	// watermark, e.g. an in-flight batch that prunes everything: the probe entry is
	// then expected to survive or not, depending on which one the image really is)
	pe := entrySpec{Kind: ePrevote, H: probeHeight, R: 7, Tag: 0xfeedface}
	var wants [][]string
	for _, a := range alts {
		if !equalViews(got, a.view) {
			continue
		}
		w := append([]string(nil), a.view...)
		if probeHeight > a.w {
			w = append(w, render(pe.build()))
		}
		wants = append(wants, w)
	}
	want := wants[0]
	if err := ws.SetWALEntry(pe.build()); err != nil {
		ws.Close()
		return matched, &problem{Class: src + ":append-after-recovery-fails:" + errClass(err), Brief: err.Error(), Files: files}
	}
	if err := ws.Flush(); err != nil {
		ws.Close()
		return matched, &problem{Class: src + ":flush-after-recovery-fails:" + errClass(err), Brief: err.Error(), Files: files}
	}
	if err := ws.Close(); err != nil {
		return matched, &problem{Class: src + ":close-after-recovery-fails:" + errClass(err), Brief: err.Error(), Files: files}
	}
	ws2, err := openStore(base)
	if err != nil {
		return matched, &problem{Class: src + ":second-reopen-fails:" + errClass(err),
			Brief: "image recovered once, one batch appended and closed cleanly; the next NewTendermintWALStore failed: " + err.Error(), Files: files}
	}
	got2, err := loadView(ws2)
	ws2.Close()
	ok2 := false
	for _, w := range wants {
		if equalViews(got2, w) {
			ok2 = true
		}
	}
	if err != nil || !ok2 {
		return matched, &problem{Class: src + ":second-reopen-illegal-entries:" + diffViews(got2, want),
			Brief: fmt.Sprintf("after recovery + one appended batch the next reopen returned %d entries, expected %d", len(got2), len(want)),
			Got: trunc(got2, 60), Want: trunc(want, 60), Files: files}
	}
	return matched, nil
}

var imageScratchOnce = sync.OnceValue(func() string {
	// Crash images are re-created tens of thousands of times and each check syncs
	// several times; they live on tmpfs when there is one (the images are byte
	// copies, the file system they are replayed on does not matter to the oracle).
	// The scripts themselves and the strace children run on the default temp dir.
	if d := os.Getenv("VERIF_C14_IMAGE_DIR"); d != "" {
		return d
	}
	if st, err := os.Stat("/dev/shm"); err == nil && st.IsDir() {
		if d, err := os.MkdirTemp("/dev/shm", "c14probe"); err == nil {
			os.RemoveAll(d)
			return "/dev/shm"
		}
	}
	return ""
})

func imageScratch() string { return imageScratchOnce() }

// ---------------------------------------------------------------- log file structure (independent of pebble's reader)

const (
	blockSize = 32 * 1024
	chunkHdr  = 11
)

// recordEnds walks the recyclable-chunk framing of a log file and returns the
// offsets just past every complete record, stopping at the first chunk that is
// not a well-formed chunk of log number n (EOF trailer, zeroes, garbage).
func recordEnds(b []byte, n int) []int {
	var ends []int
	off := 0
	for {
		if blockSize-off%blockSize < chunkHdr {
			off += blockSize - off%blockSize
		}
		if off+chunkHdr > len(b) {
			return ends
		}
		l := int(binary.LittleEndian.Uint16(b[off+4 : off+6]))
		typ := b[off+6]
		ln := binary.LittleEndian.Uint32(b[off+7 : off+11])
		if typ < 5 || typ > 8 || ln != uint32(n) || off+chunkHdr+l > len(b) || (off%blockSize)+chunkHdr+l > blockSize {
			return ends
		}
		off += chunkHdr + l
		if typ == 5 || typ == 8 {
			ends = append(ends, off)
		}
	}
}

// ---------------------------------------------------------------- torn tails

type tornImage struct {
	im   image
	kind string
	desc string
}

// tornPlan describes the tail that one call wrote: file g grew from s0 to s1
// bytes; the batch ends at batchEnd (anything after it is the EOF trailer that
// rotation/close appends after the watermark was published).
type tornPlan struct {
	g                string
	s0, batchEnd, s1 int
	full             []byte
	before, after    image
}

func planTorn(before, after image) (*tornPlan, string) {
	var cand []string
	for n, b := range after {
		if _, ok := logNum(n); !ok {
			continue
		}
		old, had := before[n]
		if !had || len(old) != len(b) || string(old) != string(b) {
			cand = append(cand, n)
		}
	}
	if len(cand) == 0 {
		for n := range before {
			if _, ok := logNum(n); ok {
				if _, still := after[n]; !still {
					return nil, "written-file-may-be-removed"
				}
			}
		}
		return nil, "no-log-written"
	}
	if len(cand) > 1 {
		return nil, "several-logs-changed"
	}
	g := cand[0]
	old := before[g]
	full := after[g]
	if len(old) > len(full) || string(full[:len(old)]) != string(old) {
		return nil, "log-not-extended"
	}
	nums := after.logNums()
	gn, _ := logNum(g)
	if nums[len(nums)-1] != gn {
		return nil, "not-last-log"
	}
	p := &tornPlan{g: g, s0: len(old), s1: len(full), full: full, before: before, after: after}
	_, existed := before[g]
	if !existed {
		p.s0 = -1 // the file itself is new: "file exists but empty" is an image too
	}
	p.batchEnd = max(p.s0, 0)
	for _, e := range recordEnds(full, gn) {
		if e > p.batchEnd {
			p.batchEnd = e
		}
	}
	return p, ""
}

// base image for a tear at offset c: everything as before the call; once the
// batch is complete the watermark may already have been replaced.
func (p *tornPlan) baseAt(c int) image {
	im := p.before.clone()
	if c > p.batchEnd {
		if wm, ok := p.after[wmName]; ok {
			im[wmName] = wm
		}
	}
	return im
}

func (p *tornPlan) offsets(rng *rand.Rand, exhaustive bool, sample int) []int {
	lo := p.s0 + 1
	if p.s0 < 0 {
		lo = 0
	}
	if exhaustive {
		out := make([]int, 0, p.s1-lo+1)
		for c := lo; c <= p.s1; c++ {
			out = append(out, c)
		}
		return out
	}
	set := map[int]bool{}
	add := func(c int) {
		if c >= lo && c <= p.s1 {
			set[c] = true
		}
	}
	s := max(p.s0, 0)
	for _, d := range []int{0, 1, 4, 6, 7, 10, 11, 12, 23, 24} {
		add(s + d)
		add(p.batchEnd - d)
		add(p.batchEnd + d)
		add(p.s1 - d)
	}
	for b := (s/blockSize + 1) * blockSize; b < p.s1; b += blockSize {
		for _, d := range []int{-12, -11, -10, -1, 0, 1, 6, 10, 11, 12, 40} {
			add(b + d)
		}
	}
	for i := 0; i < sample; i++ {
		add(lo + rng.IntN(p.s1-lo+1))
	}
	out := make([]int, 0, len(set))
	for c := range set {
		out = append(out, c)
	}
	return out
}

func (p *tornPlan) images(rng *rand.Rand, exhaustive bool, sample int) []tornImage {
	var out []tornImage
	s := max(p.s0, 0)
	for _, c := range p.offsets(rng, exhaustive, sample) {
		// cut
		im := p.baseAt(c)
		im[p.g] = p.full[:c]
		out = append(out, tornImage{im, "cut", fmt.Sprintf("%s cut at %d of %d (batch %d..%d)", p.g, c, p.s1, s, p.batchEnd)})
		if c >= p.s1 {
			continue
		}
		// bit flip of byte c in the otherwise complete tail
		fl := append([]byte(nil), p.full...)
		fl[c] ^= 1 << uint(rng.IntN(8))
		im = p.baseAt(c)
		im[p.g] = fl
		out = append(out, tornImage{im, "bitflip", fmt.Sprintf("%s complete, bit flipped in byte %d (batch %d..%d)", p.g, c, s, p.batchEnd)})
		// zero fill from c to the end (file length as if the write had completed)
		if !exhaustive || c%2 == 0 || c == p.batchEnd || c == s+1 {
			z := append([]byte(nil), p.full[:c]...)
			z = append(z, make([]byte, p.s1-c)...)
			im = p.baseAt(c)
			im[p.g] = z
			out = append(out, tornImage{im, "zerofill", fmt.Sprintf("%s zero-filled from %d to %d", p.g, c, p.s1)})
		}
		// cut + garbage
		if !exhaustive || c%5 == 0 {
			gb := append([]byte(nil), p.full[:c]...)
			k := 1 + rng.IntN(40)
			for i := 0; i < k; i++ {
				gb = append(gb, byte(rng.Uint32()))
			}
			im = p.baseAt(c)
			im[p.g] = gb
			out = append(out, tornImage{im, "cut+garbage", fmt.Sprintf("%s cut at %d + %d random bytes", p.g, c, k)})
		}
	}
	// complete tail followed by zeroes / garbage (preallocation, stale blocks)
	toBlock := blockSize - p.s1%blockSize
	for _, k := range []int{1, 6, 7, 10, 11, 18, 19, 20, 100, 4096, toBlock, toBlock + 20} {
		z := append(append([]byte(nil), p.full...), make([]byte, k)...)
		im := p.baseAt(p.s1)
		im[p.g] = z
		out = append(out, tornImage{im, "zero-extended", fmt.Sprintf("%s complete + %d zero bytes", p.g, k)})
		gb := append([]byte(nil), p.full...)
		for i := 0; i < k; i++ {
			gb = append(gb, byte(rng.Uint32()))
		}
		im = p.baseAt(p.s1)
		im[p.g] = gb
		out = append(out, tornImage{im, "garbage-extended", fmt.Sprintf("%s complete + %d random bytes", p.g, k)})
	}
	return out
}

// ---------------------------------------------------------------- layers 1 + 2: in-process scripts

type caseWitness struct {
	Layer   string   `json:"layer"`
	Profile string   `json:"profile"`
	OpIndex int      `json:"op_index"`
	Op      string   `json:"op"`
	Image   string   `json:"image,omitempty"`
	Problem *problem `json:"problem"`
	Script  string   `json:"script"`
}

func runScript(r *lib.Run, idx int, sc script, tornBudget int) {
	rng := lib.Rng("C14/torn", uint64(idx))
	base, err := os.MkdirTemp("", "c14s")
	if err != nil {
		panic(err)
	}
	defer os.RemoveAll(base)
	wd := walDirOf(base)
	report := func(layer string, i int, img string, p *problem) {
		r.Violation(p.Class, idx, fmt.Sprintf("%s script #%d op %d (%s): %s", sc.Profile, idx, i, sc.Ops[i], p.Brief),
			caseWitness{Layer: layer, Profile: sc.Profile, OpIndex: i, Op: sc.Ops[i].String(), Image: img, Problem: p,
				Script: scriptString(sc.Ops[:min(len(sc.Ops), i+1)], 400)})
	}

	ws, err := openStore(base)
	if err != nil {
		r.Violation("api:open-fails-on-empty-dir", idx, err.Error(), nil)
		return
	}
	defer func() {
		if ws != nil {
			ws.Close()
		}
	}()
	m := &model{}
	prev, err := readImage(wd)
	if err != nil {
		panic(err)
	}

	// byte-exhaustive tail enumeration: the first write into a fresh log file, every
	// call that replaced the watermark, and a few more writes picked at random
	exLeft, exNew := 1, 1
	perOpSample := 6
	bad := 0
	for i, o := range sc.Ops {
		if bad >= 3 {
			return
		}
		before := m.clone()
		var opErr error
		switch o.Kind {
		case opSet:
			opErr = ws.SetWALEntry(o.E.build())
		case opDel:
			opErr = ws.DeleteWALEntries(typesHeight(o.H))
		case opFlush:
			opErr = ws.Flush()
		case opClose:
			opErr = ws.Close()
			ws = nil
		case opOpen:
			ws, opErr = openStore(base)
		}
		r.Count("api_calls", 1)
		if opErr != nil {
			report("api", i, "", &problem{Class: "api:" + o.Kind + "-fails-without-fault:" + errClass(opErr), Brief: opErr.Error()})
			return
		}
		m.apply(o)
		cur, err := readImage(wd)
		if err != nil {
			panic(err)
		}
		// live view (what the running store shows) follows the same model
		if ws != nil {
			got, err := loadView(ws)
			r.Eval(1)
			if err != nil || !equalViews(got, m.view()) {
				bad++
				report("live", i, "", &problem{Class: "live:view-differs-from-model:" + diffViews(got, m.view()),
					Brief: fmt.Sprintf("LoadAllEntries of the running store returned %d entries, model has %d", len(got), len(m.view())),
					Got:   trunc(got, 60), Want: trunc(m.view(), 60), Files: cur.describe()})
			}
		}
		touched := cur.fingerprint() != prev.fingerprint()
		if o.Kind == opSet || o.Kind == opDel {
			if touched {
				r.Count("disk_changed_by_buffering_call", 1)
			}
		}
		// layer 1: crash at this API boundary
		// long scripts: every boundary where the file set or the watermark changed,
		// every close/open, and every 6th of the ordinary flushes
		structural := len(cur) != len(prev) || string(prev[wmName]) != string(cur[wmName]) || o.Kind == opClose || o.Kind == opOpen
		selected := len(sc.Ops) <= 400 || structural || i < 30 || i%6 == 0
		if !selected {
			r.Count("api_boundaries_of_long_scripts_not_imaged(sampling)", 1)
		} else if touched || o.Kind == opFlush || o.Kind == opClose || o.Kind == opOpen || i%16 == 0 {
			_, p := checkImage(cur, altsOf(m, nil), "api-boundary")
			r.Eval(1)
			r.Count("images_api_boundary", 1)
			if p != nil {
				bad++
				report("api-boundary", i, cur.describe(), p)
			}
		} else {
			r.Count("api_boundaries_with_unchanged_disk(skipped)", 1)
		}
		// layer 1b: log files removed by this call come back (an unlink that was not yet
		// made durable by a directory fsync is rolled back by a power loss): the
		// watermark must keep their heights dead. Only files that were already
		// closed before the call are restored (their content is known to be final).
		if touched {
			var removed []string
			pn := prev.logNums()
			for _, k := range pn {
				if _, still := cur[logName(k)]; !still && k != pn[len(pn)-1] {
					removed = append(removed, logName(k))
				}
			}
			for mask := 1; mask < 1<<len(removed) && mask <= 7; mask++ {
				im := cur.clone()
				var names []string
				for b, n := range removed {
					if mask&(1<<b) != 0 {
						im[n] = prev[n]
						names = append(names, n)
					}
				}
				_, p := checkImage(im, altsOf(m, nil), "unlink-rollback")
				r.Eval(1)
				r.Count("images_unlink_rolled_back", 1)
				if p != nil {
					bad++
					report("unlink-rollback", i, "restored "+strings.Join(names, ",")+" | "+im.describe(), p)
					break
				}
			}
		}
		// layer 2: torn / corrupted tails of what this call wrote
		if (o.Kind == opFlush || o.Kind == opClose) && touched && selected {
			plan, why := planTorn(prev, cur)
			if plan == nil {
				r.Count("torn_skipped:"+why, 1)
			} else {
				ex := false
				if plan.s1-max(plan.s0, 0) <= 2500 {
					switch {
					case string(prev[wmName]) != string(cur[wmName]):
						ex = true
					case plan.s0 < 0 && exNew > 0:
						ex = true
						exNew--
					case exLeft > 0 && rng.IntN(4) == 0:
						ex = true
						exLeft--
					}
				}
				imgs := plan.images(rng, ex, perOpSample)
				if ex {
					r.Count("tails_enumerated_at_every_byte", 1)
					r.Count("tail_bytes_enumerated", plan.s1-max(plan.s0, 0))
				}
				if plan.batchEnd < plan.s1 {
					r.Count("tails_with_eof_trailer", 1)
				}
				if plan.s1/blockSize > max(plan.s0, 0)/blockSize {
					r.Count("tails_crossing_32k_block", 1)
				}
				alts := altsOf(before, m)
				for _, ti := range imgs {
					if !ex && tornBudget <= 0 {
						break
					}
					tornBudget--
					which, p := checkImage(ti.im, alts, "torn:"+ti.kind)
					r.Eval(1)
					r.Count("images_torn:"+ti.kind, 1)
					if which >= 0 {
						r.Count("torn_outcome:"+alts[which].name, 1)
					}
					if p != nil {
						bad++
						report("torn-tail", i, ti.desc+" | "+ti.im.describe(), p)
						break
					}
				}
			}
		}
		prev = cur
	}
	// structural key of the case
	nf, np, nr := 0, 0, 0
	for _, o := range sc.Ops {
		switch o.Kind {
		case opFlush:
			nf++
		case opDel:
			np++
		case opOpen:
			nr++
		}
	}
	r.Case(fmt.Sprintf("%s-ops%d-f%d-p%d-r%d-live%d-w%d-files%s", sc.Profile, len(sc.Ops), nf, np, nr, len(m.live), m.w, prev.describe()))
	r.Count("scripts:"+sc.Profile, 1)
	if len(prev.logNums()) > 0 && prev.logNums()[0] > 1 {
		r.Count("scripts_where_log_files_were_removed", 1)
	}
	if _, ok := prev[wmName]; ok {
		r.Count("scripts_with_watermark_file", 1)
	}
	if idx < 3 {
		r.Sample(map[string]any{"case": idx, "profile": sc.Profile, "ops": len(sc.Ops), "script_head": scriptString(sc.Ops, 25),
			"final_files": prev.describe(), "final_entries": len(m.live), "final_watermark": m.w})
	}
}

// heightZeroNote records (as a note, not a verdict) how the store treats height 0:
// the consensus service starts at chain height + 1 >= 1, so generated scripts use
// heights >= 1 only.
func heightZeroNote(r *lib.Run) {
	base, err := os.MkdirTemp("", "c14z")
	if err != nil {
		return
	}
	defer os.RemoveAll(base)
	ws, err := openStore(base)
	if err != nil {
		return
	}
	defer ws.Close()
	e := entrySpec{Kind: eStart, H: 0, Tag: 1}
	if ws.SetWALEntry(e.build()) != nil || ws.Flush() != nil {
		return
	}
	v, _ := loadView(ws)
	if len(v) == 0 {
		r.Note("observation (outside the workload): an entry at height 0 is accepted by SetWALEntry+Flush and silently dropped (the initial watermark 0 is inclusive); consensus heights start at 1, scripts use heights >= 1")
	}
}

func TestC14(t *testing.T) {
	r := lib.Start("C14", "fault_enumeration")
	t0 := time.Now()
	n := r.N(30, 300)
	tornPerScript := 260
	if !r.Quick() {
		tornPerScript = 1500
	}
	r.Cases(n, 0, func(idx int) {
		sc := genCase(lib.Rng("C14/script", uint64(idx)), idx)
		ts := time.Now()
		if os.Getenv("VERIF_DUMP_SCRIPT") != "" {
			fmt.Printf("script %d: %s\n", idx, scriptString(sc.Ops, 100000))
		}
		runScript(r, idx, sc, tornPerScript)
		fmt.Printf("script %d %s ops=%d took %.1fs (information only)\n", idx, sc.Profile, len(sc.Ops), time.Since(ts).Seconds())
	})
	heightZeroNote(r)
	t1 := time.Now()
	straceLayer(r, t)
	r.Note(fmt.Sprintf("timing (information only): in-process layers %.0fs, strace layers %.0fs", t1.Sub(t0).Seconds(), time.Since(t1).Seconds()))
	r.Assume("a crash image is a copy of the WAL directory: killing a process keeps the page cache, so loss of unsynced data is modelled only for the tail of the newest log file (cut / bit flip / zero fill / garbage) - multi-file power-loss reorderings are not explored")
	r.Assume("pebble's record framing (CRC32 per chunk) is trusted to reject a corrupted chunk; the harness re-derives record boundaries with its own 30-line parser")
	r.Assume("strace's signal=KILL injection stops the process before the N-th matching syscall of a thread takes effect; the reached position is read back from the trace")
	r.Finish("case = seeded script of SetWALEntry/Flush/DeleteWALEntries/Close/reopen (mix, driver-like, >256-prune cleanup, >32KiB batches) on the real walstore; "+
		"oracle on every crash image: NewTendermintWALStore succeeds, LoadAllEntries == sequential model of all returned flushes (optionally + the whole in-flight batch), "+
		"then append+flush+close+reopen still works. Images: directory copy at API boundaries; newest log cut at every byte / bit-flipped / zero-filled / garbage-extended; "+
		"directory left by SIGKILL before the N-th WAL syscall (strace) and after injected EIO/ENOSPC; plus syscall-order check watermark-rename+dir-fsync before unlink. "+
		"distinct = distinct (profile, op counts, final model, final file set) + distinct kill positions", 25)
}

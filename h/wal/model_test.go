package vwal

// Shared parts of the C14 harness: script operations, the sequential reference
// model of the consensus log, construction/rendering of WAL entries, helpers to
// open the real store on a directory and to copy/inspect WAL directories.

import (
	"fmt"
	"io"
	"math/rand/v2"
	"os"
	"path/filepath"
	"regexp"
	"sort"
	"strconv"
	"strings"

	"github.com/NethermindEth/juno/consensus/starknet"
	"github.com/NethermindEth/juno/consensus/types"
	"github.com/NethermindEth/juno/consensus/types/wal"
	"github.com/NethermindEth/juno/consensus/walstore"
	"github.com/NethermindEth/juno/core/felt"
	"github.com/NethermindEth/juno/db/memory"
)

// ---------------------------------------------------------------- script

const (
	opSet    = "set"
	opDel    = "del"
	opFlush  = "flush"
	opClose  = "close"
	opOpen   = "open"
	eStart   = 1
	eProp    = 2
	ePrevote = 3
	ePrecomm = 4
	eTimeout = 5
)

// entrySpec describes one WAL entry; Tag makes every entry of a script unique
// (it is spread over sender / id / value limbs) so that loss, duplication and
// reordering are all visible.
type entrySpec struct {
	Kind int    `json:"k"`
	H    uint64 `json:"h"`
	R    int64  `json:"r"`
	Tag  uint64 `json:"t"`
	Nil  bool   `json:"n,omitempty"` // nil value / nil id
}

type op struct {
	Kind string     `json:"op"`
	E    *entrySpec `json:"e,omitempty"`
	H    uint64     `json:"h,omitempty"` // prune height for del
}

func (o op) String() string {
	switch o.Kind {
	case opSet:
		return fmt.Sprintf("set(k%d h%d r%d #%d)", o.E.Kind, o.E.H, o.E.R, o.E.Tag)
	case opDel:
		return fmt.Sprintf("del(%d)", o.H)
	}
	return o.Kind
}

func scriptString(ops []op, limit int) string {
	var sb strings.Builder
	for i, o := range ops {
		if i >= limit {
			fmt.Fprintf(&sb, " ...(%d ops)", len(ops))
			break
		}
		if i > 0 {
			sb.WriteByte(' ')
		}
		sb.WriteString(o.String())
	}
	return sb.String()
}

type (
	walStore = walstore.TendermintWALStore[starknet.Value, starknet.Hash, starknet.Address]
	walEntry = wal.Entry[starknet.Value, starknet.Hash, starknet.Address]
)

func limbs(tag uint64, salt uint64) [4]uint64 {
	return [4]uint64{tag, tag*0x9e3779b97f4a7c15 + salt, ^tag, salt<<32 | (tag & 0xffff)}
}

func (e entrySpec) build() walEntry {
	hdr := types.MessageHeader[starknet.Address]{
		Height: types.Height(e.H), Round: types.Round(e.R), Sender: felt.Address(limbs(e.Tag, 1)),
	}
	switch e.Kind {
	case eStart:
		s := wal.Start(types.Height(e.H))
		return &s
	case eProp:
		p := wal.Proposal[starknet.Value, starknet.Hash, starknet.Address]{MessageHeader: hdr, ValidRound: types.Round(e.R - 1)}
		if !e.Nil {
			v := starknet.Value(limbs(e.Tag, 2))
			p.Value = &v
		}
		return &p
	case ePrevote:
		p := wal.Prevote[starknet.Hash, starknet.Address]{MessageHeader: hdr}
		if !e.Nil {
			id := felt.Hash(limbs(e.Tag, 3))
			p.ID = &id
		}
		return &p
	case ePrecomm:
		p := wal.Precommit[starknet.Hash, starknet.Address]{MessageHeader: hdr}
		if !e.Nil {
			id := felt.Hash(limbs(e.Tag, 4))
			p.ID = &id
		}
		return &p
	case eTimeout:
		t := wal.Timeout(types.Timeout{Step: types.Step(e.Tag % 3), Height: types.Height(e.H), Round: types.Round(e.R)})
		return &t
	}
	panic("bad entry kind")
}

// render gives the canonical text of an entry as returned by the store (every
// field, raw limbs), independent of the spec it was built from.
func render(e walEntry) string {
	p4 := func(p *[4]uint64) string {
		if p == nil {
			return "nil"
		}
		return fmt.Sprintf("%x.%x.%x.%x", p[0], p[1], p[2], p[3])
	}
	switch v := e.(type) {
	case *wal.Start:
		return fmt.Sprintf("start h%d", uint64(*v))
	case *wal.Proposal[starknet.Value, starknet.Hash, starknet.Address]:
		var val *[4]uint64
		if v.Value != nil {
			x := [4]uint64(*v.Value)
			val = &x
		}
		s := [4]uint64(v.Sender)
		return fmt.Sprintf("proposal h%d r%d s%s vr%d v%s", v.Height, v.Round, p4(&s), v.ValidRound, p4(val))
	case *wal.Prevote[starknet.Hash, starknet.Address]:
		var id *[4]uint64
		if v.ID != nil {
			x := [4]uint64(*v.ID)
			id = &x
		}
		s := [4]uint64(v.Sender)
		return fmt.Sprintf("prevote h%d r%d s%s id%s", v.Height, v.Round, p4(&s), p4(id))
	case *wal.Precommit[starknet.Hash, starknet.Address]:
		var id *[4]uint64
		if v.ID != nil {
			x := [4]uint64(*v.ID)
			id = &x
		}
		s := [4]uint64(v.Sender)
		return fmt.Sprintf("precommit h%d r%d s%s id%s", v.Height, v.Round, p4(&s), p4(id))
	case *wal.Timeout:
		return fmt.Sprintf("timeout h%d r%d step%d", v.Height, v.Round, v.Step)
	}
	return fmt.Sprintf("unknown %T", e)
}

// ---------------------------------------------------------------- model

// rec is one record of the abstract log: an entry or a prune-up-to-height.
type rec struct {
	prune bool
	h     uint64
	text  string // rendered entry
}

// model is the sequential reference: `live` is what a reopen must return after
// every batch whose flush returned; `pending` are the records handed to the
// store since then (the one possibly in-flight batch).
type model struct {
	live    []rec  // entry records, arrival order
	w       uint64 // every height <= w is pruned
	pending []rec
}

func (m *model) clone() *model {
	c := &model{w: m.w}
	c.live = append([]rec(nil), m.live...)
	c.pending = append([]rec(nil), m.pending...)
	return c
}

// apply hands one script op to the model. flush/close apply the pending batch
// record by record: an entry is added unless its height is already pruned; a
// prune record raises the watermark and drops everything at or below it.
func (m *model) apply(o op) {
	switch o.Kind {
	case opSet:
		m.pending = append(m.pending, rec{h: o.E.H, text: render(o.E.build())})
	case opDel:
		m.pending = append(m.pending, rec{prune: true, h: o.H})
	case opFlush, opClose:
		m.commit()
	}
}

// commit returns the heights of the entries that became live (indexed).
func (m *model) commit() (added []uint64) {
	for _, r := range m.pending {
		if r.prune {
			if r.h > m.w {
				m.w = r.h
				keep := m.live[:0:0]
				for _, l := range m.live {
					if l.h > m.w {
						keep = append(keep, l)
					}
				}
				m.live = keep
			}
			continue
		}
		if r.h > m.w {
			m.live = append(m.live, r)
			added = append(added, r.h)
		}
	}
	m.pending = nil
	return added
}

// dropPending models a process death: buffered records are gone.
func (m *model) dropPending() { m.pending = nil }

// view is what LoadAllEntries must return: by height, arrival order inside a height.
func (m *model) view() []string {
	l := append([]rec(nil), m.live...)
	sort.SliceStable(l, func(i, j int) bool { return l[i].h < l[j].h })
	out := make([]string, len(l))
	for i, r := range l {
		out[i] = r.text
	}
	return out
}

// viewIfCommitted is the view after the pending batch became durable as a whole.
func (m *model) viewIfCommitted() []string {
	c := m.clone()
	c.commit()
	return c.view()
}

func equalViews(a, b []string) bool {
	if len(a) != len(b) {
		return false
	}
	for i := range a {
		if a[i] != b[i] {
			return false
		}
	}
	return true
}

// diffViews explains how got differs from want (for witness classification).
func diffViews(got, want []string) string {
	ws := map[string]int{}
	for _, w := range want {
		ws[w]++
	}
	gs := map[string]int{}
	for _, g := range got {
		gs[g]++
	}
	missing, extra := 0, 0
	for k, n := range ws {
		if gs[k] < n {
			missing += n - gs[k]
		}
	}
	for k, n := range gs {
		if ws[k] < n {
			extra += n - ws[k]
		}
	}
	switch {
	case missing > 0 && extra > 0:
		return "missing+extra"
	case missing > 0:
		return "missing"
	case extra > 0:
		return "extra"
	}
	return "reordered"
}

// ---------------------------------------------------------------- real store

type pathDB struct {
	*memory.Database
	path string
}

func (p pathDB) Path() string { return p.path }

func walDirOf(base string) string { return walstore.DefaultWALDir(base) }

func openStore(base string) (walStore, error) {
	return walstore.NewTendermintWALStore[starknet.Value, starknet.Hash, starknet.Address](pathDB{memory.New(), base})
}

func loadView(ws walStore) ([]string, error) {
	out := []string{}
	for e, err := range ws.LoadAllEntries() {
		if err != nil {
			return out, err
		}
		out = append(out, render(e))
	}
	return out, nil
}

// ---------------------------------------------------------------- directory images

// image is the content of a WAL directory.
type image map[string][]byte

func readImage(walDir string) (image, error) {
	im := image{}
	ents, err := os.ReadDir(walDir)
	if err != nil {
		if os.IsNotExist(err) {
			return im, nil
		}
		return nil, err
	}
	for _, e := range ents {
		if e.IsDir() {
			continue
		}
		b, err := os.ReadFile(filepath.Join(walDir, e.Name()))
		if err != nil {
			if os.IsNotExist(err) {
				continue
			}
			return nil, err
		}
		im[e.Name()] = b
	}
	return im, nil
}

func (im image) clone() image {
	c := image{}
	for k, v := range im {
		c[k] = v // contents are never modified in place
	}
	return c
}

func (im image) materialise(base string) error {
	wd := walDirOf(base)
	if err := os.MkdirAll(wd, 0o755); err != nil {
		return err
	}
	for n, b := range im {
		if err := os.WriteFile(filepath.Join(wd, n), b, 0o644); err != nil {
			return err
		}
	}
	return nil
}

func (im image) describe() string {
	names := make([]string, 0, len(im))
	for n := range im {
		names = append(names, n)
	}
	sort.Strings(names)
	parts := make([]string, len(names))
	for i, n := range names {
		parts[i] = fmt.Sprintf("%s:%d", n, len(im[n]))
	}
	return strings.Join(parts, " ")
}

func (im image) fingerprint() string { return im.describe() }

var logNameRe = regexp.MustCompile(`^(\d{6,})\.log$`)

func logNum(name string) (int, bool) {
	m := logNameRe.FindStringSubmatch(name)
	if m == nil {
		return 0, false
	}
	n, err := strconv.Atoi(m[1])
	return n, err == nil
}

func (im image) logNums() []int {
	var out []int
	for n := range im {
		if k, ok := logNum(n); ok {
			out = append(out, k)
		}
	}
	sort.Ints(out)
	return out
}

func logName(n int) string { return fmt.Sprintf("%06d.log", n) }

const (
	wmName    = "prune-watermark"
	wmTmpName = "prune-watermark.tmp"
)

// ---------------------------------------------------------------- misc

func copyFile(dst, src string) error {
	in, err := os.Open(src)
	if err != nil {
		return err
	}
	defer in.Close()
	out, err := os.Create(dst)
	if err != nil {
		return err
	}
	if _, err := io.Copy(out, in); err != nil {
		out.Close()
		return err
	}
	return out.Close()
}

func pick[T any](rng *rand.Rand, xs ...T) T { return xs[rng.IntN(len(xs))] }

func typesHeight(h uint64) types.Height { return types.Height(h) }

package vrpc

import (
	"encoding/json"
	"fmt"
	"sort"
	"strings"
	"sync"
	"sync/atomic"

	"github.com/NethermindEth/juno/blockchain"
	"github.com/NethermindEth/juno/core"
	"github.com/NethermindEth/juno/core/felt"
	"github.com/NethermindEth/juno/db"
	"github.com/NethermindEth/juno/db/memory"
	"github.com/NethermindEth/juno/verifh/lib"
	"github.com/NethermindEth/juno/verifh/lib/chain"
)

// ---------------------------------------------------------------- deterministic interleavings

// readHook is installed as the Blockchain's public read listener
// (blockchain.WithListener): Juno calls OnRead at the start of every
// blockchain.Reader accessor. The hook counts the accessor calls one request makes
// and can run a writer step (store / revert / L1 head update) immediately before the
// k-th of them - i.e. exactly the schedule "the synchroniser commits between two reads
// of one RPC handler", produced deterministically and on one goroutine.
type readHook struct {
	level  string // "bc": count blockchain.Reader accessor calls; "db": count reads of the live key-value store
	count  int
	armAt  int
	action func()
	fired  bool
	busy   bool
	trace  []string
}

func (k *readHook) onRead(method string) {
	if k.level == "bc" {
		k.tick(method)
	}
}

func (k *readHook) onDB(op string) {
	if k.level == "db" {
		k.tick(op)
	}
}

func (k *readHook) tick(method string) {
	if k.busy {
		return
	}
	k.count++
	if len(k.trace) < 16 {
		k.trace = append(k.trace, method)
	}
	if k.action != nil && k.count == k.armAt {
		k.busy = true
		a := k.action
		k.action = nil
		a()
		k.fired = true
		k.busy = false
	}
}

func (k *readHook) reset(level string, armAt int, action func()) {
	k.level, k.count, k.armAt, k.action, k.fired, k.trace = level, 0, armAt, action, false, nil
}

// hookDB is the in-memory key-value store with the reads of the *live* store made
// observable (snapshots are copies and stay unhooked; batches created by Update / Write
// belong to the embedded store, so the writer's own reads inside a batch are not counted).
// With level "db" the writer step is committed between two individual database reads of
// one request - the granularity at which Juno's readers and its block writer really interleave.
type hookDB struct {
	*memory.Database
	hook *readHook
}

func (d *hookDB) Has(key []byte) (bool, error) {
	d.hook.onDB("Has")
	return d.Database.Has(key)
}

func (d *hookDB) Get(key []byte, cb func(value []byte) error) error {
	d.hook.onDB("Get")
	return d.Database.Get(key, cb)
}

func (d *hookDB) NewIterator(prefix []byte, withUpperBound bool) (db.Iterator, error) {
	d.hook.onDB("NewIterator")
	return d.Database.NewIterator(prefix, withUpperBound)
}

var _ db.KeyValueStore = (*hookDB)(nil)

// tearKind names how a response fails to be explained by either head.
func tearKind(rp *reply) string {
	if rp.Panic != "" {
		return "handler-panic"
	}
	if rp.Bad != "" {
		return "malformed"
	}
	if !rp.HasRes {
		switch rp.Code {
		case codeContractNotFound, codeBlockNotFound, codeInvalidTxIndex, codeClassNotFound, codeTxNotFound, codeNoBlocks:
			return "spurious-not-found" // the item exists in every head the node had
		case -32603:
			return "internal-error"
		}
		return fmt.Sprintf("spurious-error-%d", rp.Code)
	}
	return "mixes-two-heads"
}

// family groups the methods by the data they read (witness classifier component).
func family(m string) string {
	switch m {
	case "blockNumber", "blockHashAndNumber":
		return "head"
	case "getTransactionByHash", "getTransactionReceipt", "getTransactionStatus":
		return "tx"
	}
	if stateMethod(m) {
		return "state"
	}
	return "block"
}

// tornClass: responses that no head explains all stem from reads that are not isolated
// from a concurrent head change; they are classified by method family and by how the
// response is wrong, the method / block-id kind / interleaving point go into the witness.
func tornClass(q *rq, rp *reply) string {
	return fmt.Sprintf("torn:%s:%s", family(q.M), tearKind(rp))
}

// canonString: response with set-like arrays sorted (Juno fills state diffs from Go maps).
func canonString(rp *reply) string {
	if !rp.HasRes {
		return fmt.Sprintf("E%d/%s/%s", rp.Code, rp.ErrMsg, rp.Panic)
	}
	b, _ := json.Marshal(sortSets(deepCopyJSON(rp.Result)))
	return string(b)
}

// focusRequests: requests about the region a transition touches.
func focusRequests(h *history, a, b *snap) []*rq {
	r := h.rng
	var bids []*bid
	bids = append(bids, &bid{Kind: "latest"}, &bid{Kind: "l1_accepted"})
	seenH := map[felt.Felt]bool{}
	var txs []felt.Felt
	for _, s := range []*snap{a, b} {
		if len(s.blocks) == 0 {
			continue
		}
		t := s.height()
		bids = append(bids, &bid{Kind: "number", Num: uint64(t)})
		for _, n := range []int{t, t - 1} {
			if n < 0 {
				continue
			}
			hh := *s.blocks[n].Block.Hash
			if !seenH[hh] {
				seenH[hh] = true
				bids = append(bids, &bid{Kind: "hash", Hash: hh})
			}
		}
		for _, tx := range s.blocks[t].Block.Transactions {
			txs = append(txs, *tx.Hash())
		}
	}
	var out []*rq
	out = append(out, &rq{M: "blockNumber"}, &rq{M: "blockHashAndNumber"})
	for _, bd := range bids {
		out = append(out, &rq{M: "getBlockWithTxHashes", B: bd}, &rq{M: "getBlockWithTxs", B: bd}, &rq{M: "getBlockWithReceipts", B: bd},
			&rq{M: "getBlockTransactionCount", B: bd}, &rq{M: "getStateUpdate", B: bd},
			&rq{M: "getTransactionByBlockIdAndIndex", B: bd, Index: 0}, &rq{M: "getTransactionByBlockIdAndIndex", B: bd, Index: 1 + r.IntN(3)})
		for i := 0; i < 3; i++ {
			ad := pick(r, h.u.contracts)
			switch r.IntN(5) {
			case 0:
				out = append(out, &rq{M: "getNonce", B: bd, Addr: ad})
			case 1:
				out = append(out, &rq{M: "getClassHashAt", B: bd, Addr: ad})
			case 2:
				out = append(out, &rq{M: "getClassAt", B: bd, Addr: ad})
			case 3:
				out = append(out, &rq{M: "getClass", B: bd, Class: pick(r, h.u.classes)})
			default:
				out = append(out, &rq{M: "getStorageAt", B: bd, Addr: ad, Key: pick(r, h.u.slots)})
			}
		}
	}
	r.Shuffle(len(txs), func(i, j int) { txs[i], txs[j] = txs[j], txs[i] })
	for i := 0; i < len(txs) && i < 4; i++ {
		out = append(out, &rq{M: "getTransactionByHash", Tx: &txs[i]}, &rq{M: "getTransactionReceipt", Tx: &txs[i]}, &rq{M: "getTransactionStatus", Tx: &txs[i]})
	}
	return out
}

// runInterleave: for a handful of head transitions A -> B (extend, shrink, one-block
// reorg, L1 head up / down) every focus request is replayed with the transition
// committed before its 1st, 2nd, ... k-th blockchain read. The response must be the
// one the model gives for A or for B.
func runInterleave(r *lib.Run, gidx, idx int) {
	rng := lib.Rng("C08/interleave", uint64(idx))
	newState := idx%2 == 1
	hook := &readHook{}
	h, err := newHistory(r, gidx, "interleave", rng, newState, &hookDB{Database: memory.New(), hook: hook},
		blockchain.WithListener(&blockchain.SelectiveListener{OnReadCb: hook.onRead}))
	if err != nil {
		r.Violation("harness:cannot-build-rpc-env", gidx, err.Error(), nil)
		return
	}
	abandon := func(what string) {
		r.Count("histories_abandoned:"+what, 1)
		r.Inconclusive("history abandoned: " + what)
	}
	if err := h.grow(3 + rng.IntN(4)); err != nil {
		abandon("grow")
		return
	}
	ntrans := 4
	if !r.Quick() {
		ntrans = 8
	}
	for t := 0; t < ntrans; t++ {
		kind := []string{"extend", "shrink", "reorg", "l1-up", "l1-down"}[rng.IntN(5)]
		var apply, undo func() error
		switch kind {
		case "extend":
			blks, sts, err := h.generate(1)
			if err != nil {
				abandon("generate")
				return
			}
			apply = func() error { return h.store(blks[0], sts[0]) }
			undo = func() error { return h.revert(1) }
		case "shrink":
			if h.cur.Len() < 2 {
				continue
			}
			x, xs := h.cur.Tip(), h.cur.TipState()
			apply = func() error { return h.revert(1) }
			undo = func() error { return h.store(x, xs) }
		case "reorg":
			if h.cur.Len() < 2 {
				continue
			}
			x, xs := h.cur.Tip(), h.cur.TipState()
			// generate the competing block on the parent
			saved := h.cur
			h.cur = h.cur.Prefix(h.cur.Len() - 1)
			h.builder = nil
			blks, sts, err := h.generate(1)
			h.cur = saved
			h.builder = nil
			if err != nil {
				abandon("generate")
				return
			}
			apply = func() error {
				if err := h.revert(1); err != nil {
					return err
				}
				return h.store(blks[0], sts[0])
			}
			undo = func() error {
				if err := h.revert(1); err != nil {
					return err
				}
				return h.store(x, xs)
			}
		case "l1-up", "l1-down":
			// move the recorded L1 head across the tip
			hi, lo := uint64(h.cur.Len()-1), uint64(max(0, h.cur.Len()-2-rng.IntN(2)))
			from, to := lo, hi
			if kind == "l1-down" {
				from, to = hi, lo
			}
			if err := h.setL1(from); err != nil {
				abandon("set-l1-head")
				return
			}
			apply = func() error { return h.setL1(to) }
			undo = func() error { return h.setL1(from) }
		}
		nsteps := len(h.steps)
		a := h.snap("A")
		if err := apply(); err != nil {
			abandon(kind)
			return
		}
		b := h.snap("B")
		if err := undo(); err != nil {
			abandon("undo-" + kind)
			return
		}
		h.steps = append(h.steps[:nsteps], "transition "+kind)
		base := append([]string{}, h.steps...)
		reqs := focusRequests(h, a, b)
		r.Count("transitions:"+kind, 1)
		for qi, q := range reqs {
			w := q.wire()
			// one API version per request, rotating (the three handler sets differ in how they read)
			for _, ver := range []string{versions[(qi+t+idx)%len(versions)]} {
				if !xverComparable(ver, q) {
					continue // tag unknown to this version: no blockchain reads at all
				}
				// state reads go through a state reader that keeps reading the live store after the
				// accessor returned, and blockNumber / blockHashAndNumber are a single accessor call:
				// interleave those at the level of single database reads
				level := "bc"
				if stateMethod(q.M) || family(q.M) == "head" {
					level = "db"
				}
				r.Count("interleave_requests:"+ver+":"+level, 1)
				hook.reset(level, 0, nil)
				rp0 := h.env.call(ver, w)
				reads := hook.count
				r.Count("reads_per_request_total:"+level, reads)
				if m := check(a, ver, q, rp0); !m.ok() {
					// the quiescent answer is already wrong: that is the sequential mode's business
					r.Count("interleave_requests_skipped:quiescent_answer_already_wrong", 1)
					continue
				}
				quiescentB := "" // canonical form of Juno's own answer when the whole request runs on B (k = 1)
				for k := 1; k <= reads; k++ {
					var aerr error
					hook.reset(level, k, func() { aerr = apply() })
					rp := h.env.call(ver, w)
					fired, trace := hook.fired, append([]string{}, hook.trace...)
					hook.reset("", 0, nil)
					if aerr != nil {
						abandon(kind + "-inside-request")
						return
					}
					if fired {
						if err := undo(); err != nil {
							abandon("undo-" + kind)
							return
						}
						h.steps = append([]string{}, base...)
					}
					if !fired {
						r.Count("interleavings_not_reached", 1)
						continue
					}
					r.Eval(1)
					r.Count("interleavings_checked:"+level, 1)
					r.Count("interleavings_by_transition:"+kind, 1)
					r.Count("interleavings_by_method:"+q.M, 1)
					ma := check(a, ver, q, rp)
					if ma.ok() {
						r.Count("interleaved_response_matches:head-before", 1)
						continue
					}
					mb := check(b, ver, q, rp)
					if mb.ok() {
						r.Count("interleaved_response_matches:head-after", 1)
						continue
					}
					// A response that equals what Juno answers on a quiescent head B (or A) is not torn:
					// it is a plain wrong answer, which the sequential mode reports under its own class.
					if k == 1 {
						quiescentB = canonString(rp)
						r.Count("interleave_trials_skipped:quiescent_answer_on_B_already_wrong", 1)
						continue
					}
					if cs := canonString(rp); cs == quiescentB || cs == canonString(rp0) {
						r.Count("interleave_trials_skipped:equals_a_quiescent_answer", 1)
						continue
					}
					class := tornClass(q, rp)
					r.Count("torn_responses:"+q.M+":"+tearKind(rp), 1)
					pos := fmt.Sprintf("%s committed before %s read %d of %d (%s)", kind, map[string]string{"bc": "blockchain", "db": "database"}[level], k, reads, strings.Join(trace, ","))
					h.violation(class, fmt.Sprintf("%s %s: %s; response matches neither %s nor %s: vsA: %s | vsB: %s", ver, w.String(), pos, a.describe(), b.describe(),
						strings.Join(ma.list, "; "), strings.Join(mb.list, "; ")),
						witness{Snapshot: a.describe() + " -> " + b.describe(), Request: w.String(), Shape: pos, Versions: ver,
							Mismatches: append(append([]string{"against the head before:"}, ma.list...), append([]string{"against the head after:"}, mb.list...)...), Response: rp.short()})
				}
			}
		}
		// sometimes make the transition permanent so that later transitions start elsewhere
		if rng.IntN(2) == 0 {
			if err := apply(); err != nil {
				abandon(kind)
				return
			}
		}
	}
	r.Count("histories_interleave:"+backendName(newState), 1)
	r.Case(fmt.Sprintf("ilv/%v/%v", h.steps, newState))
	if idx < 1 {
		r.Sample(map[string]any{"case": idx, "mode": "interleave", "backend": backendName(newState), "steps": h.steps})
	}
}

// ---------------------------------------------------------------- real concurrency

// runConcurrent: reader goroutines issue requests while a writer goroutine stores,
// reverts, switches forks and moves the L1 head. Writer step i publishes the model
// snapshot it is about to create, then bumps `started`, performs the one atomic
// Blockchain operation, and bumps `finished`. A reader samples `finished` before the
// call (lo) and `started` after it (hi): every head the node can have exposed during
// the call is one of snapshots lo..hi, so the response must match one of them.
func runConcurrent(r *lib.Run, gidx, idx int) {
	rng := lib.Rng("C08/concurrent", uint64(idx))
	newState := idx%2 == 1
	h, err := newHistory(r, gidx, "concurrent", rng, newState, nil)
	if err != nil {
		r.Violation("harness:cannot-build-rpc-env", gidx, err.Error(), nil)
		return
	}
	abandon := func(what string) {
		r.Count("histories_abandoned:"+what, 1)
		r.Inconclusive("history abandoned: " + what)
	}
	// two branches sharing a prefix, generated up front
	const prefix, tail = 3, 4
	if err := h.grow(prefix); err != nil {
		abandon("grow")
		return
	}
	type branch struct {
		blks []*chain.Blk
		sts  []*chain.State
	}
	var branches []branch
	for i := 0; i < 2; i++ {
		blks, sts, err := h.generate(tail)
		if err != nil {
			abandon("generate")
			return
		}
		branches = append(branches, branch{blks, sts})
	}
	// requests: a fixed list drawn from the whole universe against the longest chain
	full := h.cur.Prefix(h.cur.Len())
	full.Blocks = append(full.Blocks, branches[0].blks...)
	full.States = append(full.States, branches[0].sts...)
	reqs := h.u.round(rng, newSnap(full, nil, "full"), 120)
	rng.Shuffle(len(reqs), func(i, j int) { reqs[i], reqs[j] = reqs[j], reqs[i] })

	nsteps := 60
	if !r.Quick() {
		nsteps = 200
	}
	var mu sync.Mutex
	snaps := []*snap{h.snap("S0")}
	var started, finished atomic.Int64
	var done atomic.Bool
	var wg sync.WaitGroup

	// writer script, decided up front from the rng (the schedule is the only nondeterminism)
	type wstep struct {
		kind string
		br   int
		l1   uint64
	}
	var script []wstep
	{
		height, cur := prefix, 0
		for len(script) < nsteps {
			switch k := rng.IntN(10); {
			case k < 2:
				script = append(script, wstep{kind: "l1", l1: uint64(rng.IntN(prefix + tail + 1))})
			case k < 6 && height < prefix+tail:
				if height == prefix {
					cur = rng.IntN(2)
				}
				script = append(script, wstep{kind: "store", br: cur})
				height++
			case height > prefix:
				script = append(script, wstep{kind: "revert"})
				height--
			}
		}
	}
	const readers = 4
	type obs struct {
		q      *rq
		ver    string
		rp     *reply
		lo, hi int
	}
	results := make([][]obs, readers)
	for g := 0; g < readers; g++ {
		wg.Add(1)
		go func(g int) {
			defer wg.Done()
			for i := g; !done.Load(); i += readers {
				q := reqs[i%len(reqs)]
				ver := versions[(i/len(reqs)+i)%len(versions)]
				if !xverComparable(ver, q) {
					continue
				}
				lo := int(finished.Load())
				rp := h.env.call(ver, q.wire())
				hi := int(started.Load())
				results[g] = append(results[g], obs{q, ver, rp, lo, hi})
			}
		}(g)
	}
	var werr error
	for i, st := range script {
		var apply func() error
		switch st.kind {
		case "l1":
			apply = func() error { return h.setL1(st.l1) }
		case "store":
			n := h.cur.Len() - prefix
			apply = func() error { return h.store(branches[st.br].blks[n], branches[st.br].sts[n]) }
		case "revert":
			apply = func() error { return h.revert(1) }
		}
		// model first: compute the snapshot this step leads to without touching the node
		next := nextSnap(h, st.kind, st.br, st.l1, func(n int) (*chain.Blk, *chain.State) { return branches[st.br].blks[n], branches[st.br].sts[n] }, prefix, i+1)
		mu.Lock()
		snaps = append(snaps, next)
		mu.Unlock()
		started.Store(int64(i + 1))
		if werr = apply(); werr != nil {
			break
		}
		finished.Store(int64(i + 1))
	}
	done.Store(true)
	wg.Wait()
	if werr != nil {
		abandon("writer-step")
		return
	}
	total, windows := 0, 0
	sigSeen := map[string]bool{}
	for g := range results {
		for _, o := range results[g] {
			total++
			if o.hi > o.lo {
				windows++
			}
			var first *mm
			okAt := -1
			for j := o.lo; j <= o.hi && j < len(snaps); j++ {
				m := check(snaps[j], o.ver, o.q, o.rp)
				if m.ok() {
					okAt = j
					break
				}
				if first == nil {
					first = m
				}
			}
			r.Eval(1)
			if okAt >= 0 {
				continue
			}
			w := o.q.wire()
			// Torn, or a plain wrong answer that a quiescent node gives as well? Ask a fresh quiescent
			// node holding each head of the window (once per kind of failure and case).
			sig := o.q.M + "/" + tearKind(o.rp) + "/" + first.kind
			if sigSeen[sig] {
				r.Count("concurrent_failing_responses_not_reclassified(same kind already reported)", 1)
				continue
			}
			sigSeen[sig] = true
			class := tornClass(o.q, o.rp)
			plain := -1
			for j := o.lo; j <= o.hi && j < len(snaps); j++ {
				qe, err := quiescentEnv(snaps[j], newState)
				if err != nil {
					continue
				}
				if canonString(qe.call(o.ver, w)) == canonString(o.rp) {
					plain = j
					break
				}
			}
			if plain >= 0 {
				class = h.classOf(o.q, h.u.shape(snaps[plain], o.q), check(snaps[plain], o.ver, o.q, o.rp).kind, nil)
			} else {
				r.Count("torn_responses:"+o.q.M+":"+tearKind(o.rp), 1)
			}
			h.violation(class, fmt.Sprintf("%s %s: response matches none of the heads %d..%d the node had during the call; vs %s: %s", o.ver, w.String(), o.lo, o.hi,
				snaps[o.lo].describe(), strings.Join(first.list, "; ")),
				witness{Snapshot: fmt.Sprintf("%s .. %s", snaps[o.lo].describe(), snaps[min(o.hi, len(snaps)-1)].describe()), Request: w.String(), Versions: o.ver,
					Shape: fmt.Sprintf("heads %d..%d", o.lo, o.hi), Mismatches: first.list, Response: o.rp.short()})
		}
	}
	r.Count("concurrent_responses", total)
	r.Count("concurrent_responses_overlapping_a_writer_step", windows)
	r.Count("concurrent_writer_steps", len(script))
	r.Count("histories_concurrent:"+backendName(newState), 1)
	if windows > 0 {
		kinds := []string{}
		for _, s := range script {
			kinds = append(kinds, s.kind)
		}
		sort.Strings(kinds)
		r.Case(fmt.Sprintf("conc/%d/%v/%s", idx, newState, h.cur.Tip().Block.Hash.String()))
	} else {
		r.Inconclusive("concurrent run without any overlapping response")
	}
	if idx < 1 {
		r.Sample(map[string]any{"case": idx, "mode": "concurrent", "backend": backendName(newState), "writer_steps": len(script), "readers": readers,
			"responses": total, "responses_overlapping_writer": windows})
	}
}

// quiescentEnv: a fresh node holding exactly snapshot s, with nothing going on.
func quiescentEnv(s *snap, newState bool) (*rpcEnv, error) {
	node := chain.NewMemNode(newState)
	for _, b := range s.blocks {
		if err := node.StoreBlk(b); err != nil {
			return nil, err
		}
	}
	if s.l1 != nil {
		n := *s.l1
		head := &core.L1Head{BlockNumber: n, BlockHash: chain.F(0x11110000 + n), StateRoot: chain.F(0x22220000 + n)}
		if err := node.BC.SetL1Head(head); err != nil {
			return nil, err
		}
	}
	return newEnv(node)
}

// nextSnap computes the model after a writer step without touching the node.
func nextSnap(h *history, kind string, br int, l1 uint64, blk func(n int) (*chain.Blk, *chain.State), prefix, i int) *snap {
	c := h.cur.Prefix(h.cur.Len())
	lp := h.l1
	switch kind {
	case "l1":
		lp = &l1
	case "store":
		b, s := blk(c.Len() - prefix)
		c.Blocks, c.States = append(c.Blocks, b), append(c.States, s)
	case "revert":
		c = c.Prefix(c.Len() - 1)
	}
	return newSnap(c, lp, fmt.Sprintf("S%d", i))
}

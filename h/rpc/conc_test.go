package vrpc

import (
	"fmt"
	"sort"
	"strings"
	"sync"
	"sync/atomic"

	"github.com/NethermindEth/juno/blockchain"
	"github.com/NethermindEth/juno/core"
	"github.com/NethermindEth/juno/core/felt"
	"github.com/NethermindEth/juno/db"
	"github.com/NethermindEth/juno/db/memory"
	"github.com/NethermindEth/juno/verifh/lib"
	"github.com/NethermindEth/juno/verifh/lib/chain"
)

// ---------------------------------------------------------------- deterministic interleavings

// readHook is installed as the Blockchain's public read listener
// (blockchain.WithListener): Juno calls OnRead at the start of every
// blockchain.Reader accessor. The hook counts the accessor calls one request makes
// and can run a writer step (store / revert / L1 head update) immediately before the
// k-th of them - i.e. exactly the schedule "the synchroniser commits between two reads
// of one RPC handler", produced deterministically and on one goroutine.
type readHook struct {
	level  string // "bc": count blockchain.Reader accessor calls; "db": count reads of the live key-value store
	count  int
	armAt  int
	action func()
	fired  bool
	busy   bool
	trace  []string
}

func (k *readHook) onRead(method string) {
	if k.level == "bc" {
		k.tick(method)
	}
}

func (k *readHook) onDB(op string) {
	if k.level == "db" {
		k.tick(op)
	}
}

func (k *readHook) tick(method string) {
	if k.busy {
		return
	}
	k.count++
	if len(k.trace) < 16 {
		k.trace = append(k.trace, method)
	}
	if k.action != nil && k.count == k.armAt {
		k.busy = true
		a := k.action
		k.action = nil
		a()
		k.fired = true
		k.busy = false
	}
}

func (k *readHook) reset(level string, armAt int, action func()) {
	k.level, k.count, k.armAt, k.action, k.fired, k.trace = level, 0, armAt, action, false, nil
}

// hookDB is the in-memory key-value store with the reads of the *live* store made
// observable (snapshots are copies and stay unhooked; batches created by Update / Write
// belong to the embedded store, so the writer's own reads inside a batch are not counted).
// With level "db" the writer step is committed between two individual database reads of
// one request - the granularity at which Juno's readers and its block writer really interleave.
type hookDB struct {
	*memory.Database
	hook *readHook
}

func (d *hookDB) Has(key []byte) (bool, error) {
	d.hook.onDB("Has")
	return d.Database.Has(key)
}

func (d *hookDB) Get(key []byte, cb func(value []byte) error) error {
	d.hook.onDB("Get")
	return d.Database.Get(key, cb)
}

func (d *hookDB) NewIterator(prefix []byte, withUpperBound bool) (db.Iterator, error) {
	d.hook.onDB("NewIterator")
	return d.Database.NewIterator(prefix, withUpperBound)
}

var _ db.KeyValueStore = (*hookDB)(nil)

// tearKind names how a response fails to be explained by any head (observation key).
func tearKind(rp *reply) string {
	if rp.Panic != "" {
		return "handler-panic"
	}
	if rp.Bad != "" {
		return "malformed"
	}
	if !rp.HasRes {
		switch rp.Code {
		case codeContractNotFound, codeBlockNotFound, codeInvalidTxIndex, codeClassNotFound, codeTxNotFound, codeNoBlocks:
			return "spurious-not-found" // the item exists in every head the node had
		case -32603:
			return "internal-error"
		}
		return fmt.Sprintf("spurious-error-%d", rp.Code)
	}
	return "mixes-two-heads"
}

// family groups the methods by the data they read (witness classifier component).
func family(m string) string {
	switch m {
	case "blockNumber", "blockHashAndNumber":
		return "head"
	case "getTransactionByHash", "getTransactionReceipt", "getTransactionStatus":
		return "tx"
	}
	if stateMethod(m) {
		return "state"
	}
	return "block"
}

// quiescentViolation reports a response that a node with nothing going on gives and the model
// rejects, under the sequential mode's class scheme.
func (h *history) quiescentViolation(s *snap, ver string, q *rq, rp *reply, m *mm) {
	w := q.wire()
	shape := h.u.shape(s, q)
	h.violation(h.classOf(q, shape, m.kind, nil), fmt.Sprintf("%s %s [%s] on quiescent %s: %s", ver, w.String(), shape, s.describe(), strings.Join(m.list, "; ")),
		witness{Snapshot: s.describe(), Request: w.String(), Shape: shape, Versions: ver, Mismatches: m.list, Response: rp.short()})
}

var tornNoted sync.Map // kind -> *atomic.Int32: keep the first two of each kind as notes

// observeTorn records a response that no head explains and that is wrong only because the
// head changed while the request was being served. Not a verdict: counted and sampled.
func (h *history) observeTorn(q *rq, ver string, rp *reply, where, span string, mismatches []string) {
	kind := family(q.M) + ":" + tearKind(rp)
	h.r.Count("observed_torn_responses:"+kind, 1)
	h.r.Count("observed_torn_responses_by_method:"+q.M+":"+tearKind(rp), 1)
	c, _ := tornNoted.LoadOrStore(kind, new(atomic.Int32))
	if c.(*atomic.Int32).Add(1) <= 2 {
		h.r.Note(fmt.Sprintf("observed torn response (not judged) [%s, %s mode, %s backend] %s %s: %s; heads %s; %s; response %s", kind, h.mode, backendName(h.newState), ver,
			q.wire().String(), where, span, strings.Join(mismatches, "; "), rp.short()))
	}
}

// focusRequests: requests about the region a transition touches.
func focusRequests(h *history, a, b *snap) []*rq {
	r := h.rng
	var bids []*bid
	bids = append(bids, &bid{Kind: "latest"}, &bid{Kind: "l1_accepted"})
	seenH := map[felt.Felt]bool{}
	var txs []felt.Felt
	for _, s := range []*snap{a, b} {
		if len(s.blocks) == 0 {
			continue
		}
		t := s.height()
		bids = append(bids, &bid{Kind: "number", Num: uint64(t)})
		for _, n := range []int{t, t - 1} {
			if n < 0 {
				continue
			}
			hh := *s.blocks[n].Block.Hash
			if !seenH[hh] {
				seenH[hh] = true
				bids = append(bids, &bid{Kind: "hash", Hash: hh})
			}
		}
		for _, tx := range s.blocks[t].Block.Transactions {
			txs = append(txs, *tx.Hash())
		}
	}
	var out []*rq
	out = append(out, &rq{M: "blockNumber"}, &rq{M: "blockHashAndNumber"})
	for _, bd := range bids {
		out = append(out, &rq{M: "getBlockWithTxHashes", B: bd}, &rq{M: "getBlockWithTxs", B: bd}, &rq{M: "getBlockWithReceipts", B: bd},
			&rq{M: "getBlockTransactionCount", B: bd}, &rq{M: "getStateUpdate", B: bd},
			&rq{M: "getTransactionByBlockIdAndIndex", B: bd, Index: 0}, &rq{M: "getTransactionByBlockIdAndIndex", B: bd, Index: 1 + r.IntN(3)})
		for i := 0; i < 3; i++ {
			ad := pick(r, h.u.contracts)
			switch r.IntN(5) {
			case 0:
				out = append(out, &rq{M: "getNonce", B: bd, Addr: ad})
			case 1:
				out = append(out, &rq{M: "getClassHashAt", B: bd, Addr: ad})
			case 2:
				out = append(out, &rq{M: "getClassAt", B: bd, Addr: ad})
			case 3:
				out = append(out, &rq{M: "getClass", B: bd, Class: pick(r, h.u.classes)})
			default:
				out = append(out, &rq{M: "getStorageAt", B: bd, Addr: ad, Key: pick(r, h.u.slots)})
			}
		}
	}
	r.Shuffle(len(txs), func(i, j int) { txs[i], txs[j] = txs[j], txs[i] })
	for i := 0; i < len(txs) && i < 4; i++ {
		out = append(out, &rq{M: "getTransactionByHash", Tx: &txs[i]}, &rq{M: "getTransactionReceipt", Tx: &txs[i]}, &rq{M: "getTransactionStatus", Tx: &txs[i]})
	}
	return out
}

// runInterleave: for a handful of head transitions A -> B (extend, shrink, one-block
// reorg, L1 head up / down) every focus request is replayed with the transition
// committed before its 1st, 2nd, ... k-th blockchain read. The response must be the
// one the model gives for A or for B.
func runInterleave(r *lib.Run, gidx, idx int) {
	rng := lib.Rng("C08/interleave", uint64(idx))
	newState := idx%2 == 1
	hook := &readHook{}
	h, err := newHistory(r, gidx, "interleave", rng, newState, &hookDB{Database: memory.New(), hook: hook},
		blockchain.WithListener(&blockchain.SelectiveListener{OnReadCb: hook.onRead}))
	if err != nil {
		r.Violation("harness:cannot-build-rpc-env", gidx, err.Error(), nil)
		return
	}
	abandon := func(what string) {
		r.Count("histories_abandoned:"+what, 1)
		r.Inconclusive("history abandoned: " + what)
	}
	if err := h.grow(3 + rng.IntN(4)); err != nil {
		abandon("grow")
		return
	}
	ntrans := 4
	if !r.Quick() {
		ntrans = 8
	}
	for t := 0; t < ntrans; t++ {
		kind := []string{"extend", "shrink", "reorg", "l1-up", "l1-down"}[rng.IntN(5)]
		var apply, undo func() error
		switch kind {
		case "extend":
			blks, sts, err := h.generate(1)
			if err != nil {
				abandon("generate")
				return
			}
			apply = func() error { return h.store(blks[0], sts[0]) }
			undo = func() error { return h.revert(1) }
		case "shrink":
			if h.cur.Len() < 2 {
				continue
			}
			x, xs := h.cur.Tip(), h.cur.TipState()
			apply = func() error { return h.revert(1) }
			undo = func() error { return h.store(x, xs) }
		case "reorg":
			if h.cur.Len() < 2 {
				continue
			}
			x, xs := h.cur.Tip(), h.cur.TipState()
			// generate the competing block on the parent
			saved := h.cur
			h.cur = h.cur.Prefix(h.cur.Len() - 1)
			h.builder = nil
			blks, sts, err := h.generate(1)
			h.cur = saved
			h.builder = nil
			if err != nil {
				abandon("generate")
				return
			}
			apply = func() error {
				if err := h.revert(1); err != nil {
					return err
				}
				return h.store(blks[0], sts[0])
			}
			undo = func() error {
				if err := h.revert(1); err != nil {
					return err
				}
				return h.store(x, xs)
			}
		case "l1-up", "l1-down":
			// move the recorded L1 head across the tip
			hi, lo := uint64(h.cur.Len()-1), uint64(max(0, h.cur.Len()-2-rng.IntN(2)))
			from, to := lo, hi
			if kind == "l1-down" {
				from, to = hi, lo
			}
			if err := h.setL1(from); err != nil {
				abandon("set-l1-head")
				return
			}
			apply = func() error { return h.setL1(to) }
			undo = func() error { return h.setL1(from) }
		}
		nsteps := len(h.steps)
		a := h.snap("A")
		if err := apply(); err != nil {
			abandon(kind)
			return
		}
		b := h.snap("B")
		if err := undo(); err != nil {
			abandon("undo-" + kind)
			return
		}
		h.steps = append(h.steps[:nsteps], "transition "+kind)
		base := append([]string{}, h.steps...)
		reqs := focusRequests(h, a, b)
		r.Count("transitions:"+kind, 1)
		for qi, q := range reqs {
			w := q.wire()
			// one API version per request, rotating (the three handler sets differ in how they read)
			for _, ver := range []string{versions[(qi+t+idx)%len(versions)]} {
				if !xverComparable(ver, q) {
					continue // tag unknown to this version: no blockchain reads at all
				}
				// state reads go through a state reader that keeps reading the live store after the
				// accessor returned, and blockNumber / blockHashAndNumber are a single accessor call:
				// interleave those at the level of single database reads
				level := "bc"
				if stateMethod(q.M) || family(q.M) == "head" {
					level = "db"
				}
				r.Count("interleave_requests:"+ver+":"+level, 1)
				hook.reset(level, 0, nil)
				rp0 := h.env.call(ver, w)
				reads := hook.count
				r.Count("reads_per_request_total:"+level, reads)
				if m := check(a, ver, q, rp0); !m.ok() {
					// wrong on a quiescent node: a violation (same classes as the sequential mode)
					h.quiescentViolation(a, ver, q, rp0, m)
					continue
				}
				for k := 1; k <= reads; k++ {
					var aerr error
					hook.reset(level, k, func() { aerr = apply() })
					rp := h.env.call(ver, w)
					fired, trace := hook.fired, append([]string{}, hook.trace...)
					hook.reset("", 0, nil)
					if aerr != nil {
						abandon(kind + "-inside-request")
						return
					}
					if fired {
						if err := undo(); err != nil {
							abandon("undo-" + kind)
							return
						}
						h.steps = append([]string{}, base...)
					}
					if !fired {
						r.Count("interleavings_not_reached", 1)
						continue
					}
					r.Eval(1)
					r.Count("interleavings_checked:"+level, 1)
					r.Count("interleavings_by_transition:"+kind, 1)
					r.Count("interleavings_by_method:"+q.M, 1)
					ma := check(a, ver, q, rp)
					if ma.ok() {
						r.Count("interleaved_response_matches:head-before", 1)
						continue
					}
					mb := check(b, ver, q, rp)
					if mb.ok() {
						r.Count("interleaved_response_matches:head-after", 1)
						continue
					}
					pos := fmt.Sprintf("%s committed before %s read %d of %d (%s)", kind, map[string]string{"bc": "blockchain", "db": "database"}[level], k, reads, strings.Join(trace, ","))
					// a handler panic is a violation whatever the schedule
					if rp.Panic != "" {
						h.violation("handler-panic:"+q.M, fmt.Sprintf("%s %s: %s; %s", ver, w.String(), pos, rp.Bad),
							witness{Snapshot: a.describe() + " -> " + b.describe(), Request: w.String(), Shape: pos, Versions: ver, Mismatches: []string{rp.Bad}, Response: rp.short()})
						continue
					}
					// k = 1: the whole request ran on head B with nothing going on - a quiescent answer
					if k == 1 {
						h.quiescentViolation(b, ver, q, rp, mb)
						continue
					}
					// Only wrong because the head changed during the request: isolation from concurrent head
					// changes is outside C08's quantifier (histories, inputs, configurations - not schedules).
					// Observed, not judged.
					h.observeTorn(q, ver, rp, pos, a.describe()+" -> "+b.describe(), append(append([]string{"against the head before:"}, ma.list...), append([]string{"against the head after:"}, mb.list...)...))
				}
			}
		}
		// sometimes make the transition permanent so that later transitions start elsewhere
		if rng.IntN(2) == 0 {
			if err := apply(); err != nil {
				abandon(kind)
				return
			}
		}
	}
	r.Count("histories_interleave:"+backendName(newState), 1)
	r.Case(fmt.Sprintf("ilv/%v/%v", h.steps, newState))
	if idx < 1 {
		r.Sample(map[string]any{"case": idx, "mode": "interleave", "backend": backendName(newState), "steps": h.steps})
	}
}

// ---------------------------------------------------------------- real concurrency

// runConcurrent: reader goroutines issue requests while a writer goroutine stores,
// reverts, switches forks and moves the L1 head. Writer step i publishes the model
// snapshot it is about to create, then bumps `started`, performs the one atomic
// Blockchain operation, and bumps `finished`. A reader samples `finished` before the
// call (lo) and `started` after it (hi): every head the node can have exposed during
// the call is one of snapshots lo..hi, so the response must match one of them.
func runConcurrent(r *lib.Run, gidx, idx int) {
	rng := lib.Rng("C08/concurrent", uint64(idx))
	newState := idx%2 == 1
	h, err := newHistory(r, gidx, "concurrent", rng, newState, nil)
	if err != nil {
		r.Violation("harness:cannot-build-rpc-env", gidx, err.Error(), nil)
		return
	}
	abandon := func(what string) {
		r.Count("histories_abandoned:"+what, 1)
		r.Inconclusive("history abandoned: " + what)
	}
	// two branches sharing a prefix, generated up front
	const prefix, tail = 3, 4
	if err := h.grow(prefix); err != nil {
		abandon("grow")
		return
	}
	type branch struct {
		blks []*chain.Blk
		sts  []*chain.State
	}
	var branches []branch
	for i := 0; i < 2; i++ {
		blks, sts, err := h.generate(tail)
		if err != nil {
			abandon("generate")
			return
		}
		branches = append(branches, branch{blks, sts})
	}
	// requests: a fixed list drawn from the whole universe against the longest chain
	full := h.cur.Prefix(h.cur.Len())
	full.Blocks = append(full.Blocks, branches[0].blks...)
	full.States = append(full.States, branches[0].sts...)
	reqs := h.u.round(rng, newSnap(full, nil, "full"), 120)
	rng.Shuffle(len(reqs), func(i, j int) { reqs[i], reqs[j] = reqs[j], reqs[i] })

	nsteps := 60
	if !r.Quick() {
		nsteps = 200
	}
	var mu sync.Mutex
	snaps := []*snap{h.snap("S0")}
	var started, finished atomic.Int64
	var done atomic.Bool
	var wg sync.WaitGroup

	// writer script, decided up front from the rng (the schedule is the only nondeterminism)
	type wstep struct {
		kind string
		br   int
		l1   uint64
	}
	var script []wstep
	{
		height, cur := prefix, 0
		for len(script) < nsteps {
			switch k := rng.IntN(10); {
			case k < 2:
				script = append(script, wstep{kind: "l1", l1: uint64(rng.IntN(prefix + tail + 1))})
			case k < 6 && height < prefix+tail:
				if height == prefix {
					cur = rng.IntN(2)
				}
				script = append(script, wstep{kind: "store", br: cur})
				height++
			case height > prefix:
				script = append(script, wstep{kind: "revert"})
				height--
			}
		}
	}
	const readers = 4
	type obs struct {
		q      *rq
		ver    string
		rp     *reply
		lo, hi int
	}
	results := make([][]obs, readers)
	for g := 0; g < readers; g++ {
		wg.Add(1)
		go func(g int) {
			defer wg.Done()
			for i := g; !done.Load(); i += readers {
				q := reqs[i%len(reqs)]
				ver := versions[(i/len(reqs)+i)%len(versions)]
				if !xverComparable(ver, q) {
					continue
				}
				lo := int(finished.Load())
				rp := h.env.call(ver, q.wire())
				hi := int(started.Load())
				results[g] = append(results[g], obs{q, ver, rp, lo, hi})
			}
		}(g)
	}
	var werr error
	for i, st := range script {
		var apply func() error
		switch st.kind {
		case "l1":
			apply = func() error { return h.setL1(st.l1) }
		case "store":
			n := h.cur.Len() - prefix
			apply = func() error { return h.store(branches[st.br].blks[n], branches[st.br].sts[n]) }
		case "revert":
			apply = func() error { return h.revert(1) }
		}
		// model first: compute the snapshot this step leads to without touching the node
		next := nextSnap(h, st.kind, st.br, st.l1, func(n int) (*chain.Blk, *chain.State) { return branches[st.br].blks[n], branches[st.br].sts[n] }, prefix, i+1)
		mu.Lock()
		snaps = append(snaps, next)
		mu.Unlock()
		started.Store(int64(i + 1))
		if werr = apply(); werr != nil {
			break
		}
		finished.Store(int64(i + 1))
	}
	done.Store(true)
	wg.Wait()
	if werr != nil {
		abandon("writer-step")
		return
	}
	total, windows := 0, 0
	sigSeen := map[string]bool{}
	for g := range results {
		for _, o := range results[g] {
			total++
			if o.hi > o.lo {
				windows++
			}
			var first *mm
			okAt := -1
			for j := o.lo; j <= o.hi && j < len(snaps); j++ {
				m := check(snaps[j], o.ver, o.q, o.rp)
				if m.ok() {
					okAt = j
					break
				}
				if first == nil {
					first = m
				}
			}
			r.Eval(1)
			if okAt >= 0 {
				continue
			}
			w := o.q.wire()
			where := fmt.Sprintf("heads %d..%d", o.lo, o.hi)
			span := fmt.Sprintf("%s .. %s", snaps[o.lo].describe(), snaps[min(o.hi, len(snaps)-1)].describe())
			if o.rp.Panic != "" {
				h.violation("handler-panic:"+o.q.M, fmt.Sprintf("%s %s during %s: %s", o.ver, w.String(), where, o.rp.Bad),
					witness{Snapshot: span, Request: w.String(), Shape: where, Versions: o.ver, Mismatches: []string{o.rp.Bad}, Response: o.rp.short()})
				continue
			}
			// Wrong on a quiescent node, or only wrong because the head moved during the call? Replay the
			// request on a fresh quiescent node for every head of the window (once per kind of failure and
			// case): a quiescent answer that disagrees with the model is a violation; otherwise the
			// response is a torn one - observed, not judged.
			sig := o.q.M + "/" + tearKind(o.rp) + "/" + first.kind
			if sigSeen[sig] {
				r.Count("concurrent_failing_responses_of_a_kind_already_examined", 1)
				continue
			}
			sigSeen[sig] = true
			quiescentWrong := false
			for j := o.lo; j <= o.hi && j < len(snaps); j++ {
				qe, err := quiescentEnv(snaps[j], newState)
				if err != nil {
					r.Inconclusive("cannot rebuild a quiescent node for a head")
					continue
				}
				rq := qe.call(o.ver, w)
				r.Count("quiescent_replays", 1)
				if m := check(snaps[j], o.ver, o.q, rq); !m.ok() {
					quiescentWrong = true
					h.quiescentViolation(snaps[j], o.ver, o.q, rq, m)
				}
			}
			if !quiescentWrong {
				h.observeTorn(o.q, o.ver, o.rp, where, span, first.list)
			}
		}
	}
	r.Count("concurrent_responses", total)
	r.Count("concurrent_responses_overlapping_a_writer_step", windows)
	r.Count("concurrent_writer_steps", len(script))
	r.Count("histories_concurrent:"+backendName(newState), 1)
	if windows > 0 {
		kinds := []string{}
		for _, s := range script {
			kinds = append(kinds, s.kind)
		}
		sort.Strings(kinds)
		r.Case(fmt.Sprintf("conc/%d/%v/%s", idx, newState, h.cur.Tip().Block.Hash.String()))
	} else {
		r.Inconclusive("concurrent run without any overlapping response")
	}
	if idx < 1 {
		r.Sample(map[string]any{"case": idx, "mode": "concurrent", "backend": backendName(newState), "writer_steps": len(script), "readers": readers,
			"responses": total, "responses_overlapping_writer": windows})
	}
}

// quiescentEnv: a fresh node holding exactly snapshot s, with nothing going on.
func quiescentEnv(s *snap, newState bool) (*rpcEnv, error) {
	node := chain.NewMemNode(newState)
	for _, b := range s.blocks {
		if err := node.StoreBlk(b); err != nil {
			return nil, err
		}
	}
	if s.l1 != nil {
		n := *s.l1
		head := &core.L1Head{BlockNumber: n, BlockHash: chain.F(0x11110000 + n), StateRoot: chain.F(0x22220000 + n)}
		if err := node.BC.SetL1Head(head); err != nil {
			return nil, err
		}
	}
	return newEnv(node)
}

// nextSnap computes the model after a writer step without touching the node.
func nextSnap(h *history, kind string, br int, l1 uint64, blk func(n int) (*chain.Blk, *chain.State), prefix, i int) *snap {
	c := h.cur.Prefix(h.cur.Len())
	lp := h.l1
	switch kind {
	case "l1":
		lp = &l1
	case "store":
		b, s := blk(c.Len() - prefix)
		c.Blocks, c.States = append(c.Blocks, b), append(c.States, s)
	case "revert":
		c = c.Prefix(c.Len() - 1)
	}
	return newSnap(c, lp, fmt.Sprintf("S%d", i))
}

package vrpc

import (
	"fmt"
	"math/rand/v2"
	"os"
	"sort"
	"strings"
	"testing"

	"github.com/NethermindEth/juno/blockchain"
	"github.com/NethermindEth/juno/core"
	"github.com/NethermindEth/juno/core/felt"
	"github.com/NethermindEth/juno/db"
	"github.com/NethermindEth/juno/db/memory"
	"github.com/NethermindEth/juno/verifh/lib"
	"github.com/NethermindEth/juno/verifh/lib/chain"
)

// history drives one node through grow / revert / fork / restore / L1-head steps and
// keeps the model (current chain + recorded L1 head) in step.
type history struct {
	r        *lib.Run
	idx      int
	mode     string
	rng      *rand.Rand
	g        *chain.Gen
	newState bool
	node     *chain.Node
	env      *rpcEnv
	cur      *chain.Chain
	l1       *uint64
	builder  *chain.Builder
	u        *universe
	steps    []string
	orphans  *chain.Chain // the chain as it was before the last revert (for "restore")
	dead     bool
	reported map[string]bool
}

func backendName(newState bool) string {
	if newState {
		return "new"
	}
	return "legacy"
}

func newHistory(r *lib.Run, idx int, mode string, rng *rand.Rand, newState bool, store db.KeyValueStore, opts ...blockchain.Option) (*history, error) {
	if store == nil {
		store = memory.New()
	}
	// no-op zero writes make legacy RevertHead fail (C04's finding): this property's
	// histories need reverts to work, so legacy nodes never see them
	gopt := chain.Opts{NoNoopZero: !newState || lib.Avoid("noop-zero-write")}
	if rng.IntN(4) == 0 {
		gopt.Contracts = []uint64{0x100, 0x101, 0x200}
		gopt.Slots = []uint64{2, 3, 8}
	}
	h := &history{r: r, idx: idx, mode: mode, rng: rng, g: chain.NewGen(rng, gopt), newState: newState,
		node: chain.NewNode(store, newState, opts...), cur: &chain.Chain{}, reported: map[string]bool{}}
	h.u = newUniverse(h.g)
	var err error
	h.env, err = newEnv(h.node)
	return h, err
}

func (h *history) snap(label string) *snap { return newSnap(h.cur, h.l1, label) }

func (h *history) ensureBuilder() error {
	if h.builder != nil {
		return nil
	}
	b, err := chain.BuilderAt(h.cur, h.cur.Len(), h.newState)
	if err != nil {
		return err
	}
	h.builder = b
	return nil
}

// generate k new blocks on the model's tip without storing them in the node.
func (h *history) generate(k int) ([]*chain.Blk, []*chain.State, error) {
	if err := h.ensureBuilder(); err != nil {
		return nil, nil, err
	}
	tmp := h.cur.Prefix(h.cur.Len())
	if err := h.g.Extend(tmp, h.builder, k); err != nil {
		return nil, nil, err
	}
	h.builder = nil // the builder is now ahead of the node's chain
	for _, b := range tmp.Blocks[h.cur.Len():] {
		h.u.add(b)
	}
	return tmp.Blocks[h.cur.Len():], tmp.States[h.cur.Len():], nil
}

func (h *history) store(b *chain.Blk, st *chain.State) error {
	if err := h.node.StoreBlk(b); err != nil {
		return err
	}
	h.cur.Blocks = append(h.cur.Blocks, b)
	h.cur.States = append(h.cur.States, st)
	h.builder = nil
	return nil
}

func (h *history) grow(k int) error {
	blks, sts, err := h.generate(k)
	if err != nil {
		return fmt.Errorf("generator: %w", err)
	}
	for i := range blks {
		if err := h.store(blks[i], sts[i]); err != nil {
			return fmt.Errorf("node rejects valid block %d: %w", blks[i].Number(), err)
		}
	}
	h.steps = append(h.steps, fmt.Sprintf("grow %d", k))
	return nil
}

func (h *history) revert(k int) error {
	k = min(k, h.cur.Len())
	if k == 0 {
		return nil
	}
	h.orphans = h.cur.Prefix(h.cur.Len())
	for i := 0; i < k; i++ {
		if err := h.node.BC.RevertHead(); err != nil {
			return err
		}
		h.cur = h.cur.Prefix(h.cur.Len() - 1)
	}
	h.builder = nil
	h.steps = append(h.steps, fmt.Sprintf("revert %d", k))
	return nil
}

// restore re-stores up to k of the blocks the last revert removed (a reorg back).
func (h *history) restore(k int) error {
	if h.orphans == nil || h.orphans.Len() <= h.cur.Len() {
		return nil
	}
	// only valid if the orphaned chain still extends the current one
	if h.cur.Len() > 0 && !h.orphans.Blocks[h.cur.Len()-1].Block.Hash.Equal(h.cur.Tip().Block.Hash) {
		return nil
	}
	k = min(k, h.orphans.Len()-h.cur.Len())
	for i := 0; i < k; i++ {
		n := h.cur.Len()
		if err := h.store(h.orphans.Blocks[n], h.orphans.States[n]); err != nil {
			return fmt.Errorf("node rejects re-stored block %d: %w", n, err)
		}
	}
	h.steps = append(h.steps, fmt.Sprintf("restore %d", k))
	return nil
}

func (h *history) setL1(n uint64) error {
	head := &core.L1Head{BlockNumber: n, BlockHash: chain.F(0x11110000 + n), StateRoot: chain.F(0x22220000 + n)}
	if n < uint64(h.cur.Len()) {
		head.BlockHash, head.StateRoot = h.cur.Blocks[n].Block.Hash, h.cur.Blocks[n].Block.GlobalStateRoot
	}
	if err := h.node.BC.SetL1Head(head); err != nil {
		return err
	}
	h.l1 = &n
	h.steps = append(h.steps, fmt.Sprintf("l1head %d", n))
	return nil
}

type witness struct {
	Mode       string
	Backend    string
	Steps      []string
	Snapshot   string
	Request    string
	Shape      string
	Versions   string
	Mismatches []string
	Response   string
	Others     []string `json:",omitempty"`
}

// violation reports once per (case, class).
func (h *history) violation(class, brief string, w witness) {
	if h.reported[class] {
		h.r.Count("violating_responses_suppressed_duplicates", 1)
		return
	}
	h.reported[class] = true
	w.Mode, w.Backend, w.Steps = h.mode, backendName(h.newState), append([]string{}, h.steps...)
	h.r.Violation(class, h.idx, brief, w)
}

func stateMethod(m string) bool {
	switch m {
	case "getStorageAt", "getNonce", "getClassHashAt", "getClassAt", "getClass":
		return true
	}
	return false
}

// classOf builds the witness classifier: [backend for state reads:]method:request shape:mismatch kind[:only-<versions>]
func (h *history) classOf(q *rq, shape, kind string, vers []string) string {
	c := q.M + ":" + shape + ":" + kind
	if len(q.Flags) > 0 {
		c = q.M + "+flags:" + shape + ":" + kind
	}
	if q.Only != nil {
		c = q.M + "+contract_addresses:" + shape + ":" + kind
	}
	if len(vers) > 0 && len(vers) < len(versions) { // only some API versions are wrong
		c += ":only-" + strings.Join(vers, "+")
	}
	if stateMethod(q.M) {
		c = backendName(h.newState) + ":" + c
	}
	return c
}

// probe issues one round of requests against a quiescent node and checks every
// response of every API version against the model, then the versions against each other.
func (h *history) probe(budget int) {
	s := h.snap("S")
	reqs := h.u.round(h.rng, s, budget)
	h.r.Count("probe_rounds", 1)
	for _, q := range reqs {
		shape := h.u.shape(s, q)
		w := q.wire()
		replies := map[string]*reply{}
		type fail struct {
			kind string
			list []string
		}
		fails := map[string]*fail{}
		for _, ver := range versions {
			rp := h.env.call(ver, w)
			replies[ver] = rp
			m := check(s, ver, q, rp)
			h.r.Eval(1)
			h.r.Count("responses:"+q.M, 1)
			if !rp.HasRes {
				h.r.Count(fmt.Sprintf("responses_with_error_code:%d", rp.Code), 1)
			} else {
				h.r.Count("responses_with_result:"+q.M, 1)
			}
			if !m.ok() {
				fails[ver] = &fail{m.kind, m.list}
			}
		}
		h.r.Count("request_shapes:"+q.idKind()+"/"+shape, 1)
		// group the failing versions by mismatch kind
		byKind := map[string][]string{}
		for _, ver := range versions {
			if f := fails[ver]; f != nil {
				byKind[f.kind] = append(byKind[f.kind], ver)
			}
		}
		kinds := make([]string, 0, len(byKind))
		for k := range byKind {
			kinds = append(kinds, k)
		}
		sort.Strings(kinds)
		for _, kind := range kinds {
			vers := byKind[kind]
			f := fails[vers[0]]
			class := h.classOf(q, shape, kind, vers)
			h.violation(class, fmt.Sprintf("%s %s [%s] on %s: %s", strings.Join(vers, "+"), w.String(), shape, s.describe(), strings.Join(f.list, "; ")),
				witness{Snapshot: s.describe(), Request: w.String(), Shape: shape, Versions: strings.Join(vers, "+"), Mismatches: f.list, Response: replies[vers[0]].short()})
		}
		// cross-version agreement
		var prevVer string
		var prev any
		for _, ver := range versions {
			if !xverComparable(ver, q) {
				continue
			}
			c := canon(ver, q, replies[ver])
			if prevVer != "" {
				h.r.Eval(1)
				h.r.Count("cross_version_comparisons", 1)
				if d := firstDiff(prev, c, ""); d != "" {
					class := fmt.Sprintf("xver:%s:%s:%s-vs-%s:%s", q.M, shape, prevVer, ver, d)
					if stateMethod(q.M) {
						class = backendName(h.newState) + ":" + class
					}
					h.violation(class, fmt.Sprintf("%s and %s disagree on %s [%s] at %s", prevVer, ver, w.String(), shape, d),
						witness{Snapshot: s.describe(), Request: w.String(), Shape: shape, Versions: prevVer + " vs " + ver,
							Mismatches: []string{"first difference at " + d}, Response: replies[prevVer].short(), Others: []string{replies[ver].short()}})
				}
			}
			prevVer, prev = ver, c
		}
	}
}

// runSequential: one random history; after every step a full probe round.
func runSequential(r *lib.Run, gidx, idx int) {
	rng := lib.Rng("C08/seq", uint64(idx))
	newState := idx%2 == 1
	h, err := newHistory(r, gidx, "sequential", rng, newState, nil)
	if err != nil {
		r.Violation("harness:cannot-build-rpc-env", gidx, err.Error(), nil)
		return
	}
	maxLen := 12
	budget := 160
	if !r.Quick() {
		maxLen = 12 + rng.IntN(20)
		budget = 300
	}
	fail := func(what string, err error) {
		// a valid block rejected / a revert failing is other properties' business (C03-C05); the
		// history cannot continue. Reported so that it is never silently lost.
		r.Count("histories_abandoned:"+what, 1)
		r.Inconclusive("history abandoned: " + what)
		_ = err
	}
	if rng.IntN(3) == 0 {
		h.probe(20) // empty chain
		if rng.IntN(2) == 0 {
			if err := h.setL1(uint64(rng.IntN(3))); err != nil {
				fail("set-l1-head", err)
				return
			}
			h.probe(20) // L1 head recorded before any block
		}
	}
	if err := h.grow(2 + rng.IntN(5)); err != nil {
		fail("grow", err)
		return
	}
	h.probe(budget)
	nsteps := 4 + rng.IntN(4)
	reverts := 0
	for i := 0; i < nsteps; i++ {
		var err error
		what := ""
		switch k := rng.IntN(10); {
		case k < 3:
			what = "set-l1-head"
			// below, at, and above the current height
			err = h.setL1(uint64(rng.IntN(h.cur.Len() + 3)))
		case k < 6 && h.cur.Len() > 1:
			what = "revert"
			err = h.revert(1 + rng.IntN(min(3, h.cur.Len())))
			reverts++
			if err == nil && rng.IntN(3) == 0 {
				h.probe(budget / 2) // between revert and regrow
			}
			if err == nil {
				if rng.IntN(4) == 0 {
					what = "restore"
					err = h.restore(1 + rng.IntN(3))
				} else if h.cur.Len() < maxLen {
					what = "grow"
					err = h.grow(1 + rng.IntN(min(3, maxLen-h.cur.Len())))
				}
			}
		default:
			if h.cur.Len() >= maxLen {
				continue
			}
			what = "grow"
			err = h.grow(1 + rng.IntN(min(3, maxLen-h.cur.Len())))
		}
		if err != nil {
			fail(what, err)
			return
		}
		h.probe(budget)
	}
	r.Count("histories:"+backendName(newState), 1)
	r.Count("reverts_in_histories", reverts)
	tip := "empty"
	if h.cur.Len() > 0 {
		tip = h.cur.Tip().Block.Hash.String()
	}
	r.Case(fmt.Sprintf("seq/%v/%s/%v", h.steps, tip, newState))
	if idx < 2 {
		r.Sample(map[string]any{"case": idx, "mode": "sequential", "backend": backendName(newState), "steps": h.steps,
			"final_height": h.cur.Len() - 1, "block_hashes_ever": len(h.u.hashes), "tx_hashes_ever": len(h.u.txs), "classes_ever": len(h.u.classes)})
	}
}

func TestC08(t *testing.T) {
	r := lib.Start("C08", "exploration")
	nSeq, nIlv, nConc := r.N(32, 480), r.N(12, 120), r.N(8, 48)
	if r.Race {
		nConc = max(nConc, 3) // the race detector is there for the concurrent mode
	}
	if ms := os.Getenv("VERIF_C08_MODES"); ms != "" { // development aid
		if !strings.Contains(ms, "seq") {
			nSeq = 0
		}
		if !strings.Contains(ms, "ilv") {
			nIlv = 0
		}
		if !strings.Contains(ms, "conc") {
			nConc = 0
		}
	}
	r.Cases(nSeq+nIlv+nConc, 0, func(i int) {
		switch {
		case i < nSeq:
			runSequential(r, i, i)
		case i < nSeq+nIlv:
			runInterleave(r, i, i-nSeq)
		default:
			runConcurrent(r, i, i-nSeq-nIlv)
		}
	})
	floor := 20
	if r.Race {
		floor = 6 // the race binary runs an eighth of the cases
	}
	r.Assume("expected values are read from the chain.Blk objects the node was given and from the map-based chain.State model (a state diff means what the Starknet specification says); Juno's adapters are not re-implemented: hashes, numbers, orders, statuses, counts and the identifying scalar/list fields are compared")
	r.Assume("the synchroniser is sync.NoopSynchronizer (no pre-confirmed block) and the VM is nil: pre_confirmed ids and VM/network methods are not exercised; v0.8 'pending' is exercised because Juno answers it from the head alone (empty block on the head)")
	r.Assume("l1_accepted with no recorded L1 head denotes no block (BLOCK_NOT_FOUND); with one it is block min(L1 head number, height); ACCEPTED_ON_L1 iff block number <= recorded L1 head number")
	r.Assume("system contracts 0x1/0x2 (storage only, no class): a written slot must read back, every other read may answer zero or CONTRACT_NOT_FOUND; getClassAt of a contract whose class hash was never declared (generator artefact) may answer CONTRACT_NOT_FOUND or CLASS_HASH_NOT_FOUND")
	r.Assume("cross-version allow-list (xver_test.go): v0.10 header commitments/counts, v0.10 migrated_compiled_classes, per-version block tags, v0.10-only response_flags, state-diff arrays are sets, error data is free-form")
	r.Assume("isolation of one request from a head change that commits while the request is being served is OUTSIDE C08's quantifier (histories, inputs, configurations - not schedules): in the interleave and concurrent modes a response that no single head explains (spurious not-found, internal error, data of two heads mixed) is counted under observed_torn_responses:* and sampled in the notes, not judged; judged there are handler panics, data races, and answers that a quiescent node holding any head of the window gives and the model rejects")
	r.Assume("interleave mode: a Store / RevertHead / SetL1Head that commits between two reads of one RPC handler is a schedule the real node can produce (handlers take no lock against the synchroniser); it is produced deterministically through blockchain.WithListener (OnRead) and a read-counting wrapper of the in-memory store")
	r.Finish("three modes, both state backends alternate by case. (1) sequential: random history (grow / revert / fork / re-store reverted blocks / SetL1Head below, at and above the height, optionally starting from the empty chain); after every step every block id ever valid (numbers up to height+2, every hash ever generated incl. reverted ones, unknown hash, latest, l1_accepted, v0.8 pending) x block methods, every tx hash ever seen x tx methods, sampled state reads; each request as JSON bytes through jsonrpc.Server.HandleReader against the v0.8, v0.9 and v0.10 method tables; every response compared field by field with the model incl. exact not-found error codes; then v0.8/v0.9/v0.10 compared after the allow-listed normalisations. "+
		"(2) interleave: head transitions A->B (extend, shrink, one-block reorg, L1 head up/down) committed before the k-th blockchain accessor call (block/tx methods) or the k-th database read (state methods) of a request, for every k; the response either is the model's answer for A or for B, or it is recorded as a torn observation (not a violation); a handler panic and a wrong answer when the whole request ran on A or on B are violations. "+
		"(3) concurrent: 4 reader goroutines vs a writer storing/reverting/switching forks/moving the L1 head; each response is matched against the model at the heads between call and return; one that matches none is replayed on a fresh quiescent node per head of the window: a quiescent answer the model rejects is a violation, otherwise it is a torn observation; panics and data races (-race binary) are violations. distinct = distinct histories", floor)
}

var _ = felt.Zero

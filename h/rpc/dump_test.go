package vrpc

import (
	"fmt"
	"os"
	"testing"

	"github.com/NethermindEth/juno/core"
	"github.com/NethermindEth/juno/verifh/lib"
	"github.com/NethermindEth/juno/verifh/lib/chain"
)

// TestC08Dump is a development aid (VERIF_C08_DUMP=1): prints one response per method
// and version for a small generated chain.
func TestC08Dump(t *testing.T) {
	if os.Getenv("VERIF_C08_DUMP") == "" {
		t.Skip()
	}
	rng := lib.Rng("C08/dump", 0)
	g := chain.NewGen(rng, chain.Opts{NoNoopZero: true})
	b := chain.NewBuilder(false)
	c := &chain.Chain{}
	if err := g.Extend(c, b, 8); err != nil {
		t.Fatal(err)
	}
	node := chain.NewMemNode(os.Getenv("VERIF_C08_DUMP") == "new")
	for _, blk := range c.Blocks {
		if err := node.StoreBlk(blk); err != nil {
			t.Fatal(err)
		}
	}
	blk5 := c.Blocks[5]
	node.BC.SetL1Head(&core.L1Head{BlockNumber: 5, BlockHash: blk5.Block.Hash, StateRoot: blk5.Block.GlobalStateRoot})
	e, err := newEnv(node)
	if err != nil {
		t.Fatal(err)
	}
	var txh, sierra, cairo0 string
	for _, bl := range c.Blocks {
		for _, tx := range bl.Block.Transactions {
			txh = tx.Hash().String()
		}
		for h, d := range bl.Classes {
			if _, ok := d.(*core.SierraClass); ok {
				sierra = h.String()
			} else {
				cairo0 = h.String()
			}
		}
	}
	bid := map[string]any{"block_number": 7}
	reqs := []request{
		{"starknet_blockNumber", nil},
		{"starknet_blockHashAndNumber", nil},
		{"starknet_getBlockWithTxHashes", map[string]any{"block_id": bid}},
		{"starknet_getBlockWithTxs", map[string]any{"block_id": bid}},
		{"starknet_getBlockWithReceipts", map[string]any{"block_id": bid}},
		{"starknet_getBlockWithTxHashes", map[string]any{"block_id": "l1_accepted"}},
		{"starknet_getBlockWithTxHashes", map[string]any{"block_id": "pre_confirmed"}},
		{"starknet_getBlockWithTxHashes", map[string]any{"block_id": "pending"}},
		{"starknet_getBlockWithTxHashes", map[string]any{"block_id": map[string]any{"block_number": 99}}},
		{"starknet_getTransactionByHash", map[string]any{"transaction_hash": txh}},
		{"starknet_getTransactionReceipt", map[string]any{"transaction_hash": txh}},
		{"starknet_getTransactionStatus", map[string]any{"transaction_hash": txh}},
		{"starknet_getTransactionByBlockIdAndIndex", map[string]any{"block_id": bid, "index": 0}},
		{"starknet_getTransactionByBlockIdAndIndex", map[string]any{"block_id": bid, "index": 99}},
		{"starknet_getTransactionByBlockIdAndIndex", map[string]any{"block_id": map[string]any{"block_number": 99}, "index": 0}},
		{"starknet_getStateUpdate", map[string]any{"block_id": bid}},
		{"starknet_getBlockTransactionCount", map[string]any{"block_id": bid}},
		{"starknet_getStorageAt", map[string]any{"block_id": bid, "contract_address": "0x100", "key": "0x2"}},
		{"starknet_getStorageAt", map[string]any{"block_id": bid, "contract_address": "0x1", "key": "0x2"}},
		{"starknet_getStorageAt", map[string]any{"block_id": "latest", "contract_address": "0x300", "key": "0x2"}},
		{"starknet_getStorageAt", map[string]any{"block_id": bid, "contract_address": "0x300", "key": "0x2"}},
		{"starknet_getStorageAt", map[string]any{"block_id": bid, "contract_address": "0x100", "key": "0x2", "response_flags": []string{"INCLUDE_LAST_UPDATE_BLOCK"}}},
		{"starknet_getNonce", map[string]any{"block_id": bid, "contract_address": "0x100"}},
		{"starknet_getClassHashAt", map[string]any{"block_id": bid, "contract_address": "0x100"}},
		{"starknet_getClassAt", map[string]any{"block_id": bid, "contract_address": "0x100"}},
		{"starknet_getClass", map[string]any{"block_id": bid, "class_hash": sierra}},
		{"starknet_getClass", map[string]any{"block_id": bid, "class_hash": cairo0}},
		{"starknet_getClass", map[string]any{"block_id": bid, "class_hash": "0xdead"}},
	}
	for _, q := range reqs {
		fmt.Println("==", q.String())
		for _, v := range versions {
			rp := e.call(v, q)
			fmt.Printf("  %-3s bad=%q %s\n", v, rp.Bad, rp.Raw)
		}
	}
}

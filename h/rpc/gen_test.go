package vrpc

import (
	"math/rand/v2"

	"github.com/NethermindEth/juno/core/felt"
	"github.com/NethermindEth/juno/verifh/lib/chain"
)

// universe: everything that was ever generated on any fork of one history - the
// probe set requests are drawn from (so reverted hashes keep being asked for).
type universe struct {
	hashes    []felt.Felt
	txs       []felt.Felt
	classes   []felt.Felt
	contracts []felt.Felt
	slots     []felt.Felt
	maxNum    uint64
	everBlock map[felt.Felt]bool
	everTx    map[felt.Felt]bool
	everClass map[felt.Felt]bool
}

func newUniverse(g *chain.Gen) *universe {
	u := &universe{everBlock: map[felt.Felt]bool{}, everTx: map[felt.Felt]bool{}, everClass: map[felt.Felt]bool{}}
	for _, a := range g.Opt.Contracts {
		u.contracts = append(u.contracts, *chain.F(a))
	}
	// system contracts, an address nothing deploys, a last-bit sibling of a real one
	for _, a := range []uint64{1, 2, 0x300, g.Opt.Contracts[0] ^ 1 ^ 0x40} {
		u.contracts = append(u.contracts, *chain.F(a))
	}
	seen := map[uint64]bool{}
	for _, s := range g.Opt.Slots {
		for _, x := range []uint64{s, s ^ 1} {
			if !seen[x] {
				seen[x] = true
				u.slots = append(u.slots, *chain.F(x))
			}
		}
	}
	u.slots = append(u.slots, *chain.F(0), *chain.F(0x123456789))
	// class hashes contracts are deployed with but nobody declares, and one unknown
	for _, c := range []uint64{0xc1, 0xdead} {
		u.classes = append(u.classes, *chain.F(c))
	}
	return u
}

func (u *universe) add(b *chain.Blk) {
	if !u.everBlock[*b.Block.Hash] {
		u.everBlock[*b.Block.Hash] = true
		u.hashes = append(u.hashes, *b.Block.Hash)
	}
	if b.Block.Number > u.maxNum {
		u.maxNum = b.Block.Number
	}
	for _, tx := range b.Block.Transactions {
		if !u.everTx[*tx.Hash()] {
			u.everTx[*tx.Hash()] = true
			u.txs = append(u.txs, *tx.Hash())
		}
	}
	for h := range b.Classes {
		if !u.everClass[h] {
			u.everClass[h] = true
			u.classes = append(u.classes, h)
		}
	}
	// system-contract slots are generated from the block number
	for a, slots := range b.SU.StateDiff.StorageDiffs {
		if chain.IsSystem(&a) {
			for k := range slots {
				dup := false
				for i := range u.slots {
					if u.slots[i].Equal(&k) {
						dup = true
					}
				}
				if !dup && len(u.slots) < 40 {
					u.slots = append(u.slots, k)
				}
			}
		}
	}
}

// shape classifies a request relative to a snapshot (witness classifier component).
func (u *universe) shape(s *snap, q *rq) string {
	sh := ""
	if q.B != nil {
		switch q.B.Kind {
		case "number":
			sh = "number"
			if q.B.Num >= uint64(len(s.blocks)) {
				sh = "number-beyond-head"
			}
		case "hash":
			switch _, held := s.byHash[q.B.Hash]; {
			case held:
				sh = "hash"
			case u.everBlock[q.B.Hash]:
				sh = "reverted-hash"
			default:
				sh = "unknown-hash"
			}
		case "l1_accepted":
			switch {
			case s.l1 == nil:
				sh = "l1_accepted-without-l1-head"
			case *s.l1 > uint64(s.height()) || len(s.blocks) == 0:
				sh = "l1_accepted-l1-head-above-height"
			default:
				sh = "l1_accepted"
			}
		default:
			sh = q.B.Kind
		}
		if len(s.blocks) == 0 && q.B.Kind != "number" && q.B.Kind != "hash" {
			sh += "-empty-chain"
		}
	}
	if q.Tx != nil {
		switch _, ok := s.txAt[*q.Tx]; {
		case ok:
			sh = "tx"
		case u.everTx[*q.Tx]:
			sh = "reverted-tx"
		default:
			sh = "unknown-tx"
		}
	}
	if sh == "" {
		sh = "-"
		if len(s.blocks) == 0 {
			sh = "empty-chain"
		}
	}
	return sh
}

func pick[T any](r *rand.Rand, xs []T) *T { return &xs[r.IntN(len(xs))] }

// allBids: every block identifier worth asking: all numbers up to two past the highest
// ever seen, every hash ever generated, an unknown hash, and the tags.
func (u *universe) allBids(r *rand.Rand) []*bid {
	var out []*bid
	for n := uint64(0); n <= u.maxNum+2; n++ {
		out = append(out, &bid{Kind: "number", Num: n})
	}
	out = append(out, &bid{Kind: "number", Num: 1 << 40})
	for _, h := range u.hashes {
		out = append(out, &bid{Kind: "hash", Hash: h})
	}
	out = append(out, &bid{Kind: "hash", Hash: *chain.F(0xabc0000 + uint64(r.IntN(1000)))})
	out = append(out, &bid{Kind: "latest"}, &bid{Kind: "l1_accepted"})
	return out
}

// round generates the requests issued after one history step. `budget` scales the
// sampled part (state reads, heavy block bodies).
func (u *universe) round(r *rand.Rand, s *snap, budget int) []*rq {
	var out []*rq
	out = append(out, &rq{M: "blockNumber"}, &rq{M: "blockHashAndNumber"})
	bids := u.allBids(r)
	for _, b := range bids {
		out = append(out, &rq{M: "getBlockWithTxHashes", B: b}, &rq{M: "getBlockTransactionCount", B: b}, &rq{M: "getStateUpdate", B: b})
		if r.IntN(2) == 0 && len(u.contracts) > 0 {
			// v0.10: restricted to a few contracts (touched by the block or not), sometimes the empty list
			only := []felt.Felt{}
			for k := r.IntN(4); k > 0; k-- {
				only = append(only, *pick(r, u.contracts))
			}
			out = append(out, &rq{M: "getStateUpdate", B: b, Only: only})
		}
		if r.IntN(2) == 0 {
			out = append(out, &rq{M: "getBlockWithTxs", B: b})
		}
		if r.IntN(2) == 0 {
			out = append(out, &rq{M: "getBlockWithReceipts", B: b})
		}
		// indices around the bound: 0, last, last+1, far; the count comes from the model block if resolvable
		cnt := 0
		if n, ok := s.resolve(b); ok {
			cnt = len(s.blocks[n].Block.Transactions)
		}
		for _, ix := range []int{0, cnt - 1, cnt, cnt + 1 + r.IntN(5)} {
			if ix >= 0 && r.IntN(2) == 0 {
				out = append(out, &rq{M: "getTransactionByBlockIdAndIndex", B: b, Index: ix})
			}
		}
	}
	// transactions: a sample of every hash ever seen + an unknown one
	ntx := min(len(u.txs), budget/8)
	for i := 0; i < ntx; i++ {
		h := pick(r, u.txs)
		out = append(out, &rq{M: "getTransactionByHash", Tx: h}, &rq{M: "getTransactionReceipt", Tx: h}, &rq{M: "getTransactionStatus", Tx: h})
	}
	unk := chain.F(0xdef0000 + uint64(r.IntN(1000)))
	out = append(out, &rq{M: "getTransactionByHash", Tx: unk}, &rq{M: "getTransactionReceipt", Tx: unk}, &rq{M: "getTransactionStatus", Tx: unk})
	// state reads
	for i := 0; i < budget; i++ {
		b := *pick(r, bids)
		if r.IntN(3) == 0 { // bias towards existing blocks
			b = &bid{Kind: "number", Num: uint64(r.IntN(int(u.maxNum) + 1))}
		}
		a := pick(r, u.contracts)
		switch r.IntN(8) {
		case 0:
			out = append(out, &rq{M: "getNonce", B: b, Addr: a})
		case 1:
			out = append(out, &rq{M: "getClassHashAt", B: b, Addr: a})
		case 2:
			out = append(out, &rq{M: "getClassAt", B: b, Addr: a})
		case 3:
			out = append(out, &rq{M: "getClass", B: b, Class: pick(r, u.classes)})
		case 4:
			out = append(out, &rq{M: "getStorageAt", B: b, Addr: a, Key: pick(r, u.slots), Flags: []string{"INCLUDE_LAST_UPDATE_BLOCK"}})
		default:
			out = append(out, &rq{M: "getStorageAt", B: b, Addr: a, Key: pick(r, u.slots)})
		}
	}
	// v0.8 "pending" (answerable without a synchroniser: an empty block on the head)
	pb := &bid{Kind: "pending"}
	out = append(out, &rq{M: "getBlockWithTxHashes", B: pb}, &rq{M: "getBlockTransactionCount", B: pb},
		&rq{M: "getNonce", B: pb, Addr: pick(r, u.contracts)}, &rq{M: "getStorageAt", B: pb, Addr: pick(r, u.contracts), Key: pick(r, u.slots)})
	return out
}

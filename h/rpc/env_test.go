package vrpc

import (
	"bytes"
	"context"
	"encoding/json"
	"fmt"
	"runtime"
	"strings"

	"github.com/NethermindEth/juno/blockchain/networks"
	"github.com/NethermindEth/juno/jsonrpc"
	"github.com/NethermindEth/juno/rpc"
	rpcv10 "github.com/NethermindEth/juno/rpc/v10"
	rpcv8 "github.com/NethermindEth/juno/rpc/v8"
	rpcv9 "github.com/NethermindEth/juno/rpc/v9"
	"github.com/NethermindEth/juno/sync"
	"github.com/NethermindEth/juno/utils/log"
	"github.com/NethermindEth/juno/verifh/lib/chain"
)

// API versions served by the node, in the order they are compared.
var versions = []string{"v8", "v9", "v10"}

// rpcEnv is the system under observation: the real rpc.Handler method tables of the
// three served API versions, each mounted on a real jsonrpc.Server (with the
// version's validator, exactly as node.New wires them) over one real Blockchain.
// The synchroniser is sync.NoopSynchronizer ("no pre-confirmed block"), the VM is nil.
type rpcEnv struct {
	node *chain.Node
	srv  map[string]*jsonrpc.Server
}

func newEnv(node *chain.Node) (*rpcEnv, error) {
	logger := log.NewNopZapLogger()
	h := rpc.New(node.BC, &sync.NoopSynchronizer{}, nil, "verif", logger, &networks.Sepolia)
	e := &rpcEnv{node: node, srv: map[string]*jsonrpc.Server{}}
	m8, _ := h.MethodsV0_8()
	m9, _ := h.MethodsV0_9()
	m10, _ := h.MethodsV0_10()
	for _, x := range []struct {
		ver string
		srv *jsonrpc.Server
		m   []jsonrpc.Method
	}{
		{"v8", jsonrpc.NewServer(4, logger).WithValidator(rpcv8.Validator()), m8},
		{"v9", jsonrpc.NewServer(4, logger).WithValidator(rpcv9.Validator()), m9},
		{"v10", jsonrpc.NewServer(4, logger).WithValidator(rpcv10.Validator()), m10},
	} {
		if err := x.srv.RegisterMethods(x.m...); err != nil {
			return nil, fmt.Errorf("register %s: %w", x.ver, err)
		}
		e.srv[x.ver] = x.srv
	}
	return e, nil
}

// reply is one parsed JSON-RPC response.
type reply struct {
	Raw    string
	Result any // parsed "result" (json numbers as json.Number)
	HasRes bool
	Code   int // error code (0 = no error member)
	ErrMsg string
	ErrDat any
	Bad    string // transport / framing problem (not a JSON-RPC response at all)
	Panic  string // the handler panicked
}

func (r *reply) short() string {
	s := r.Raw
	if len(s) > 400 {
		s = s[:400] + "..."
	}
	return s
}

// request is one read request: method + by-name params (sent as JSON bytes).
type request struct {
	Method string
	Params map[string]any
}

func (q request) bytes(id int) []byte {
	m := map[string]any{"jsonrpc": "2.0", "id": id, "method": q.Method}
	if q.Params != nil {
		m["params"] = q.Params
	}
	b, err := json.Marshal(m)
	if err != nil {
		panic(err)
	}
	return b
}

func (q request) String() string {
	b, _ := json.Marshal(q.Params)
	return q.Method + string(b)
}

func (e *rpcEnv) call(ver string, q request) (rp *reply) {
	// a panic inside a handler is an observation, not a harness failure
	defer func() {
		if p := recover(); p != nil {
			buf := make([]byte, 4096)
			buf = buf[:runtime.Stack(buf, false)]
			where := ""
			for _, l := range strings.Split(string(buf), "\n") {
				if strings.Contains(l, "/repo/rpc/") {
					where = strings.TrimSpace(l)
					break
				}
			}
			rp = &reply{Panic: fmt.Sprintf("%v at %s", p, where), Bad: fmt.Sprintf("handler panicked: %v at %s", p, where), Raw: fmt.Sprintf("PANIC %v", p)}
		}
	}()
	raw, _, err := e.srv[ver].HandleReader(context.Background(), bytes.NewReader(q.bytes(7)))
	rp = &reply{Raw: string(raw)}
	if err != nil {
		rp.Bad = "HandleReader error: " + err.Error()
		return rp
	}
	dec := json.NewDecoder(bytes.NewReader(raw))
	dec.UseNumber()
	var env map[string]any
	if err := dec.Decode(&env); err != nil {
		rp.Bad = "response is not a JSON object: " + err.Error()
		return rp
	}
	if v, ok := env["jsonrpc"]; !ok || v != "2.0" {
		rp.Bad = "response lacks jsonrpc=2.0"
		return rp
	}
	if id, ok := env["id"].(json.Number); !ok || id.String() != "7" {
		rp.Bad = "response id does not echo the request id"
		return rp
	}
	eo, hasErr := env["error"]
	res, hasRes := env["result"]
	switch {
	case hasErr && hasRes:
		rp.Bad = "response has both result and error"
	case hasErr:
		em, ok := eo.(map[string]any)
		if !ok {
			rp.Bad = "error member is not an object"
			return rp
		}
		c, ok := em["code"].(json.Number)
		if !ok {
			rp.Bad = "error code is not a number"
			return rp
		}
		ci, err := c.Int64()
		if err != nil {
			rp.Bad = "error code is not an integer"
			return rp
		}
		rp.Code = int(ci)
		rp.ErrMsg, _ = em["message"].(string)
		rp.ErrDat = em["data"]
	case hasRes:
		rp.Result, rp.HasRes = res, true
	default:
		rp.Bad = "response has neither result nor error"
	}
	return rp
}

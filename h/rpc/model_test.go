package vrpc

import (
	"encoding/json"
	"fmt"
	"math/big"
	"sort"
	"strings"

	"github.com/NethermindEth/juno/core"
	"github.com/NethermindEth/juno/core/felt"
	"github.com/NethermindEth/juno/verifh/lib/chain"
)

// ---------------------------------------------------------------- the model

// snap is an immutable picture of what the node holds: a linear chain (block i at
// index i, abstract state after block i) and the recorded L1 head (nil = none).
// Everything the oracle expects is read from these objects - the chain.Blk values
// the node was given and the map-based chain.State model.
type snap struct {
	blocks []*chain.Blk
	states []*chain.State
	l1     *uint64
	byHash map[felt.Felt]int
	txAt   map[felt.Felt][2]int
	label  string
}

func newSnap(c *chain.Chain, l1 *uint64, label string) *snap {
	s := &snap{blocks: append([]*chain.Blk{}, c.Blocks...), states: append([]*chain.State{}, c.States...),
		byHash: map[felt.Felt]int{}, txAt: map[felt.Felt][2]int{}, label: label}
	if l1 != nil {
		v := *l1
		s.l1 = &v
	}
	for i, b := range s.blocks {
		s.byHash[*b.Block.Hash] = i
		for j, tx := range b.Block.Transactions {
			s.txAt[*tx.Hash()] = [2]int{i, j}
		}
	}
	return s
}

func (s *snap) height() int { return len(s.blocks) - 1 }

func (s *snap) describe() string {
	l1 := "none"
	if s.l1 != nil {
		l1 = fmt.Sprint(*s.l1)
	}
	tip := "-"
	if len(s.blocks) > 0 {
		tip = s.blocks[len(s.blocks)-1].Block.Hash.String()
	}
	return fmt.Sprintf("%s{height=%d tip=%s l1=%s}", s.label, s.height(), tip, l1)
}

// l1Accepted: the block is at or below the recorded L1 head.
func (s *snap) l1Accepted(n int) bool { return s.l1 != nil && uint64(n) <= *s.l1 }

// bid is a block identifier.
type bid struct {
	Kind string // number | hash | latest | l1_accepted | pending (v0.8 only)
	Num  uint64
	Hash felt.Felt
}

func (b *bid) json() any {
	switch b.Kind {
	case "number":
		return map[string]any{"block_number": b.Num}
	case "hash":
		return map[string]any{"block_hash": b.Hash.String()}
	default:
		return b.Kind
	}
}

// resolve maps a block id to the index of the block it denotes in this snapshot.
func (s *snap) resolve(b *bid) (int, bool) {
	switch b.Kind {
	case "number":
		if b.Num < uint64(len(s.blocks)) {
			return int(b.Num), true
		}
	case "hash":
		n, ok := s.byHash[b.Hash]
		return n, ok
	case "latest":
		if len(s.blocks) > 0 {
			return len(s.blocks) - 1, true
		}
	case "l1_accepted":
		// the highest block the node holds that is at or below the recorded L1 head
		if s.l1 != nil && len(s.blocks) > 0 {
			return int(min(*s.l1, uint64(len(s.blocks)-1))), true
		}
	}
	return 0, false
}

// rq is one read request in typed form (so that the model can evaluate it without
// parsing JSON); params() is what goes on the wire.
type rq struct {
	M     string // method name without the starknet_ prefix
	B     *bid
	Tx    *felt.Felt
	Index int
	Addr  *felt.Felt
	Key   *felt.Felt
	Class *felt.Felt
	Flags []string
	// Only: the optional contract_addresses filter of v0.10 getStateUpdate (nil: absent)
	Only []felt.Felt
}

func (q *rq) wire() request {
	p := map[string]any{}
	if q.B != nil {
		p["block_id"] = q.B.json()
	}
	if q.Tx != nil {
		p["transaction_hash"] = q.Tx.String()
	}
	if q.M == "getTransactionByBlockIdAndIndex" {
		p["index"] = q.Index
	}
	if q.Addr != nil {
		p["contract_address"] = q.Addr.String()
	}
	if q.Key != nil {
		p["key"] = q.Key.String()
	}
	if q.Class != nil {
		p["class_hash"] = q.Class.String()
	}
	if q.Flags != nil {
		p["response_flags"] = q.Flags
	}
	if q.Only != nil {
		l := make([]string, len(q.Only))
		for i := range q.Only {
			l[i] = q.Only[i].String()
		}
		p["contract_addresses"] = l
	}
	if len(p) == 0 {
		return request{Method: "starknet_" + q.M}
	}
	return request{Method: "starknet_" + q.M, Params: p}
}

func (q *rq) idKind() string {
	if q.B == nil {
		return "-"
	}
	return q.B.Kind
}

// JSON-RPC / Starknet error codes of the property.
const (
	codeContractNotFound = 20
	codeBlockNotFound    = 24
	codeInvalidTxIndex   = 27
	codeClassNotFound    = 28
	codeTxNotFound       = 29
	codeNoBlocks         = 32
	codeInvalidParams    = -32602
)

// ---------------------------------------------------------------- mismatch collector

type mm struct {
	list []string
	kind string // first mismatch kind (for the witness class)
}

func (m *mm) add(kind, format string, a ...any) {
	if m.kind == "" {
		m.kind = kind
	}
	if len(m.list) < 12 {
		m.list = append(m.list, fmt.Sprintf(format, a...))
	}
}

func (m *mm) ok() bool { return len(m.list) == 0 }

// ---------------------------------------------------------------- JSON helpers

func obj(v any) map[string]any {
	o, _ := v.(map[string]any)
	return o
}

func arr(v any) ([]any, bool) {
	a, ok := v.([]any)
	return a, ok
}

func parseFelt(v any) (*felt.Felt, bool) {
	s, ok := v.(string)
	if !ok || !strings.HasPrefix(s, "0x") {
		return nil, false
	}
	f, err := felt.NewFromString[felt.Felt](s)
	if err != nil {
		return nil, false
	}
	return f, true
}

func (m *mm) felt(path string, got any, want *felt.Felt) {
	if want == nil {
		want = &felt.Zero
	}
	g, ok := parseFelt(got)
	if !ok {
		m.add("wrong-value", "%s: want %s, got %s", path, want.String(), js(got))
		return
	}
	if !g.Equal(want) {
		m.add("wrong-value", "%s: want %s, got %s", path, want.String(), g.String())
	}
}

func (m *mm) u64(path string, got any, want uint64) {
	n, ok := got.(json.Number)
	if !ok || n.String() != fmt.Sprint(want) {
		m.add("wrong-value", "%s: want %d, got %s", path, want, js(got))
	}
}

// hexU64: a uint64 sent as 0x-hex string
func (m *mm) hexU64(path string, got any, want uint64) {
	m.felt(path, got, felt.NewFromUint64[felt.Felt](want))
}

func (m *mm) str(path string, got any, want string) {
	s, ok := got.(string)
	if !ok || s != want {
		m.add("wrong-value", "%s: want %q, got %s", path, want, js(got))
	}
}

func (m *mm) felts(path string, got any, want []felt.Felt) {
	a, ok := arr(got)
	if !ok {
		m.add("wrong-value", "%s: want array of %d felts, got %s", path, len(want), js(got))
		return
	}
	if len(a) != len(want) {
		m.add("wrong-value", "%s: want %d elements, got %d", path, len(want), len(a))
		return
	}
	for i := range want {
		m.felt(fmt.Sprintf("%s[%d]", path, i), a[i], &want[i])
	}
}

func js(v any) string {
	b, _ := json.Marshal(v)
	if len(b) > 160 {
		return string(b[:160]) + "..."
	}
	return string(b)
}

// ---------------------------------------------------------------- expectations

// expectCode: the response must be exactly this error.
func (m *mm) expectCode(rp *reply, code int, why string) {
	if rp.Code == code && !rp.HasRes {
		return
	}
	got := fmt.Sprintf("error %d (%s)", rp.Code, rp.ErrMsg)
	kind := fmt.Sprintf("error-%d-instead-of-%d", rp.Code, code)
	if rp.HasRes {
		got = "a result " + js(rp.Result)
		kind = fmt.Sprintf("result-instead-of-error-%d", code)
	}
	m.add(kind, "want error %d (%s), got %s", code, why, got)
}

func (m *mm) expectResult(rp *reply) bool {
	if rp.HasRes {
		return true
	}
	m.add(fmt.Sprintf("error-%d-instead-of-result", rp.Code), "want a result, got error %d (%s) data=%s", rp.Code, rp.ErrMsg, js(rp.ErrDat))
	return false
}

// check compares one response of API version `ver` with what snapshot s demands.
func check(s *snap, ver string, q *rq, rp *reply) *mm {
	m := &mm{}
	if rp.Panic != "" {
		m.add("handler-panic", "%s", rp.Bad)
		return m
	}
	if rp.Bad != "" {
		m.add("malformed-response", "%s", rp.Bad)
		return m
	}
	// block id kinds a version does not define: the spec difference is the tag set
	if q.B != nil {
		if (q.B.Kind == "l1_accepted" && ver == "v8") || (q.B.Kind == "pending" && ver != "v8") {
			m.expectCode(rp, codeInvalidParams, "block tag not defined in this API version")
			return m
		}
	}
	if len(q.Flags) > 0 && ver != "v10" {
		m.expectCode(rp, codeInvalidParams, "response_flags is a v0.10 parameter")
		return m
	}
	if q.Only != nil && ver != "v10" {
		m.expectCode(rp, codeInvalidParams, "contract_addresses is a v0.10 parameter")
		return m
	}
	switch q.M {
	case "blockNumber":
		if len(s.blocks) == 0 {
			m.expectCode(rp, codeNoBlocks, "empty chain")
		} else if m.expectResult(rp) {
			m.u64("result", rp.Result, uint64(s.height()))
		}
	case "blockHashAndNumber":
		if len(s.blocks) == 0 {
			m.expectCode(rp, codeNoBlocks, "empty chain")
		} else if m.expectResult(rp) {
			o := obj(rp.Result)
			m.felt("block_hash", o["block_hash"], s.blocks[s.height()].Block.Hash)
			m.u64("block_number", o["block_number"], uint64(s.height()))
		}
	case "getBlockWithTxHashes", "getBlockWithTxs", "getBlockWithReceipts":
		if q.B.Kind == "pending" {
			checkPendingBlock(m, s, q, rp)
			break
		}
		n, ok := s.resolve(q.B)
		if !ok {
			m.expectCode(rp, codeBlockNotFound, "block id denotes no block of the chain")
		} else if m.expectResult(rp) {
			checkBlock(m, s, ver, n, q, obj(rp.Result))
		}
	case "getBlockTransactionCount":
		if q.B.Kind == "pending" {
			if len(s.blocks) == 0 {
				m.expectCode(rp, codeBlockNotFound, "no head to build pending on")
			} else if m.expectResult(rp) {
				m.u64("result", rp.Result, 0)
			}
			break
		}
		n, ok := s.resolve(q.B)
		if !ok {
			m.expectCode(rp, codeBlockNotFound, "block id denotes no block of the chain")
		} else if m.expectResult(rp) {
			m.u64("result", rp.Result, uint64(len(s.blocks[n].Block.Transactions)))
		}
	case "getStateUpdate":
		n, ok := s.resolve(q.B)
		if !ok {
			m.expectCode(rp, codeBlockNotFound, "block id denotes no block of the chain")
		} else if m.expectResult(rp) {
			checkStateUpdate(m, s, ver, n, obj(rp.Result), q.Only)
		}
	case "getTransactionByHash":
		at, ok := s.txAt[*q.Tx]
		if !ok {
			m.expectCode(rp, codeTxNotFound, "no transaction of the chain has this hash")
		} else if m.expectResult(rp) {
			checkTx(m, "", s.blocks[at[0]].Block.Transactions[at[1]], obj(rp.Result), true)
		}
	case "getTransactionReceipt":
		at, ok := s.txAt[*q.Tx]
		if !ok {
			m.expectCode(rp, codeTxNotFound, "no transaction of the chain has this hash")
		} else if m.expectResult(rp) {
			o := obj(rp.Result)
			b := s.blocks[at[0]].Block
			checkReceipt(m, "", b.Receipts[at[1]], b.Transactions[at[1]], o, s.l1Accepted(at[0]))
			m.felt("block_hash", o["block_hash"], b.Hash)
			m.u64("block_number", o["block_number"], b.Number)
		}
	case "getTransactionStatus":
		at, ok := s.txAt[*q.Tx]
		if !ok {
			m.expectCode(rp, codeTxNotFound, "no transaction of the chain has this hash")
		} else if m.expectResult(rp) {
			o := obj(rp.Result)
			rc := s.blocks[at[0]].Block.Receipts[at[1]]
			m.str("finality_status", o["finality_status"], finality(s.l1Accepted(at[0])))
			m.str("execution_status", o["execution_status"], execStatus(rc))
			if rc.Reverted {
				m.str("failure_reason", o["failure_reason"], rc.RevertReason)
			} else if _, has := o["failure_reason"]; has {
				m.add("wrong-value", "failure_reason present for a succeeded transaction: %s", js(o["failure_reason"]))
			}
		}
	case "getTransactionByBlockIdAndIndex":
		n, ok := s.resolve(q.B)
		switch {
		case !ok:
			m.expectCode(rp, codeBlockNotFound, "block id denotes no block of the chain")
		case q.Index < 0 || q.Index >= len(s.blocks[n].Block.Transactions):
			m.expectCode(rp, codeInvalidTxIndex, fmt.Sprintf("block %d has %d transactions", n, len(s.blocks[n].Block.Transactions)))
		default:
			if m.expectResult(rp) {
				checkTx(m, "", s.blocks[n].Block.Transactions[q.Index], obj(rp.Result), true)
			}
		}
	case "getStorageAt", "getNonce", "getClassHashAt", "getClassAt", "getClass":
		var n int
		var ok bool
		if q.B.Kind == "pending" { // v0.8 pending without a synchroniser = empty block on the head: head state
			n, ok = s.height(), len(s.blocks) > 0
		} else {
			n, ok = s.resolve(q.B)
		}
		if !ok {
			m.expectCode(rp, codeBlockNotFound, "block id denotes no block of the chain")
			break
		}
		checkStateRead(m, s, n, q, rp)
	default:
		panic("unknown method " + q.M)
	}
	return m
}

func finality(l1 bool) string {
	if l1 {
		return "ACCEPTED_ON_L1"
	}
	return "ACCEPTED_ON_L2"
}

func execStatus(rc *core.TransactionReceipt) string {
	if rc.Reverted {
		return "REVERTED"
	}
	return "SUCCEEDED"
}

func price(m *mm, path string, got any, wei, fri *felt.Felt) {
	o := obj(got)
	m.felt(path+".price_in_wei", o["price_in_wei"], wei)
	m.felt(path+".price_in_fri", o["price_in_fri"], fri)
}

func checkHeader(m *mm, s *snap, ver string, n int, o map[string]any) {
	blk := s.blocks[n]
	h := blk.Block.Header
	m.str("status", o["status"], finality(s.l1Accepted(n)))
	m.felt("block_hash", o["block_hash"], h.Hash)
	m.felt("parent_hash", o["parent_hash"], h.ParentHash)
	m.u64("block_number", o["block_number"], h.Number)
	m.felt("new_root", o["new_root"], h.GlobalStateRoot)
	m.u64("timestamp", o["timestamp"], h.Timestamp)
	m.felt("sequencer_address", o["sequencer_address"], h.SequencerAddress)
	m.str("starknet_version", o["starknet_version"], h.ProtocolVersion)
	da := "CALLDATA"
	if h.L1DAMode == core.Blob {
		da = "BLOB"
	}
	m.str("l1_da_mode", o["l1_da_mode"], da)
	price(m, "l1_gas_price", o["l1_gas_price"], h.L1GasPriceETH, h.L1GasPriceSTRK)
	price(m, "l1_data_gas_price", o["l1_data_gas_price"], h.L1DataGasPrice.PriceInWei, h.L1DataGasPrice.PriceInFri)
	price(m, "l2_gas_price", o["l2_gas_price"], h.L2GasPrice.PriceInWei, h.L2GasPrice.PriceInFri)
	if ver == "v10" { // v0.10 block headers carry the commitments and counts
		cm := blk.Commitments
		m.felt("transaction_commitment", o["transaction_commitment"], cm.TransactionCommitment)
		m.felt("event_commitment", o["event_commitment"], cm.EventCommitment)
		m.felt("receipt_commitment", o["receipt_commitment"], cm.ReceiptCommitment)
		m.felt("state_diff_commitment", o["state_diff_commitment"], cm.StateDiffCommitment)
		m.u64("state_diff_length", o["state_diff_length"], cm.StateDiffLength)
		m.u64("transaction_count", o["transaction_count"], uint64(len(blk.Block.Transactions)))
		ev := uint64(0)
		for _, rc := range blk.Block.Receipts {
			ev += uint64(len(rc.Events))
		}
		m.u64("event_count", o["event_count"], ev)
	}
}

func checkBlock(m *mm, s *snap, ver string, n int, q *rq, o map[string]any) {
	checkHeader(m, s, ver, n, o)
	b := s.blocks[n].Block
	txs, ok := arr(o["transactions"])
	if !ok || len(txs) != len(b.Transactions) {
		m.add("wrong-value", "transactions: want %d entries, got %s", len(b.Transactions), js(o["transactions"]))
		return
	}
	for i, tx := range b.Transactions {
		p := fmt.Sprintf("transactions[%d]", i)
		switch q.M {
		case "getBlockWithTxHashes":
			m.felt(p, txs[i], tx.Hash())
		case "getBlockWithTxs":
			checkTx(m, p+".", tx, obj(txs[i]), true)
		case "getBlockWithReceipts":
			e := obj(txs[i])
			checkTx(m, p+".transaction.", tx, obj(e["transaction"]), false)
			checkReceipt(m, p+".receipt.", b.Receipts[i], tx, obj(e["receipt"]), s.l1Accepted(n))
		}
	}
}

// v0.8 "pending" with no synchroniser feeding a pending block: Juno synthesises an
// empty block on top of the head; what the chain determines is its parent and emptiness.
func checkPendingBlock(m *mm, s *snap, q *rq, rp *reply) {
	if len(s.blocks) == 0 {
		m.expectCode(rp, codeBlockNotFound, "no head to build pending on")
		return
	}
	if !m.expectResult(rp) {
		return
	}
	o := obj(rp.Result)
	m.felt("parent_hash", o["parent_hash"], s.blocks[s.height()].Block.Hash)
	if txs, ok := arr(o["transactions"]); !ok || len(txs) != 0 {
		m.add("wrong-value", "pending transactions: want [], got %s", js(o["transactions"]))
	}
	if _, has := o["block_hash"]; has {
		m.add("wrong-value", "pending block has a block_hash")
	}
}

func daMode(d core.DataAvailabilityMode) string {
	if d == core.DAModeL2 {
		return "L2"
	}
	return "L1"
}

func checkBounds(m *mm, p string, got any, rb map[core.Resource]core.ResourceBounds) {
	o := obj(got)
	for name, res := range map[string]core.Resource{"l1_gas": core.ResourceL1Gas, "l2_gas": core.ResourceL2Gas, "l1_data_gas": core.ResourceL1DataGas} {
		e := obj(o[name])
		m.hexU64(p+name+".max_amount", e["max_amount"], rb[res].MaxAmount)
		m.felt(p+name+".max_price_per_unit", e["max_price_per_unit"], rb[res].MaxPricePerUnit)
	}
}

func versionFelt(v *core.TransactionVersion) *felt.Felt { return v.AsFelt() }

// checkTx: type, version, hash and the identifying scalar / list fields of each kind.
func checkTx(m *mm, p string, tx core.Transaction, o map[string]any, withHash bool) {
	if o == nil {
		m.add("wrong-value", "%stransaction: not an object", p)
		return
	}
	if withHash {
		m.felt(p+"transaction_hash", o["transaction_hash"], tx.Hash())
	} else if _, has := o["transaction_hash"]; has {
		m.add("wrong-value", "%stransaction_hash present inside a block-with-receipts transaction", p)
	}
	v3 := func(rb map[core.Resource]core.ResourceBounds, tip uint64, pm []felt.Felt, nda, fda core.DataAvailabilityMode) {
		checkBounds(m, p+"resource_bounds.", o["resource_bounds"], rb)
		m.hexU64(p+"tip", o["tip"], tip)
		m.felts(p+"paymaster_data", o["paymaster_data"], pm)
		m.str(p+"nonce_data_availability_mode", o["nonce_data_availability_mode"], daMode(nda))
		m.str(p+"fee_data_availability_mode", o["fee_data_availability_mode"], daMode(fda))
	}
	switch t := tx.(type) {
	case *core.InvokeTransaction:
		m.str(p+"type", o["type"], "INVOKE")
		m.felt(p+"version", o["version"], versionFelt(t.Version))
		m.felts(p+"calldata", o["calldata"], t.CallData)
		m.felts(p+"signature", o["signature"], t.TransactionSignature)
		switch {
		case t.Version.Is(0):
			m.felt(p+"contract_address", o["contract_address"], t.ContractAddress)
			m.felt(p+"entry_point_selector", o["entry_point_selector"], t.EntryPointSelector)
			m.felt(p+"max_fee", o["max_fee"], t.MaxFee)
		case t.Version.Is(1):
			m.felt(p+"sender_address", o["sender_address"], t.SenderAddress)
			m.felt(p+"nonce", o["nonce"], t.Nonce)
			m.felt(p+"max_fee", o["max_fee"], t.MaxFee)
		default:
			m.felt(p+"sender_address", o["sender_address"], t.SenderAddress)
			m.felt(p+"nonce", o["nonce"], t.Nonce)
			m.felts(p+"account_deployment_data", o["account_deployment_data"], t.AccountDeploymentData)
			v3(t.ResourceBounds, t.Tip, t.PaymasterData, t.NonceDAMode, t.FeeDAMode)
		}
	case *core.DeclareTransaction:
		m.str(p+"type", o["type"], "DECLARE")
		m.felt(p+"version", o["version"], versionFelt(t.Version))
		m.felt(p+"class_hash", o["class_hash"], t.ClassHash)
		m.felt(p+"sender_address", o["sender_address"], t.SenderAddress)
		m.felts(p+"signature", o["signature"], t.TransactionSignature)
		if !t.Version.Is(0) {
			m.felt(p+"nonce", o["nonce"], t.Nonce)
		}
		if t.Version.Is(2) || t.Version.Is(3) {
			m.felt(p+"compiled_class_hash", o["compiled_class_hash"], t.CompiledClassHash)
		}
		if t.Version.Is(3) {
			m.felts(p+"account_deployment_data", o["account_deployment_data"], t.AccountDeploymentData)
			v3(t.ResourceBounds, t.Tip, t.PaymasterData, t.NonceDAMode, t.FeeDAMode)
		} else {
			m.felt(p+"max_fee", o["max_fee"], t.MaxFee)
		}
	case *core.DeployTransaction:
		m.str(p+"type", o["type"], "DEPLOY")
		m.felt(p+"version", o["version"], versionFelt(t.Version))
		m.felt(p+"class_hash", o["class_hash"], t.ClassHash)
		m.felt(p+"contract_address_salt", o["contract_address_salt"], t.ContractAddressSalt)
		m.felts(p+"constructor_calldata", o["constructor_calldata"], t.ConstructorCallData)
	case *core.DeployAccountTransaction:
		m.str(p+"type", o["type"], "DEPLOY_ACCOUNT")
		m.felt(p+"version", o["version"], versionFelt(t.Version))
		m.felt(p+"class_hash", o["class_hash"], t.ClassHash)
		m.felt(p+"contract_address_salt", o["contract_address_salt"], t.ContractAddressSalt)
		m.felts(p+"constructor_calldata", o["constructor_calldata"], t.ConstructorCallData)
		m.felts(p+"signature", o["signature"], t.TransactionSignature)
		m.felt(p+"nonce", o["nonce"], t.Nonce)
		if t.Version.Is(3) {
			v3(t.ResourceBounds, t.Tip, t.PaymasterData, t.NonceDAMode, t.FeeDAMode)
		} else {
			m.felt(p+"max_fee", o["max_fee"], t.MaxFee)
		}
	case *core.L1HandlerTransaction:
		m.str(p+"type", o["type"], "L1_HANDLER")
		m.felt(p+"version", o["version"], versionFelt(t.Version))
		m.felt(p+"contract_address", o["contract_address"], t.ContractAddress)
		m.felt(p+"entry_point_selector", o["entry_point_selector"], t.EntryPointSelector)
		m.felt(p+"nonce", o["nonce"], t.Nonce)
		m.felts(p+"calldata", o["calldata"], t.CallData)
	default:
		panic("unknown tx kind")
	}
}

func txType(tx core.Transaction) string {
	switch tx.(type) {
	case *core.InvokeTransaction:
		return "INVOKE"
	case *core.DeclareTransaction:
		return "DECLARE"
	case *core.DeployTransaction:
		return "DEPLOY"
	case *core.DeployAccountTransaction:
		return "DEPLOY_ACCOUNT"
	default:
		return "L1_HANDLER"
	}
}

func checkReceipt(m *mm, p string, rc *core.TransactionReceipt, tx core.Transaction, o map[string]any, l1 bool) {
	if o == nil {
		m.add("wrong-value", "%sreceipt: not an object", p)
		return
	}
	m.str(p+"type", o["type"], txType(tx))
	m.felt(p+"transaction_hash", o["transaction_hash"], tx.Hash())
	fee := obj(o["actual_fee"])
	m.felt(p+"actual_fee.amount", fee["amount"], rc.Fee)
	unit := "WEI"
	if rc.FeeUnit == core.STRK {
		unit = "FRI"
	}
	m.str(p+"actual_fee.unit", fee["unit"], unit)
	m.str(p+"execution_status", o["execution_status"], execStatus(rc))
	m.str(p+"finality_status", o["finality_status"], finality(l1))
	if rc.Reverted {
		m.str(p+"revert_reason", o["revert_reason"], rc.RevertReason)
	} else if _, has := o["revert_reason"]; has {
		m.add("wrong-value", "%srevert_reason present for a succeeded transaction", p)
	}
	evs, ok := arr(o["events"])
	if !ok || len(evs) != len(rc.Events) {
		m.add("wrong-value", "%sevents: want %d, got %s", p, len(rc.Events), js(o["events"]))
	} else {
		for i, ev := range rc.Events {
			e := obj(evs[i])
			ep := fmt.Sprintf("%sevents[%d].", p, i)
			m.felt(ep+"from_address", e["from_address"], ev.From)
			m.felts(ep+"keys", e["keys"], ev.Keys)
			m.felts(ep+"data", e["data"], ev.Data)
		}
	}
	msgs, ok := arr(o["messages_sent"])
	if !ok || len(msgs) != len(rc.L2ToL1Message) {
		m.add("wrong-value", "%smessages_sent: want %d, got %s", p, len(rc.L2ToL1Message), js(o["messages_sent"]))
	} else {
		for i, msg := range rc.L2ToL1Message {
			e := obj(msgs[i])
			mp := fmt.Sprintf("%smessages_sent[%d].", p, i)
			m.felt(mp+"from_address", e["from_address"], msg.From)
			m.felts(mp+"payload", e["payload"], msg.Payload)
			to, _ := e["to_address"].(string)
			g, okk := new(big.Int).SetString(strings.TrimPrefix(to, "0x"), 16)
			if !okk || g.Cmp(new(big.Int).SetBytes(msg.To[:])) != 0 {
				m.add("wrong-value", "%sto_address: want 0x%x, got %s", mp, msg.To[:], js(e["to_address"]))
			}
		}
	}
	switch t := tx.(type) {
	case *core.DeployTransaction:
		m.felt(p+"contract_address", o["contract_address"], t.ContractAddress)
	case *core.DeployAccountTransaction:
		m.felt(p+"contract_address", o["contract_address"], t.ContractAddress)
	}
	if tg := rc.ExecutionResources.TotalGasConsumed; tg != nil {
		er := obj(o["execution_resources"])
		m.u64(p+"execution_resources.l1_gas", er["l1_gas"], tg.L1Gas)
		m.u64(p+"execution_resources.l2_gas", er["l2_gas"], tg.L2Gas)
		m.u64(p+"execution_resources.l1_data_gas", er["l1_data_gas"], tg.L1DataGas)
	}
}

// setOf canonicalises an array of JSON objects/strings into a sorted list of strings built by key().
func setOf(v any, key func(e any) string) ([]string, bool) {
	a, ok := arr(v)
	if !ok {
		return nil, false
	}
	out := make([]string, len(a))
	for i, e := range a {
		out[i] = key(e)
	}
	sort.Strings(out)
	return out, true
}

func normFelt(v any) string {
	f, ok := parseFelt(v)
	if !ok {
		return "?" + js(v)
	}
	return f.String()
}

func (m *mm) set(path string, got any, key func(e any) string, want []string) {
	g, ok := setOf(got, key)
	sort.Strings(want)
	if !ok {
		m.add("wrong-value", "%s: want %d entries, got %s", path, len(want), js(got))
		return
	}
	if strings.Join(g, ",") != strings.Join(want, ",") {
		m.add("wrong-value", "%s (as a set): want %v, got %v", path, want, g)
	}
}

func checkStateUpdate(m *mm, s *snap, ver string, n int, o map[string]any, only []felt.Felt) {
	blk := s.blocks[n]
	su := blk.SU
	// v0.10 contract_addresses: address-keyed sections are restricted to the listed contracts
	// (an empty list restricts nothing); class-keyed sections are not affected
	keep := func(a felt.Felt) bool {
		if len(only) == 0 {
			return true
		}
		for i := range only {
			if only[i] == a {
				return true
			}
		}
		return false
	}
	m.felt("block_hash", o["block_hash"], blk.Block.Hash)
	m.felt("new_root", o["new_root"], blk.Block.GlobalStateRoot)
	old := &felt.Zero
	if n > 0 {
		old = s.blocks[n-1].Block.GlobalStateRoot
	}
	_ = old
	// the old root is the one of the state update the node was given (it equals the parent's
	// new root except across the generator's 0.13 -> 0.14 commitment-formula switch on a fork)
	m.felt("old_root", o["old_root"], su.OldRoot)
	d := obj(o["state_diff"])
	if d == nil {
		m.add("wrong-value", "state_diff: not an object")
		return
	}
	sd := su.StateDiff
	pair := func(a, b string) func(e any) string {
		return func(e any) string { x := obj(e); return normFelt(x[a]) + "=" + normFelt(x[b]) }
	}
	var want []string
	for a, slots := range sd.StorageDiffs {
		if !keep(a) {
			continue
		}
		for k, v := range slots {
			want = append(want, a.String()+"/"+k.String()+"="+v.String())
		}
	}
	// storage diffs flattened to (address, key, value) triples; an address may appear once
	var got []string
	seenAddr := map[string]bool{}
	if a, ok := arr(d["storage_diffs"]); ok {
		for _, e := range a {
			x := obj(e)
			addr := normFelt(x["address"])
			if seenAddr[addr] {
				m.add("wrong-value", "storage_diffs: address %s listed twice", addr)
			}
			seenAddr[addr] = true
			ents, _ := arr(x["storage_entries"])
			for _, en := range ents {
				y := obj(en)
				got = append(got, addr+"/"+normFelt(y["key"])+"="+normFelt(y["value"]))
			}
		}
	} else {
		m.add("wrong-value", "storage_diffs: not an array")
	}
	sort.Strings(want)
	sort.Strings(got)
	if strings.Join(want, ",") != strings.Join(got, ",") {
		m.add("wrong-value", "storage_diffs (as a set): want %v, got %v", want, got)
	}
	want = nil
	for a, v := range sd.Nonces {
		if keep(a) {
			want = append(want, a.String()+"="+v.String())
		}
	}
	m.set("nonces", d["nonces"], pair("contract_address", "nonce"), want)
	want = nil
	for a, v := range sd.DeployedContracts {
		if keep(a) {
			want = append(want, a.String()+"="+v.String())
		}
	}
	m.set("deployed_contracts", d["deployed_contracts"], pair("address", "class_hash"), want)
	want = nil
	for a, v := range sd.ReplacedClasses {
		if keep(a) {
			want = append(want, a.String()+"="+v.String())
		}
	}
	m.set("replaced_classes", d["replaced_classes"], pair("contract_address", "class_hash"), want)
	want = nil
	for a, v := range sd.DeclaredV1Classes {
		want = append(want, a.String()+"="+v.String())
	}
	m.set("declared_classes", d["declared_classes"], pair("class_hash", "compiled_class_hash"), want)
	want = nil
	for _, h := range sd.DeclaredV0Classes {
		want = append(want, h.String())
	}
	m.set("deprecated_declared_classes", d["deprecated_declared_classes"], normFelt, want)
	if ver == "v10" { // v0.10 adds the CASM-hash migrations
		want = nil
		for a, v := range sd.MigratedClasses {
			want = append(want, (*felt.Felt)(&a).String()+"="+(*felt.Felt)(&v).String())
		}
		m.set("migrated_compiled_classes", d["migrated_compiled_classes"], pair("class_hash", "compiled_class_hash"), want)
	}
}

// lastWrite: the highest block <= n whose state diff has an entry for (addr, key).
func (s *snap) lastWrite(n int, addr, key *felt.Felt) (uint64, bool) {
	for i := n; i >= 0; i-- {
		if slots, ok := s.blocks[i].SU.StateDiff.StorageDiffs[*addr]; ok {
			if _, ok := slots[*key]; ok {
				return uint64(i), true
			}
		}
	}
	return 0, false
}

func checkStateRead(m *mm, s *snap, n int, q *rq, rp *reply) {
	st := s.states[n]
	if q.M == "getClass" {
		ci, ok := st.Classes[*q.Class]
		if !ok {
			m.expectCode(rp, codeClassNotFound, fmt.Sprintf("class not declared at block %d", n))
		} else if m.expectResult(rp) {
			checkClass(m, ci.Def, obj(rp.Result))
		}
		return
	}
	c, exists := st.Contracts[*q.Addr]
	if !exists {
		m.expectCode(rp, codeContractNotFound, fmt.Sprintf("no contract at this address at block %d", n))
		return
	}
	if c.System {
		// 0x1 / 0x2 exist through storage writes only: they have no class and no nonce.
		// A written slot must read back; everything else may say zero or CONTRACT_NOT_FOUND.
		want := felt.Zero
		if q.M == "getStorageAt" {
			want = c.Storage[*q.Key]
		}
		switch {
		case q.M == "getStorageAt" && !want.IsZero():
			if m.expectResult(rp) {
				m.felt("result", storageValue(rp.Result), &want)
			}
		case rp.HasRes && (q.M == "getClassAt" || !isZeroFeltResult(storageValue(rp.Result))):
			m.add("wrong-value", "system contract: want zero or CONTRACT_NOT_FOUND, got %s", js(rp.Result))
		case !rp.HasRes && rp.Code != codeContractNotFound:
			m.expectCode(rp, codeContractNotFound, "system contract without class")
		}
		return
	}
	switch q.M {
	case "getStorageAt":
		want := c.Storage[*q.Key]
		if !m.expectResult(rp) {
			return
		}
		m.felt("result", storageValue(rp.Result), &want)
		if len(q.Flags) > 0 {
			if lw, ok := s.lastWrite(n, q.Addr, q.Key); ok {
				m.u64("last_update_block", obj(rp.Result)["last_update_block"], lw)
			}
		}
	case "getNonce":
		if m.expectResult(rp) {
			m.felt("result", rp.Result, &c.Nonce)
		}
	case "getClassHashAt":
		if m.expectResult(rp) {
			m.felt("result", rp.Result, &c.Class)
		}
	case "getClassAt":
		ci, ok := st.Classes[c.Class]
		if !ok {
			// the generator deploys some contracts with class hashes that were never declared
			// (impossible on a real network): either not-found error is acceptable
			if rp.HasRes || (rp.Code != codeContractNotFound && rp.Code != codeClassNotFound) {
				m.add("wrong-value", "contract with an undeclared class: want CONTRACT_NOT_FOUND or CLASS_HASH_NOT_FOUND, got %s", rp.short())
			}
			return
		}
		if m.expectResult(rp) {
			checkClass(m, ci.Def, obj(rp.Result))
		}
	}
}

func storageValue(res any) any {
	if o := obj(res); o != nil {
		return o["value"]
	}
	return res
}

func isZeroFeltResult(v any) bool {
	f, ok := parseFelt(v)
	return ok && f.IsZero()
}

// checkClass: kind, program identity, entry points (selectors + index/offset); ABI text only for Sierra.
func checkClass(m *mm, def core.ClassDefinition, o map[string]any) {
	if o == nil {
		m.add("wrong-value", "class: not an object")
		return
	}
	eps := obj(o["entry_points_by_type"])
	switch c := def.(type) {
	case *core.SierraClass:
		m.felts("sierra_program", o["sierra_program"], c.Program)
		m.str("contract_class_version", o["contract_class_version"], c.SemanticVersion)
		m.str("abi", o["abi"], c.Abi)
		for name, list := range map[string][]core.SierraEntryPoint{"CONSTRUCTOR": c.EntryPoints.Constructor, "EXTERNAL": c.EntryPoints.External, "L1_HANDLER": c.EntryPoints.L1Handler} {
			a, ok := arr(eps[name])
			if !ok || len(a) != len(list) {
				m.add("wrong-value", "entry_points_by_type.%s: want %d, got %s", name, len(list), js(eps[name]))
				continue
			}
			for i, ep := range list {
				e := obj(a[i])
				m.felt(fmt.Sprintf("entry_points_by_type.%s[%d].selector", name, i), e["selector"], ep.Selector)
				m.u64(fmt.Sprintf("entry_points_by_type.%s[%d].function_idx", name, i), e["function_idx"], ep.Index)
			}
		}
	case *core.DeprecatedCairoClass:
		m.str("program", o["program"], c.Program)
		if _, has := o["sierra_program"]; has {
			m.add("wrong-value", "Cairo-0 class answered with a sierra_program")
		}
		for name, list := range map[string][]core.DeprecatedEntryPoint{"CONSTRUCTOR": c.Constructors, "EXTERNAL": c.Externals, "L1_HANDLER": c.L1Handlers} {
			a, ok := arr(eps[name])
			if !ok || len(a) != len(list) {
				m.add("wrong-value", "entry_points_by_type.%s: want %d, got %s", name, len(list), js(eps[name]))
				continue
			}
			for i, ep := range list {
				e := obj(a[i])
				m.felt(fmt.Sprintf("entry_points_by_type.%s[%d].selector", name, i), e["selector"], ep.Selector)
				m.felt(fmt.Sprintf("entry_points_by_type.%s[%d].offset", name, i), e["offset"], ep.Offset)
			}
		}
	default:
		panic("unknown class kind")
	}
}

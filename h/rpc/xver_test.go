package vrpc

import (
	"bytes"
	"encoding/json"
	"fmt"
	"sort"
)

// Cross-version agreement: the same request sent to v0.8 / v0.9 / v0.10 must produce
// equal JSON after the normalisations below. Each normalisation is one *specified*
// difference between the API versions; nothing else is forgiven.
//
//	A1  v0.10 BLOCK_HEADER adds transaction/event/receipt/state_diff commitments,
//	    event_count, transaction_count, state_diff_length (absent in v0.8 / v0.9).
//	A2  v0.10 STATE_DIFF adds migrated_compiled_classes (absent before).
//	A3  block tags: v0.8 has {latest, pending}; v0.9 / v0.10 have {latest, pre_confirmed,
//	    l1_accepted}. Requests with a tag a version lacks are not compared with that version.
//	A4  response_flags is a v0.10-only parameter: flagged requests are not compared.
//	A5  state-diff arrays are sets (Juno fills them from Go maps): compared order-insensitively.
//	A6  error `data` is free-form; only code and message are compared.
//
// (Object key order is irrelevant in JSON; v0.10 prints price_in_wei before price_in_fri.)
var v10HeaderExtras = []string{"transaction_commitment", "event_commitment", "receipt_commitment", "state_diff_commitment",
	"event_count", "transaction_count", "state_diff_length"}

func deepCopyJSON(v any) any {
	switch t := v.(type) {
	case map[string]any:
		o := make(map[string]any, len(t))
		for k, e := range t {
			o[k] = deepCopyJSON(e)
		}
		return o
	case []any:
		a := make([]any, len(t))
		for i, e := range t {
			a[i] = deepCopyJSON(e)
		}
		return a
	default:
		return v
	}
}

func sortSets(v any) any {
	switch t := v.(type) {
	case map[string]any:
		for k, e := range t {
			t[k] = sortSets(e)
		}
		return t
	case []any:
		for i, e := range t {
			t[i] = sortSets(e)
		}
		sort.Slice(t, func(i, j int) bool {
			a, _ := json.Marshal(t[i])
			b, _ := json.Marshal(t[j])
			return bytes.Compare(a, b) < 0
		})
		return t
	default:
		return v
	}
}

// comparable reports whether version ver takes part in the cross-version comparison of q.
func xverComparable(ver string, q *rq) bool {
	if len(q.Flags) > 0 || q.Only != nil {
		return false // A4 (v0.10-only parameters)
	}
	if q.B != nil {
		if q.B.Kind == "pending" {
			return false // A3 (only v0.8 knows it)
		}
		if q.B.Kind == "l1_accepted" && ver == "v8" {
			return false // A3
		}
	}
	return true
}

// canon returns the normalised form of a response.
func canon(ver string, q *rq, rp *reply) any {
	if rp.Bad != "" {
		return "BAD:" + rp.Bad
	}
	if !rp.HasRes {
		return fmt.Sprintf("ERROR %d %s", rp.Code, rp.ErrMsg) // A6
	}
	res := deepCopyJSON(rp.Result)
	switch q.M {
	case "getBlockWithTxHashes", "getBlockWithTxs", "getBlockWithReceipts":
		if ver == "v10" { // A1
			if o := obj(res); o != nil {
				for _, k := range v10HeaderExtras {
					delete(o, k)
				}
			}
		}
	case "getStateUpdate":
		if o := obj(res); o != nil {
			if d := obj(o["state_diff"]); d != nil {
				if ver == "v10" {
					delete(d, "migrated_compiled_classes") // A2
				}
				o["state_diff"] = sortSets(d) // A5
			}
		}
	}
	return res
}

// firstDiff returns the path of the first difference between two JSON values ("" = equal).
func firstDiff(a, b any, path string) string {
	switch x := a.(type) {
	case map[string]any:
		y, ok := b.(map[string]any)
		if !ok {
			return path + ":type"
		}
		keys := map[string]bool{}
		for k := range x {
			keys[k] = true
		}
		for k := range y {
			keys[k] = true
		}
		ks := make([]string, 0, len(keys))
		for k := range keys {
			ks = append(ks, k)
		}
		sort.Strings(ks)
		for _, k := range ks {
			xv, xo := x[k]
			yv, yo := y[k]
			if xo != yo {
				return path + "." + k + ":presence"
			}
			if d := firstDiff(xv, yv, path+"."+k); d != "" {
				return d
			}
		}
		return ""
	case []any:
		y, ok := b.([]any)
		if !ok {
			return path + ":type"
		}
		if len(x) != len(y) {
			return path + ":length"
		}
		for i := range x {
			if d := firstDiff(x[i], y[i], path+"[]"); d != "" {
				return d
			}
		}
		return ""
	default:
		ja, _ := json.Marshal(a)
		jb, _ := json.Marshal(b)
		if !bytes.Equal(ja, jb) {
			return path + ":value"
		}
		return ""
	}
}

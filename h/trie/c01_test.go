package vtrie

import (
	"fmt"
	"math/big"
	"math/rand/v2"
	"testing"
	"time"

	"github.com/NethermindEth/juno/core/crypto"
	"github.com/NethermindEth/juno/core/felt"
	"github.com/NethermindEth/juno/core/trie"
	"github.com/NethermindEth/juno/core/trie2"
	"github.com/NethermindEth/juno/core/trie2/triedb/rawdb"
	"github.com/NethermindEth/juno/core/trie2/trienode"
	"github.com/NethermindEth/juno/core/trie2/trieutils"
	"github.com/NethermindEth/juno/db"
	"github.com/NethermindEth/juno/db/memory"
	"github.com/NethermindEth/juno/verifh/lib"
)

type op struct {
	K *big.Int
	V uint64 // 0 = delete
}

type script struct {
	Height   int
	Poseidon bool
	Batches  [][]op
}

func (s script) hashFn() crypto.HashFn {
	if s.Poseidon {
		return crypto.Poseidon
	}
	return crypto.Pedersen
}

func genScript(rng *rand.Rand) script {
	var s script
	switch rng.IntN(10) {
	case 0, 1:
		s.Height = 64
	case 2:
		s.Height = 3 + rng.IntN(8)
	case 3:
		s.Height = 1 + rng.IntN(3)
	default:
		s.Height = 251
	}
	s.Poseidon = rng.IntN(3) == 0
	nkeys := 1 + rng.IntN(24)
	big1 := rng.IntN(12) == 0 // occasionally cross the >100-updates parallel thresholds
	if big1 {
		nkeys = 120 + rng.IntN(300)
	}
	if s.Height < 10 {
		nkeys = min(nkeys, 1<<uint(s.Height))
	}
	keys := lib.GenKeys(rng, s.Height, nkeys)
	nb := 1 + rng.IntN(6)
	val := uint64(1)
	for b := 0; b < nb; b++ {
		var batch []op
		nops := 1 + rng.IntN(2*len(keys))
		if big1 && b == 0 {
			nops = len(keys)
		}
		for i := 0; i < nops; i++ {
			k := keys[rng.IntN(len(keys))]
			if big1 && b == 0 {
				k = keys[i]
			}
			switch rng.IntN(10) {
			case 0, 1, 2: // delete (present or absent)
				batch = append(batch, op{k, 0})
			case 3: // write a value likely equal to an earlier one
				batch = append(batch, op{k, 1 + uint64(rng.IntN(3))})
			default:
				val++
				batch = append(batch, op{k, val + 10})
			}
		}
		s.Batches = append(s.Batches, batch)
	}
	return s
}

func applyModel(m map[string]lib.KV, o op) {
	ks := o.K.String()
	if o.V == 0 {
		delete(m, ks)
		return
	}
	m[ks] = lib.KV{K: o.K, V: lib.F(o.V)}
}

type mismatch struct {
	Impl   string
	Batch  int
	Want   string
	Got    string
	Err    string
	Script string
}

func (s script) String() string {
	out := fmt.Sprintf("height=%d poseidon=%v", s.Height, s.Poseidon)
	for i, b := range s.Batches {
		out += fmt.Sprintf(" | batch%d:", i)
		for j, o := range b {
			if j >= 40 {
				out += fmt.Sprintf(" ...(%d ops)", len(b))
				break
			}
			out += fmt.Sprintf(" %s=%d", o.K.Text(16), o.V)
		}
	}
	return out
}

// --- implementations under observation; each returns the root after every batch.

// legacy trie over an indexed batch of a memory store; reopen=true drops every
// in-memory object between batches (restart).
func runLegacy(s script, reopen bool) ([]felt.Felt, error) {
	store := memory.New()
	prefix := []byte{0x77}
	newTrie := func(txn db.IndexedBatch) (*trie.Trie, error) {
		if s.Poseidon {
			return trie.NewTriePoseidon(txn, prefix, uint8(s.Height))
		}
		return trie.NewTriePedersen(txn, prefix, uint8(s.Height))
	}
	var roots []felt.Felt
	var txn db.IndexedBatch
	var tr *trie.Trie
	var err error
	for _, b := range s.Batches {
		if tr == nil || reopen {
			txn = store.NewIndexedBatch()
			if tr, err = newTrie(txn); err != nil {
				return roots, err
			}
		}
		for _, o := range b {
			if _, err := tr.Put(lib.FeltOfBig(o.K), lib.F(o.V)); err != nil {
				return roots, err
			}
		}
		root, err := tr.Hash()
		if err != nil {
			return roots, err
		}
		if err := tr.Commit(); err != nil {
			return roots, err
		}
		roots = append(roots, root)
		if reopen {
			if err := txn.Write(); err != nil {
				return roots, err
			}
		}
	}
	return roots, nil
}

func runLegacyTemp(s script) ([]felt.Felt, error) {
	var roots []felt.Felt
	fn := func(tr *trie.Trie) error {
		for _, b := range s.Batches {
			for _, o := range b {
				if _, err := tr.Put(lib.FeltOfBig(o.K), lib.F(o.V)); err != nil {
					return err
				}
			}
			root, err := tr.Hash()
			if err != nil {
				return err
			}
			roots = append(roots, root)
		}
		return nil
	}
	var err error
	if s.Poseidon {
		err = trie.RunOnTempTriePoseidon(uint8(s.Height), fn)
	} else {
		err = trie.RunOnTempTriePedersen(uint8(s.Height), fn)
	}
	return roots, err
}

func runTrie2Temp(s script, hashEvery bool) ([]felt.Felt, error) {
	tr := trie2.NewEmpty(uint8(s.Height), s.hashFn())
	var roots []felt.Felt
	for bi, b := range s.Batches {
		for _, o := range b {
			if err := tr.Update(lib.FeltOfBig(o.K), lib.F(o.V)); err != nil {
				return roots, err
			}
		}
		if hashEvery || bi == len(s.Batches)-1 {
			root, err := tr.Hash()
			if err != nil {
				return roots, err
			}
			roots = append(roots, root)
		} else {
			roots = append(roots, felt.Felt{}) // placeholder, not compared
		}
	}
	return roots, nil
}

// trie2 persisted through the raw trie database; kind selects which bucket /
// owner the trie lives under (class, contract, contract storage); the trie is
// committed and reopened from the database after every batch.
func runTrie2Persist(s script, kind int) ([]felt.Felt, error) {
	store := memory.New()
	tdb := rawdb.New(store)
	owner := felt.Address(*lib.F(0xabcdef))
	mkID := func(root *felt.Felt) trieutils.TrieID {
		sc := felt.StateRootHash(*root)
		switch kind {
		case 0:
			return trieutils.NewClassTrieID(sc)
		case 1:
			return trieutils.NewContractTrieID(sc)
		default:
			return trieutils.NewContractStorageTrieID(sc, owner)
		}
	}
	var roots []felt.Felt
	cur := felt.Zero
	for bi, b := range s.Batches {
		tr, err := trie2.New(mkID(&cur), uint8(s.Height), s.hashFn(), tdb)
		if err != nil {
			return roots, fmt.Errorf("open at batch %d: %w", bi, err)
		}
		for _, o := range b {
			if err := tr.Update(lib.FeltOfBig(o.K), lib.F(o.V)); err != nil {
				return roots, err
			}
		}
		root, nodes := tr.Commit()
		roots = append(roots, root)
		if nodes != nil {
			batch := store.NewBatch()
			merged := trienode.NewMergeNodeSet(nodes)
			nr := felt.StateRootHash(root)
			pr := felt.StateRootHash(cur)
			switch kind {
			case 0:
				err = tdb.Update(&nr, &pr, uint64(bi), merged, nil, batch)
			case 1:
				err = tdb.Update(&nr, &pr, uint64(bi), nil, merged, batch)
			default:
				// storage tries travel as child sets of the contract node set
				parent := trienode.NewMergeNodeSet(nil)
				if err = parent.Merge(nodes); err == nil {
					err = tdb.Update(&nr, &pr, uint64(bi), nil, parent, batch)
				}
			}
			if err != nil {
				return roots, err
			}
			if err := batch.Write(); err != nil {
				return roots, err
			}
		}
		// any non-zero state commitment makes New() load the root from disk
		if root.IsZero() {
			cur = felt.Zero
		} else {
			cur = root
		}
	}
	return roots, nil
}

func checkScript(r *lib.Run, idx int, s script) {
	model := map[string]lib.KV{}
	var want []felt.Felt
	for _, b := range s.Batches {
		for _, o := range b {
			applyModel(model, o)
		}
		want = append(want, lib.RefRoot(lib.SortedKVs(model), s.Height, s.hashFn()))
	}
	type impl struct {
		name string
		run  func() ([]felt.Felt, error)
	}
	impls := []impl{
		{"legacy/keep-open", func() ([]felt.Felt, error) { return runLegacy(s, false) }},
		{"legacy/reopen-each-batch", func() ([]felt.Felt, error) { return runLegacy(s, true) }},
		{"legacy/temp", func() ([]felt.Felt, error) { return runLegacyTemp(s) }},
		{"trie2/temp-hash-each-batch", func() ([]felt.Felt, error) { return runTrie2Temp(s, true) }},
		{"trie2/temp-hash-at-end", func() ([]felt.Felt, error) { return runTrie2Temp(s, false) }},
		{"trie2/rawdb-class", func() ([]felt.Felt, error) { return runTrie2Persist(s, 0) }},
		{"trie2/rawdb-contract", func() ([]felt.Felt, error) { return runTrie2Persist(s, 1) }},
		{"trie2/rawdb-storage", func() ([]felt.Felt, error) { return runTrie2Persist(s, 2) }},
	}
	for _, im := range impls {
		got, err := im.run()
		r.Eval(1)
		if err != nil {
			r.Violation("trie-error:"+im.name, idx, fmt.Sprintf("%s returned error %v", im.name, err),
				mismatch{Impl: im.name, Err: err.Error(), Script: s.String()})
			continue
		}
		for i := range want {
			if im.name == "trie2/temp-hash-at-end" && i != len(want)-1 {
				continue
			}
			if i >= len(got) || !got[i].Equal(&want[i]) {
				g := "missing"
				if i < len(got) {
					g = got[i].String()
				}
				r.Violation("root-mismatch:"+im.name, idx,
					fmt.Sprintf("%s root after batch %d is %s, protocol definition gives %s", im.name, i, g, want[i].String()),
					mismatch{Impl: im.name, Batch: i, Want: want[i].String(), Got: g, Script: s.String()})
				break
			}
		}
	}
	// structural key: height class, hash, number of leaves bucket, deletes present, batches
	dels, puts := 0, 0
	for _, b := range s.Batches {
		for _, o := range b {
			if o.V == 0 {
				dels++
			} else {
				puts++
			}
		}
	}
	if puts > 0 {
		r.Case(fmt.Sprintf("h%d-p%v-b%d-l%d-d%d-%s", s.Height, s.Poseidon, len(s.Batches), len(model), dels, want[len(want)-1].String()))
	}
	r.Count("trie_scripts", 1)
	r.Count("trie_ops", puts+dels)
	r.Count("trie_deletes", dels)
	if len(model) == 0 {
		r.Count("final_empty_tries", 1)
	}
	if len(model) == 1 {
		r.Count("final_single_leaf_tries", 1)
	}
	for _, b := range s.Batches {
		if len(b) > 100 {
			r.Count("batches_over_100_updates(parallel paths)", 1)
		}
	}
	if idx < 2 {
		r.Sample(map[string]any{"case": idx, "script": s.String(), "final_root": want[len(want)-1].String(), "leaves": len(model)})
	}
}

func TestC01(t *testing.T) {
	r := lib.Start("C01", "exploration")
	n := r.N(600, 25000)
	rule := "case = random op script (insert/overwrite/same-value/zero-write to present+absent, 1-6 commit batches, heights 251/64/small, "+
		"clustered keys) run through 8 trie configurations (legacy persistent kept-open/reopened, legacy temp, trie2 temp, trie2 rawdb class/contract/storage "+
		"with commit+reopen per batch) plus whole-state chains on both state backends; root after every batch compared with the independent recursive definition; "+
		"distinct = distinct (shape, final root) with at least one non-zero write"
	r.SetFinish(rule, 50)
	r.Cases(n, 0, func(idx int) {
		s := genScript(lib.Rng("C01/trie", uint64(idx)))
		// normal: milliseconds per script; a trie operation that never returns (and allocates) on a
		// broken tree must end in a verdict, not in the kernel killing the process
		r.Bounded(idx, "trie-operations-of-one-script", 3*time.Minute, func() any { return s }, func() { checkScript(r, idx, s) })
	})
	stateLayer(r)
	r.Assume("crypto.Pedersen / crypto.Poseidon are trusted (the oracle recomputes the commitment with the same primitives)")
	r.Finish(rule, 50)
}

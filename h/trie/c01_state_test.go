package vtrie

import (
	"fmt"

	"github.com/NethermindEth/juno/blockchain/networks"
	"github.com/NethermindEth/juno/core"
	"github.com/NethermindEth/juno/core/state"
	"github.com/NethermindEth/juno/verifh/lib"
	"github.com/NethermindEth/juno/verifh/lib/chain"
)

// stateLayer: whole-state commitments. Chains are finalised by a builder on one
// backend and verified+stored by a node on the other (Store recomputes the root and
// rejects a mismatch), and every block's GlobalStateRoot is compared with the
// commitment of the abstract state computed from the protocol definition. The
// temporary-trie commitments (tx / event / receipt) are recomputed with both
// temporary-trie backends and must coincide.
func stateLayer(r *lib.Run) {
	n := r.N(40, 800)
	r.Cases(n, 0, func(idx int) {
		rng := lib.Rng("C01/state", uint64(idx))
		g := chain.NewGen(rng, chain.Opts{})
		builderNew := idx%2 == 1
		b := chain.NewBuilder(builderNew)
		other := chain.NewMemNode(!builderNew)
		c := &chain.Chain{}
		length := 6 + rng.IntN(10)
		if err := g.Extend(c, b, length); err != nil {
			r.Violation("state:finalise-error", idx, err.Error(), nil)
			return
		}
		restartAt := rng.IntN(length)
		// new-state verifier, every other such case: at the restart point every contract record is
		// rewritten the way the head-state migration writes it (state.WriteContract: nonce, class
		// hash, deploy height; "StorageRoot is left zero - the running node lazily backfills it");
		// the storage tries stay as they are. Later blocks must still verify.
		stripRoots := !builderNew && idx%4 == 0
		stripped := ""
		for i, blk := range c.Blocks {
			ver := blk.Block.ProtocolVersion
			want, cr, clr := c.States[i].Commitment(ver)
			r.Eval(1)
			if !want.Equal(blk.Block.GlobalStateRoot) {
				r.Violation(fmt.Sprintf("state-root-mismatch:builder-newstate=%v", builderNew), idx,
					fmt.Sprintf("block %d (%s): backend newState=%v computed root %s, protocol definition gives %s (contracts %s classes %s)",
						i, ver, builderNew, blk.Block.GlobalStateRoot, &want, &cr, &clr),
					map[string]any{"block": i, "version": ver, "builderNewState": builderNew})
				return
			}
			if err := other.StoreBlk(blk); err != nil {
				r.Violation(fmt.Sprintf("state-root-disagreement:store-newstate=%v%s", !builderNew, stripped), idx,
					fmt.Sprintf("block %d finalised by backend newState=%v is rejected by backend newState=%v: %v", i, builderNew, !builderNew, err),
					map[string]any{"block": i, "version": ver})
				return
			}
			if i == restartAt {
				if stripRoots {
					batch := other.DB.NewBatch()
					n := 0
					for a := range c.States[i].Contracts {
						a := a
						rec, err := state.GetContract(other.DB, &a)
						if err != nil {
							continue
						}
						if err := state.WriteContract(batch, &a, rec.Nonce, rec.ClassHash, rec.DeployedHeight); err != nil {
							panic(err)
						}
						n++
					}
					if err := batch.Write(); err != nil {
						panic(err)
					}
					stripped = ":after-contract-records-rewritten-without-storage-root"
					r.Count("contract_records_rewritten_without_storage_root", n)
				}
				other.Restart(false) // drop all in-memory objects, reopen over the same store
			}
			// temporary tries: both backends must produce the same commitments and hash
			h1, c1, e1 := core.BlockHash(blk.Block, blk.SU.StateDiff, &networks.Sepolia, nil, core.TrieBackend)
			h2, c2, e2 := core.BlockHash(blk.Block, blk.SU.StateDiff, &networks.Sepolia, nil, core.DeprecatedTrieBackend)
			r.Eval(2)
			if e1 != nil || e2 != nil || !h1.Equal(&h2) || !c1.TransactionCommitment.Equal(c2.TransactionCommitment) ||
				!c1.EventCommitment.Equal(c2.EventCommitment) || !c1.ReceiptCommitment.Equal(c2.ReceiptCommitment) ||
				!h1.Equal(blk.Block.Hash) {
				r.Violation("temp-trie-backends-disagree", idx, fmt.Sprintf("block %d: trie2-backed hash %s vs legacy-backed %s vs stored %s (errs %v %v)", i, &h1, &h2, blk.Block.Hash, e1, e2), nil)
				return
			}
			r.Count("state_blocks_checked", 1)
			if len(blk.Block.Transactions) > 0 {
				r.Count("blocks_with_commitment_tries", 1)
			}
		}
		st := c.TipState()
		r.Case(fmt.Sprintf("state-%v-%d-%d-%s", builderNew, len(st.Contracts), len(st.Classes), c.Tip().Block.GlobalStateRoot))
		if idx == 0 {
			r.Sample(map[string]any{"state_chain_case": idx, "blocks": length, "builder_new_state": builderNew, "contracts": len(st.Contracts),
				"classes": len(st.Classes), "final_root": c.Tip().Block.GlobalStateRoot.String(), "versions": []string{c.Blocks[0].Block.ProtocolVersion, c.Tip().Block.ProtocolVersion}})
		}
	})
}

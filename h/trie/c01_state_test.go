package vtrie

import "github.com/NethermindEth/juno/verifh/lib"

func stateLayer(r *lib.Run) {}

package vverify

import (
	"fmt"
	"math/big"
	"math/rand/v2"
	"sort"

	"github.com/Masterminds/semver/v3"
	"github.com/NethermindEth/juno/blockchain/networks"
	"github.com/NethermindEth/juno/core"
	"github.com/NethermindEth/juno/core/crypto"
	"github.com/NethermindEth/juno/core/felt"
	"github.com/NethermindEth/juno/verifh/lib/chain"
)

// ---------------------------------------------------------------------------------
// Tamper operators and their applicability table.
//
// The table is written from the Starknet protocol (block-hash preimage per block
// format, transaction-hash preimage per kind/version, receipt/event/state-diff
// commitments), see DESIGN.md C02 + Appendix A. An operator is only ever emitted for a
// subject whose format COMMITS the field; nothing below consults Juno's code to decide.
//
// Block formats:
//   pre07   Pedersen(number, state root, 0, 0, tx count, tx commitment, 0, 0, 0, 0, chain id, parent)
//   post07  Pedersen(number, state root, sequencer, timestamp, tx count, tx commitment,
//                    event count, event commitment, 0, 0, parent)              (< 0.13.2)
//   0.13.2  Poseidon(.., number, root, sequencer, timestamp, counts|sd-length|DA bit, sd commitment,
//                    tx, event, receipt commitments, L1 gas wei/fri, L1 data gas wei/fri, version, 0, parent)
//   0.13.4  as 0.13.2 with all six gas prices (incl. L2 gas) folded into one hash
//
// Deliberately never tampered (not committed): receipt L2 gas, execution resources other
// than the hashed (L1 gas, L1 data gas) pair, fee unit, L1->L2 message echo, EventsBloom,
// Signatures, revert reason of a non-reverted receipt, fields of deploy v0 / declare v0 /
// nonce-less L1 handler beyond their hash, transaction fields of blocks < 0.11.0 (hash not
// recomputable by rule), receipts and state diffs of formats < 0.13.2, gas prices / DA mode /
// version string of formats < 0.13.2, L2 gas price of format 0.13.2, timestamp / sequencer /
// events of pre07, blocks inside a network's documented unverifiable range.
// ---------------------------------------------------------------------------------

type tamper struct {
	Op     string // operator id = row of the applicability table
	Loc    string // where in the block it was applied
	Apply  func(b *chain.Blk)
	Rehash bool   // forged variant: block hash recomputed after the change (only linkage/root checks can catch it)
	Stage  string // "sanity" (hash-level) or "store" (needs the node's chain/state)
}

// subject describes what the tampered triple is, as far as applicability goes.
type subject struct {
	Net       *networks.Network
	Format    string
	Ver       *semver.Version
	HasSU     bool // state update available (state-diff operators need it)
	TxOnly    bool // >= 0.13.2 fixture shipped without state update: only transaction hashes can be checked
	Synthetic bool
}

var (
	ver0110 = semver.MustParse("0.11.0")
	ver0111 = semver.MustParse("0.11.1")
)

func (s *subject) poseidon() bool { return s.Format == "0.13.2" || s.Format == "0.13.4" }

// transaction hashes are recomputed from 0.11.0 on
func (s *subject) txHashVerified() bool { return s.Ver.GreaterThanEqual(ver0110) }

// signatures of non-invoke transactions enter the transaction commitment from 0.11.1 on
func (s *subject) sigCommitted(tx core.Transaction) bool {
	switch tx.(type) {
	case *core.DeployTransaction, *core.L1HandlerTransaction:
		return false // these kinds carry no signature
	case *core.InvokeTransaction:
		return true
	}
	return s.poseidon() || s.Ver.GreaterThanEqual(ver0111)
}

func one() *felt.Felt { return felt.NewFromUint64[felt.Felt](1) }

func inc(f *felt.Felt) *felt.Felt { return new(felt.Felt).Add(f, one()) }

func incV(f felt.Felt) felt.Felt { return *new(felt.Felt).Add(&f, one()) }

func pow2(bits uint) *felt.Felt {
	return new(felt.Felt).Exp(felt.NewFromUint64[felt.Felt](2), new(big.Int).SetUint64(uint64(bits)))
}

// bumpFn changes a committed felt. Every felt operator comes in two variants - lowest bit
// and a high bit - so that a preimage built from only part of the field is noticed as well.
type bumpFn func(*felt.Felt) *felt.Felt

const (
	feltHi  = 200 // any felt
	priceHi = 100 // prices and fees are 128-bit quantities
)

var queryBit = new(felt.Felt).Exp(felt.NewFromUint64[felt.Felt](2), new(big.Int).SetUint64(128))

// txKind names the row of Appendix A a transaction belongs to; recomputable=false for
// kinds whose hash no client recomputes.
func txKind(tx core.Transaction) (kind string, recomputable bool) {
	v := tx.TxVersion()
	vn := "v?"
	for _, n := range []uint64{0, 1, 2, 3} {
		if v != nil && v.Is(n) {
			vn = fmt.Sprintf("v%d", n)
		}
	}
	switch t := tx.(type) {
	case *core.InvokeTransaction:
		return "invoke-" + vn, vn == "v0" || vn == "v1" || vn == "v3"
	case *core.DeclareTransaction:
		return "declare-" + vn, vn == "v1" || vn == "v2" || vn == "v3"
	case *core.DeployAccountTransaction:
		return "deploy_account-" + vn, vn == "v1" || vn == "v3"
	case *core.L1HandlerTransaction:
		if t.Nonce == nil {
			return "l1_handler-" + vn + "-nononce", false
		}
		return "l1_handler-" + vn, vn == "v0"
	case *core.DeployTransaction:
		return "deploy-" + vn, false
	}
	return "unknown", false
}

type feltF struct {
	name string
	get  func(core.Transaction) **felt.Felt
}
type sliceF struct {
	name string
	get  func(core.Transaction) *[]felt.Felt
}

func inv(tx core.Transaction) *core.InvokeTransaction  { return tx.(*core.InvokeTransaction) }
func dcl(tx core.Transaction) *core.DeclareTransaction { return tx.(*core.DeclareTransaction) }
func dpa(tx core.Transaction) *core.DeployAccountTransaction {
	return tx.(*core.DeployAccountTransaction)
}
func l1h(tx core.Transaction) *core.L1HandlerTransaction { return tx.(*core.L1HandlerTransaction) }

// committedFields is Appendix A: the hashed felt / felt-slice fields per kind, plus whether
// the v3 block (tip, resource bounds, DA modes) applies.
func committedFields(kind string) (felts []feltF, slices []sliceF, v3 bool) {
	switch kind {
	case "invoke-v0":
		return []feltF{
				{"contract_address", func(t core.Transaction) **felt.Felt { return &inv(t).ContractAddress }},
				{"entry_point_selector", func(t core.Transaction) **felt.Felt { return &inv(t).EntryPointSelector }},
				{"max_fee", func(t core.Transaction) **felt.Felt { return &inv(t).MaxFee }},
			}, []sliceF{
				{"calldata", func(t core.Transaction) *[]felt.Felt { return &inv(t).CallData }},
			}, false
	case "invoke-v1":
		return []feltF{
				{"sender_address", func(t core.Transaction) **felt.Felt { return &inv(t).SenderAddress }},
				{"max_fee", func(t core.Transaction) **felt.Felt { return &inv(t).MaxFee }},
				{"nonce", func(t core.Transaction) **felt.Felt { return &inv(t).Nonce }},
			}, []sliceF{
				{"calldata", func(t core.Transaction) *[]felt.Felt { return &inv(t).CallData }},
			}, false
	case "invoke-v3":
		return []feltF{
				{"sender_address", func(t core.Transaction) **felt.Felt { return &inv(t).SenderAddress }},
				{"nonce", func(t core.Transaction) **felt.Felt { return &inv(t).Nonce }},
			}, []sliceF{
				{"calldata", func(t core.Transaction) *[]felt.Felt { return &inv(t).CallData }},
				{"paymaster_data", func(t core.Transaction) *[]felt.Felt { return &inv(t).PaymasterData }},
				{"account_deployment_data", func(t core.Transaction) *[]felt.Felt { return &inv(t).AccountDeploymentData }},
				{"proof_facts", func(t core.Transaction) *[]felt.Felt { return &inv(t).ProofFacts }},
			}, true
	case "declare-v1", "declare-v2":
		f := []feltF{
			{"class_hash", func(t core.Transaction) **felt.Felt { return &dcl(t).ClassHash }},
			{"sender_address", func(t core.Transaction) **felt.Felt { return &dcl(t).SenderAddress }},
			{"max_fee", func(t core.Transaction) **felt.Felt { return &dcl(t).MaxFee }},
			{"nonce", func(t core.Transaction) **felt.Felt { return &dcl(t).Nonce }},
		}
		if kind == "declare-v2" {
			f = append(f, feltF{"compiled_class_hash", func(t core.Transaction) **felt.Felt { return &dcl(t).CompiledClassHash }})
		}
		return f, nil, false
	case "declare-v3":
		return []feltF{
				{"class_hash", func(t core.Transaction) **felt.Felt { return &dcl(t).ClassHash }},
				{"compiled_class_hash", func(t core.Transaction) **felt.Felt { return &dcl(t).CompiledClassHash }},
				{"sender_address", func(t core.Transaction) **felt.Felt { return &dcl(t).SenderAddress }},
				{"nonce", func(t core.Transaction) **felt.Felt { return &dcl(t).Nonce }},
			}, []sliceF{
				{"paymaster_data", func(t core.Transaction) *[]felt.Felt { return &dcl(t).PaymasterData }},
				{"account_deployment_data", func(t core.Transaction) *[]felt.Felt { return &dcl(t).AccountDeploymentData }},
			}, true
	case "deploy_account-v1":
		return []feltF{
				{"class_hash", func(t core.Transaction) **felt.Felt { return &dpa(t).ClassHash }},
				{"contract_address_salt", func(t core.Transaction) **felt.Felt { return &dpa(t).ContractAddressSalt }},
				{"contract_address", func(t core.Transaction) **felt.Felt { return &dpa(t).ContractAddress }},
				{"max_fee", func(t core.Transaction) **felt.Felt { return &dpa(t).MaxFee }},
				{"nonce", func(t core.Transaction) **felt.Felt { return &dpa(t).Nonce }},
			}, []sliceF{
				{"constructor_calldata", func(t core.Transaction) *[]felt.Felt { return &dpa(t).ConstructorCallData }},
			}, false
	case "deploy_account-v3":
		return []feltF{
				{"class_hash", func(t core.Transaction) **felt.Felt { return &dpa(t).ClassHash }},
				{"contract_address_salt", func(t core.Transaction) **felt.Felt { return &dpa(t).ContractAddressSalt }},
				{"contract_address", func(t core.Transaction) **felt.Felt { return &dpa(t).ContractAddress }},
				{"nonce", func(t core.Transaction) **felt.Felt { return &dpa(t).Nonce }},
			}, []sliceF{
				{"constructor_calldata", func(t core.Transaction) *[]felt.Felt { return &dpa(t).ConstructorCallData }},
				{"paymaster_data", func(t core.Transaction) *[]felt.Felt { return &dpa(t).PaymasterData }},
			}, true
	case "l1_handler-v0":
		return []feltF{
				{"contract_address", func(t core.Transaction) **felt.Felt { return &l1h(t).ContractAddress }},
				{"entry_point_selector", func(t core.Transaction) **felt.Felt { return &l1h(t).EntryPointSelector }},
				{"nonce", func(t core.Transaction) **felt.Felt { return &l1h(t).Nonce }},
			}, []sliceF{
				{"calldata", func(t core.Transaction) *[]felt.Felt { return &l1h(t).CallData }},
			}, false
	}
	return nil, nil, false
}

// v3 accessors (three struct types share the field names)
func v3Bounds(tx core.Transaction) *map[core.Resource]core.ResourceBounds {
	switch t := tx.(type) {
	case *core.InvokeTransaction:
		return &t.ResourceBounds
	case *core.DeclareTransaction:
		return &t.ResourceBounds
	case *core.DeployAccountTransaction:
		return &t.ResourceBounds
	}
	return nil
}

func v3Tip(tx core.Transaction) *uint64 {
	switch t := tx.(type) {
	case *core.InvokeTransaction:
		return &t.Tip
	case *core.DeclareTransaction:
		return &t.Tip
	case *core.DeployAccountTransaction:
		return &t.Tip
	}
	return nil
}

func v3DA(tx core.Transaction) (nonce, fee *core.DataAvailabilityMode) {
	switch t := tx.(type) {
	case *core.InvokeTransaction:
		return &t.NonceDAMode, &t.FeeDAMode
	case *core.DeclareTransaction:
		return &t.NonceDAMode, &t.FeeDAMode
	case *core.DeployAccountTransaction:
		return &t.NonceDAMode, &t.FeeDAMode
	}
	return nil, nil
}

func setTxHash(tx core.Transaction, h *felt.Felt) {
	switch t := tx.(type) {
	case *core.InvokeTransaction:
		t.TransactionHash = h
	case *core.DeclareTransaction:
		t.TransactionHash = h
	case *core.DeployAccountTransaction:
		t.TransactionHash = h
	case *core.L1HandlerTransaction:
		t.TransactionHash = h
	case *core.DeployTransaction:
		t.TransactionHash = h
	}
}

func txSig(tx core.Transaction) *[]felt.Felt {
	switch t := tx.(type) {
	case *core.InvokeTransaction:
		return &t.TransactionSignature
	case *core.DeclareTransaction:
		return &t.TransactionSignature
	case *core.DeployAccountTransaction:
		return &t.TransactionSignature
	}
	return nil
}

func txVersion(tx core.Transaction) **core.TransactionVersion {
	switch t := tx.(type) {
	case *core.InvokeTransaction:
		return &t.Version
	case *core.DeclareTransaction:
		return &t.Version
	case *core.DeployAccountTransaction:
		return &t.Version
	case *core.L1HandlerTransaction:
		return &t.Version
	case *core.DeployTransaction:
		return &t.Version
	}
	return nil
}

// --- felt-slice operators (shared by calldata-like fields, event keys/data, payloads)

type sliceOp struct {
	name string
	ok   func(s []felt.Felt) bool
	do   func(s []felt.Felt) []felt.Felt
}

var sliceOps = []sliceOp{
	{"change-first", func(s []felt.Felt) bool { return len(s) > 0 }, func(s []felt.Felt) []felt.Felt {
		o := append([]felt.Felt{}, s...)
		o[0] = incV(o[0])
		return o
	}},
	{"change-first(high bit)", func(s []felt.Felt) bool { return len(s) > 0 }, func(s []felt.Felt) []felt.Felt {
		o := append([]felt.Felt{}, s...)
		o[0] = *new(felt.Felt).Add(&o[0], pow2(feltHi))
		return o
	}},
	{"change-last", func(s []felt.Felt) bool { return len(s) > 1 }, func(s []felt.Felt) []felt.Felt {
		o := append([]felt.Felt{}, s...)
		o[len(o)-1] = incV(o[len(o)-1])
		return o
	}},
	{"append", func(s []felt.Felt) bool { return true }, func(s []felt.Felt) []felt.Felt {
		return append(append([]felt.Felt{}, s...), *felt.NewFromUint64[felt.Felt](4321))
	}},
	{"drop-last", func(s []felt.Felt) bool { return len(s) > 0 }, func(s []felt.Felt) []felt.Felt {
		return append([]felt.Felt{}, s[:len(s)-1]...)
	}},
	{"swap-first-two", func(s []felt.Felt) bool { return len(s) > 1 && !s[0].Equal(&s[1]) }, func(s []felt.Felt) []felt.Felt {
		o := append([]felt.Felt{}, s...)
		o[0], o[1] = o[1], o[0]
		return o
	}},
}

// In the 0.13.2 format an empty signature is committed as [0]: [] and [0] are the same
// leaf by protocol, so a tamper turning one into the other changes nothing committed.
func sigEquivalent0132(a, b []felt.Felt) bool {
	norm := func(s []felt.Felt) []felt.Felt {
		if len(s) == 0 {
			return []felt.Felt{{}}
		}
		return s
	}
	a, b = norm(a), norm(b)
	if len(a) != len(b) {
		return false
	}
	for i := range a {
		if !a[i].Equal(&b[i]) {
			return false
		}
	}
	return true
}

func eventEq(a, b *core.Event) bool {
	if !a.From.Equal(b.From) || len(a.Keys) != len(b.Keys) || len(a.Data) != len(b.Data) {
		return false
	}
	for i := range a.Keys {
		if !a.Keys[i].Equal(&b.Keys[i]) {
			return false
		}
	}
	for i := range a.Data {
		if !a.Data[i].Equal(&b.Data[i]) {
			return false
		}
	}
	return true
}

func msgEq(a, b *core.L2ToL1Message) bool {
	if !a.From.Equal(b.From) || a.To != b.To || len(a.Payload) != len(b.Payload) {
		return false
	}
	for i := range a.Payload {
		if !a.Payload[i].Equal(&b.Payload[i]) {
			return false
		}
	}
	return true
}

func recount(b *core.Block) {
	b.TransactionCount = uint64(len(b.Transactions))
	n := uint64(0)
	for _, rc := range b.Receipts {
		n += uint64(len(rc.Events))
	}
	b.EventCount = n
	b.EventsBloom = core.EventsBloom(b.Receipts) // derived, as the adapters derive it
}

// ---------------------------------------------------------------------------------
// hash-level operators (single committed field changed, nothing else touched)
// ---------------------------------------------------------------------------------

type collector struct {
	out []tamper
}

func (c *collector) add(op, loc string, fn func(b *chain.Blk)) {
	c.out = append(c.out, tamper{Op: op, Loc: loc, Apply: fn, Stage: "sanity"})
}

func (c *collector) addV(op, loc string, bits uint, fn func(b *chain.Blk, bump bumpFn)) {
	c.add(op, loc+"(+1)", func(b *chain.Blk) { fn(b, inc) })
	hi := pow2(bits)
	c.add(op, loc+fmt.Sprintf("(+2^%d)", bits), func(b *chain.Blk) {
		fn(b, func(f *felt.Felt) *felt.Felt { return new(felt.Felt).Add(f, hi) })
	})
}

// 64-bit quantities: lowest bit and bit 40
func (c *collector) addU(op, loc string, fn func(b *chain.Blk, d uint64)) {
	c.add(op, loc+"(+1)", func(b *chain.Blk) { fn(b, 1) })
	c.add(op, loc+"(+2^40)", func(b *chain.Blk) { fn(b, 1<<40) })
}

func enumHeader(c *collector, s *subject, b *chain.Blk) {
	h := b.Block.Header
	c.addV("header/block_hash", "", feltHi, func(b *chain.Blk, bump bumpFn) { b.Block.Hash = bump(b.Block.Hash) })
	if s.HasSU && !s.TxOnly {
		c.addV("state_update/block_hash", "", feltHi, func(b *chain.Blk, bump bumpFn) { b.SU.BlockHash = bump(b.SU.BlockHash) })
		c.addV("state_update/new_root", "", feltHi, func(b *chain.Blk, bump bumpFn) { b.SU.NewRoot = bump(b.SU.NewRoot) })
	}
	c.addU("header/number", "", func(b *chain.Blk, d uint64) { b.Block.Number += d })
	if h.Number > 0 {
		c.add("header/number", "-1", func(b *chain.Blk) { b.Block.Number-- })
	}
	c.addV("header/parent_hash", "", feltHi, func(b *chain.Blk, bump bumpFn) { b.Block.ParentHash = bump(b.Block.ParentHash) })
	c.addV("header/state_root", "", feltHi, func(b *chain.Blk, bump bumpFn) { b.Block.GlobalStateRoot = bump(b.Block.GlobalStateRoot) })
	c.addU("header/transaction_count", "", func(b *chain.Blk, d uint64) { b.Block.TransactionCount += d })
	if h.TransactionCount > 0 {
		c.add("header/transaction_count", "-1", func(b *chain.Blk) { b.Block.TransactionCount-- })
	}
	if s.Format == "pre07" {
		return
	}
	if h.SequencerAddress != nil { // nil = a block the network hashed with its fallback address
		c.addV("header/sequencer_address", "", feltHi, func(b *chain.Blk, bump bumpFn) { b.Block.SequencerAddress = bump(b.Block.SequencerAddress) })
	}
	c.addU("header/timestamp", "", func(b *chain.Blk, d uint64) { b.Block.Timestamp += d })
	c.addU("header/event_count", "", func(b *chain.Blk, d uint64) { b.Block.EventCount += d })
	if !s.poseidon() {
		return
	}
	// protocol version string is part of the preimage from 0.13.2 on
	for _, nv := range []string{"0.13.2", "0.13.3", "0.13.4", "0.14.0", "0.14.1"} {
		if nv != h.ProtocolVersion {
			nv := nv
			c.add("header/protocol_version", "->"+nv, func(b *chain.Blk) { b.Block.ProtocolVersion = nv })
		}
	}
	c.add("header/l1_da_mode", "", func(b *chain.Blk) {
		if b.Block.L1DAMode == core.Blob {
			b.Block.L1DAMode = core.Calldata
		} else {
			b.Block.L1DAMode = core.Blob
		}
	})
	if h.L1GasPriceETH != nil {
		c.addV("header/l1_gas_price_wei", "", priceHi, func(b *chain.Blk, bump bumpFn) { b.Block.L1GasPriceETH = bump(b.Block.L1GasPriceETH) })
	}
	if h.L1GasPriceSTRK != nil {
		c.addV("header/l1_gas_price_fri", "", priceHi, func(b *chain.Blk, bump bumpFn) { b.Block.L1GasPriceSTRK = bump(b.Block.L1GasPriceSTRK) })
	}
	if h.L1DataGasPrice != nil && h.L1DataGasPrice.PriceInWei != nil {
		c.addV("header/l1_data_gas_price_wei", "", priceHi, func(b *chain.Blk, bump bumpFn) {
			b.Block.L1DataGasPrice.PriceInWei = bump(b.Block.L1DataGasPrice.PriceInWei)
		})
	}
	if h.L1DataGasPrice != nil && h.L1DataGasPrice.PriceInFri != nil {
		c.addV("header/l1_data_gas_price_fri", "", priceHi, func(b *chain.Blk, bump bumpFn) {
			b.Block.L1DataGasPrice.PriceInFri = bump(b.Block.L1DataGasPrice.PriceInFri)
		})
	}
	if s.Format == "0.13.4" && h.L2GasPrice != nil { // L2 gas price joined the preimage with 0.13.4
		if h.L2GasPrice.PriceInWei != nil {
			c.addV("header/l2_gas_price_wei", "", priceHi, func(b *chain.Blk, bump bumpFn) { b.Block.L2GasPrice.PriceInWei = bump(b.Block.L2GasPrice.PriceInWei) })
		}
		if h.L2GasPrice.PriceInFri != nil {
			c.addV("header/l2_gas_price_fri", "", priceHi, func(b *chain.Blk, bump bumpFn) { b.Block.L2GasPrice.PriceInFri = bump(b.Block.L2GasPrice.PriceInFri) })
		}
	}
}

func enumTxs(c *collector, s *subject, b *chain.Blk) {
	txs := b.Block.Transactions
	for i, tx := range txs {
		i := i
		kind, recomputable := txKind(tx)
		loc := fmt.Sprintf("tx[%d]", i)
		pre := "tx/" + kind + "/"
		// the hash itself: alone (breaks tx<->receipt pairing and the commitment), and together
		// with the receipt's copy, so that only the recomputation of the transaction hash / the
		// transaction commitment can notice. Without a block hash to check against (TxOnly) only
		// recomputable hashes are decidable.
		if !s.TxOnly || (recomputable && s.txHashVerified()) {
			c.addV(pre+"hash", loc, feltHi, func(b *chain.Blk, bump bumpFn) {
				tx := b.Block.Transactions[i]
				setTxHash(tx, bump(tx.Hash()))
			})
			c.addV(pre+"hash+receipt_copy", loc, feltHi, func(b *chain.Blk, bump bumpFn) {
				tx := b.Block.Transactions[i]
				nh := bump(tx.Hash())
				setTxHash(tx, nh)
				b.Block.Receipts[i].TransactionHash = nh
			})
		}
		// signature (via the transaction commitment)
		if sp := txSig(tx); sp != nil && s.sigCommitted(tx) && !s.TxOnly {
			for _, so := range sliceOps {
				if !so.ok(*sp) {
					continue
				}
				if s.Format == "0.13.2" && sigEquivalent0132(*sp, so.do(*sp)) {
					continue
				}
				so := so
				c.add(pre+"signature/"+so.name, loc, func(b *chain.Blk) {
					p := txSig(b.Block.Transactions[i])
					*p = so.do(*p)
				})
			}
		}
		if !recomputable || !s.txHashVerified() {
			continue
		}
		c.add(pre+"version/query-bit", loc, func(b *chain.Blk) {
			vp := txVersion(b.Block.Transactions[i])
			nv := core.TransactionVersion(*new(felt.Felt).Add((*vp).AsFelt(), queryBit))
			*vp = &nv
		})
		felts, slices, v3 := committedFields(kind)
		for _, ff := range felts {
			ff := ff
			if *ff.get(tx) == nil {
				continue
			}
			c.addV(pre+ff.name, loc, priceHi, func(b *chain.Blk, bump bumpFn) {
				p := ff.get(b.Block.Transactions[i])
				*p = bump(*p)
			})
		}
		for _, sf := range slices {
			sf := sf
			for _, so := range sliceOps {
				if !so.ok(*sf.get(tx)) {
					continue
				}
				so := so
				c.add(pre+sf.name+"/"+so.name, loc, func(b *chain.Blk) {
					p := sf.get(b.Block.Transactions[i])
					*p = so.do(*p)
				})
			}
		}
		if !v3 {
			continue
		}
		c.addU(pre+"tip", loc, func(b *chain.Blk, d uint64) { *v3Tip(b.Block.Transactions[i]) += d })
		c.add(pre+"nonce_da_mode", loc, func(b *chain.Blk) {
			n, _ := v3DA(b.Block.Transactions[i])
			*n ^= 1
		})
		c.add(pre+"fee_da_mode", loc, func(b *chain.Blk) {
			_, f := v3DA(b.Block.Transactions[i])
			*f ^= 1
		})
		rb := *v3Bounds(tx)
		for _, res := range []core.Resource{core.ResourceL1Gas, core.ResourceL2Gas, core.ResourceL1DataGas} {
			res := res
			cur, present := rb[res]
			if !present || cur.MaxPricePerUnit == nil {
				// L1 data gas bounds joined the preimage with 0.13.4 transactions; older v3
				// transactions do not carry (nor commit) them
				continue
			}
			c.addU(pre+"resource_bound/"+res.String()+"/max_amount", loc, func(b *chain.Blk, d uint64) {
				m := *v3Bounds(b.Block.Transactions[i])
				x := m[res]
				x.MaxAmount += d
				m[res] = x
			})
			c.addV(pre+"resource_bound/"+res.String()+"/max_price_per_unit", loc, priceHi, func(b *chain.Blk, bump bumpFn) {
				m := *v3Bounds(b.Block.Transactions[i])
				x := m[res]
				x.MaxPricePerUnit = bump(x.MaxPricePerUnit)
				m[res] = x
			})
		}
	}
	if s.TxOnly {
		return
	}
	// list structure; counts are kept consistent so that only the commitments can notice
	n := len(txs)
	if n >= 2 {
		pos := []int{0}
		if n > 2 {
			pos = append(pos, n-2)
		}
		for _, i := range pos {
			i := i
			c.add("txs/swap-adjacent(with receipts)", fmt.Sprintf("tx[%d]<->tx[%d]", i, i+1), func(b *chain.Blk) {
				t, r := b.Block.Transactions, b.Block.Receipts
				t[i], t[i+1] = t[i+1], t[i]
				r[i], r[i+1] = r[i+1], r[i]
			})
		}
		c.add("txs/swap-adjacent(txs only)", "tx[0]<->tx[1]", func(b *chain.Blk) {
			t := b.Block.Transactions
			t[0], t[1] = t[1], t[0]
		})
	}
	if n >= 1 {
		c.add("txs/drop-last(counts adjusted)", fmt.Sprintf("tx[%d]", n-1), func(b *chain.Blk) {
			b.Block.Transactions = b.Block.Transactions[:n-1]
			b.Block.Receipts = b.Block.Receipts[:n-1]
			recount(b.Block)
		})
		c.add("txs/drop-first(counts adjusted)", "tx[0]", func(b *chain.Blk) {
			b.Block.Transactions = b.Block.Transactions[1:]
			b.Block.Receipts = b.Block.Receipts[1:]
			recount(b.Block)
		})
		c.add("txs/duplicate-last(counts adjusted)", fmt.Sprintf("tx[%d]", n-1), func(b *chain.Blk) {
			b.Block.Transactions = append(b.Block.Transactions, chain.DeepCopy(b.Block.Transactions[n-1]))
			b.Block.Receipts = append(b.Block.Receipts, chain.DeepCopy(b.Block.Receipts[n-1]))
			recount(b.Block)
		})
	}
}

func enumReceipts(c *collector, s *subject, b *chain.Blk) {
	if s.Format == "pre07" || s.TxOnly {
		return // pre-0.7 hashes commit no event or receipt data
	}
	rcs := b.Block.Receipts
	for i, rc := range rcs {
		i := i
		loc := fmt.Sprintf("receipt[%d]", i)
		// events: committed by the event commitment of every format >= post07
		for j, ev := range rc.Events {
			j := j
			el := fmt.Sprintf("%s.event[%d]", loc, j)
			c.addV("event/from", el, feltHi, func(b *chain.Blk, bump bumpFn) {
				e := b.Block.Receipts[i].Events[j]
				e.From = bump(e.From)
			})
			for _, so := range sliceOps {
				so := so
				if so.ok(ev.Keys) {
					c.add("event/keys/"+so.name, el, func(b *chain.Blk) {
						e := b.Block.Receipts[i].Events[j]
						e.Keys = so.do(e.Keys)
					})
				}
				if so.ok(ev.Data) {
					c.add("event/data/"+so.name, el, func(b *chain.Blk) {
						e := b.Block.Receipts[i].Events[j]
						e.Data = so.do(e.Data)
					})
				}
			}
		}
		c.add("events/add(count adjusted)", loc, func(b *chain.Blk) {
			r := b.Block.Receipts[i]
			r.Events = append(r.Events, &core.Event{From: felt.NewFromUint64[felt.Felt](0xabc), Keys: []felt.Felt{*one()}, Data: []felt.Felt{}})
			recount(b.Block)
		})
		// the same with the header's event count left alone: the event commitment is computed from
		// the receipts, whatever the header claims (a block whose header says "no events" included)
		c.add("events/add(count untouched)", loc, func(b *chain.Blk) {
			r := b.Block.Receipts[i]
			r.Events = append(r.Events, &core.Event{From: felt.NewFromUint64[felt.Felt](0xabd), Keys: []felt.Felt{*one()}, Data: []felt.Felt{*one()}})
		})
		if len(rc.Events) > 0 {
			c.add("events/drop-last(count untouched)", loc, func(b *chain.Blk) {
				r := b.Block.Receipts[i]
				r.Events = r.Events[:len(r.Events)-1]
			})
		}
		if len(rc.Events) > 0 {
			c.add("events/drop-last(count adjusted)", loc, func(b *chain.Blk) {
				r := b.Block.Receipts[i]
				r.Events = r.Events[:len(r.Events)-1]
				recount(b.Block)
			})
		}
		for j := 0; j+1 < len(rc.Events); j++ {
			if !eventEq(rc.Events[j], rc.Events[j+1]) {
				j := j
				c.add("events/swap-adjacent", fmt.Sprintf("%s.event[%d]<->[%d]", loc, j, j+1), func(b *chain.Blk) {
					e := b.Block.Receipts[i].Events
					e[j], e[j+1] = e[j+1], e[j]
				})
				break
			}
		}
		if !s.poseidon() {
			continue // receipts (and the event's transaction hash) are committed from 0.13.2 on
		}
		// from 0.13.2 an event is committed together with its transaction: moving the last
		// event of one receipt to the front of the next keeps the flat order but not the owner
		if i+1 < len(rcs) && len(rc.Events) > 0 {
			c.add("events/move-to-next-receipt", loc, func(b *chain.Blk) {
				r, nx := b.Block.Receipts[i], b.Block.Receipts[i+1]
				last := r.Events[len(r.Events)-1]
				r.Events = r.Events[:len(r.Events)-1]
				nx.Events = append([]*core.Event{last}, nx.Events...)
				recount(b.Block)
			})
		}
		c.addV("receipt/transaction_hash", loc, feltHi, func(b *chain.Blk, bump bumpFn) {
			r := b.Block.Receipts[i]
			r.TransactionHash = bump(r.TransactionHash)
		})
		if rc.Fee != nil {
			c.addV("receipt/actual_fee", loc, priceHi, func(b *chain.Blk, bump bumpFn) {
				r := b.Block.Receipts[i]
				r.Fee = bump(r.Fee)
			})
		}
		c.addU("receipt/l1_gas_consumed", loc, func(b *chain.Blk, d uint64) { gasOf(b.Block.Receipts[i]).L1Gas += d })
		c.addU("receipt/l1_data_gas_consumed", loc, func(b *chain.Blk, d uint64) { gasOf(b.Block.Receipts[i]).L1DataGas += d })
		if rc.Reverted {
			c.add("receipt/reverted->succeeded", loc, func(b *chain.Blk) { b.Block.Receipts[i].Reverted = false })
			c.add("receipt/revert_reason", loc, func(b *chain.Blk) { b.Block.Receipts[i].RevertReason += "!" })
		} else {
			c.add("receipt/succeeded->reverted", loc, func(b *chain.Blk) {
				r := b.Block.Receipts[i]
				r.Reverted, r.RevertReason = true, "x"
			})
		}
		for j, m := range rc.L2ToL1Message {
			j := j
			ml := fmt.Sprintf("%s.message[%d]", loc, j)
			c.addV("message/from", ml, feltHi, func(b *chain.Blk, bump bumpFn) {
				m := b.Block.Receipts[i].L2ToL1Message[j]
				m.From = bump(m.From)
			})
			c.add("message/to", ml, func(b *chain.Blk) { b.Block.Receipts[i].L2ToL1Message[j].To[19] ^= 1 })
			for _, so := range sliceOps {
				so := so
				if so.ok(m.Payload) {
					c.add("message/payload/"+so.name, ml, func(b *chain.Blk) {
						m := b.Block.Receipts[i].L2ToL1Message[j]
						m.Payload = so.do(m.Payload)
					})
				}
			}
		}
		c.add("messages/add", loc, func(b *chain.Blk) {
			r := b.Block.Receipts[i]
			r.L2ToL1Message = append(r.L2ToL1Message, &core.L2ToL1Message{From: felt.NewFromUint64[felt.Felt](0xabc), Payload: []felt.Felt{}})
		})
		if len(rc.L2ToL1Message) > 0 {
			c.add("messages/drop-last", loc, func(b *chain.Blk) {
				r := b.Block.Receipts[i]
				r.L2ToL1Message = r.L2ToL1Message[:len(r.L2ToL1Message)-1]
			})
		}
		if len(rc.L2ToL1Message) > 1 && !msgEq(rc.L2ToL1Message[0], rc.L2ToL1Message[1]) {
			c.add("messages/swap-first-two", loc, func(b *chain.Blk) {
				m := b.Block.Receipts[i].L2ToL1Message
				m[0], m[1] = m[1], m[0]
			})
		}
	}
}

func gasOf(r *core.TransactionReceipt) *core.GasConsumed {
	if r.ExecutionResources == nil {
		r.ExecutionResources = &core.ExecutionResources{}
	}
	if r.ExecutionResources.TotalGasConsumed == nil {
		r.ExecutionResources.TotalGasConsumed = &core.GasConsumed{}
	}
	return r.ExecutionResources.TotalGasConsumed
}

func sortedKeys[V any](m map[felt.Felt]V) []felt.Felt {
	out := make([]felt.Felt, 0, len(m))
	for k := range m {
		out = append(out, k)
	}
	sort.Slice(out, func(i, j int) bool { return out[i].Cmp(&out[j]) < 0 })
	return out
}

var (
	freshAddr  = *felt.NewFromUint64[felt.Felt](0x99990001)
	freshKey   = *felt.NewFromUint64[felt.Felt](0x7777)
	freshClass = *felt.NewFromUint64[felt.Felt](0x55550001)
)

// state-diff operators: every entry of every section is committed by the state-diff
// commitment (and the entry count by the state-diff length) from 0.13.2 on.
func enumStateDiff(c *collector, s *subject, b *chain.Blk) {
	if !s.poseidon() || !s.HasSU || s.TxOnly {
		return
	}
	d := b.SU.StateDiff
	type mapSec struct {
		name string
		get  func(d *core.StateDiff) map[felt.Felt]*felt.Felt
	}
	secs := []mapSec{
		{"nonces", func(d *core.StateDiff) map[felt.Felt]*felt.Felt { return d.Nonces }},
		{"deployed_contracts", func(d *core.StateDiff) map[felt.Felt]*felt.Felt { return d.DeployedContracts }},
		{"replaced_classes", func(d *core.StateDiff) map[felt.Felt]*felt.Felt { return d.ReplacedClasses }},
		{"declared_classes", func(d *core.StateDiff) map[felt.Felt]*felt.Felt { return d.DeclaredV1Classes }},
	}
	for _, sec := range secs {
		sec := sec
		m := sec.get(d)
		for _, k := range sortedKeys(m) {
			k := k
			loc := k.String()
			c.addV("state_diff/"+sec.name+"/change-value", loc, feltHi, func(b *chain.Blk, bump bumpFn) {
				m := sec.get(b.SU.StateDiff)
				m[k] = bump(m[k])
			})
			c.add("state_diff/"+sec.name+"/change-key", loc, func(b *chain.Blk) {
				m := sec.get(b.SU.StateDiff)
				v := m[k]
				delete(m, k)
				m[incV(k)] = v
			})
			c.add("state_diff/"+sec.name+"/drop", loc, func(b *chain.Blk) { delete(sec.get(b.SU.StateDiff), k) })
		}
		if m != nil {
			fresh := freshAddr
			if sec.name == "declared_classes" {
				fresh = freshClass
			}
			c.add("state_diff/"+sec.name+"/add", fresh.String(), func(b *chain.Blk) {
				sec.get(b.SU.StateDiff)[fresh] = felt.NewFromUint64[felt.Felt](0xc1)
			})
		}
	}
	// storage
	for _, a := range sortedKeys(d.StorageDiffs) {
		a := a
		slots := d.StorageDiffs[a]
		for _, k := range sortedKeys(slots) {
			k := k
			loc := a.String() + "[" + k.String() + "]"
			c.addV("state_diff/storage/change-value", loc, feltHi, func(b *chain.Blk, bump bumpFn) {
				m := b.SU.StateDiff.StorageDiffs[a]
				m[k] = bump(m[k])
			})
			c.add("state_diff/storage/change-key", loc, func(b *chain.Blk) {
				m := b.SU.StateDiff.StorageDiffs[a]
				v := m[k]
				delete(m, k)
				m[incV(k)] = v
			})
			c.add("state_diff/storage/drop-entry", loc, func(b *chain.Blk) {
				m := b.SU.StateDiff.StorageDiffs[a]
				delete(m, k)
				if len(m) == 0 {
					delete(b.SU.StateDiff.StorageDiffs, a)
				}
			})
		}
		c.add("state_diff/storage/add-entry(zero value)", a.String(), func(b *chain.Blk) {
			b.SU.StateDiff.StorageDiffs[a][freshKey] = new(felt.Felt)
		})
		c.add("state_diff/storage/add-entry", a.String(), func(b *chain.Blk) {
			b.SU.StateDiff.StorageDiffs[a][freshKey] = felt.NewFromUint64[felt.Felt](5)
		})
		c.add("state_diff/storage/change-address", a.String(), func(b *chain.Blk) {
			m := b.SU.StateDiff.StorageDiffs
			v := m[a]
			delete(m, a)
			m[incV(a)] = v
		})
	}
	// a contract this block touches otherwise (nonce, class, deployment) listed in the storage
	// section with NO entries: the commitment counts and names the contracts of that section
	if d.StorageDiffs != nil {
		n := 0
		var cands []felt.Felt
		cands = append(cands, sortedKeys(d.Nonces)...)
		cands = append(cands, sortedKeys(d.ReplacedClasses)...)
		cands = append(cands, sortedKeys(d.DeployedContracts)...)
		for _, a := range cands {
			a := a
			if _, has := d.StorageDiffs[a]; has || n >= 2 {
				continue
			}
			n++
			c.add("state_diff/storage/add-contract-without-entries", a.String(), func(b *chain.Blk) {
				b.SU.StateDiff.StorageDiffs[a] = map[felt.Felt]*felt.Felt{}
			})
		}
	}
	if d.StorageDiffs != nil {
		c.add("state_diff/storage/add-contract", freshAddr.String(), func(b *chain.Blk) {
			b.SU.StateDiff.StorageDiffs[freshAddr] = map[felt.Felt]*felt.Felt{freshKey: felt.NewFromUint64[felt.Felt](5)}
		})
	}
	// deprecated (Cairo 0) declarations: a list of class hashes
	for i := range d.DeclaredV0Classes {
		i := i
		loc := fmt.Sprintf("[%d]", i)
		c.add("state_diff/old_declared_contracts/change", loc, func(b *chain.Blk) {
			l := b.SU.StateDiff.DeclaredV0Classes
			l[i] = inc(l[i])
		})
		c.add("state_diff/old_declared_contracts/drop", loc, func(b *chain.Blk) {
			l := b.SU.StateDiff.DeclaredV0Classes
			b.SU.StateDiff.DeclaredV0Classes = append(append([]*felt.Felt{}, l[:i]...), l[i+1:]...)
		})
	}
	c.add("state_diff/old_declared_contracts/add", "", func(b *chain.Blk) {
		b.SU.StateDiff.DeclaredV0Classes = append(b.SU.StateDiff.DeclaredV0Classes, felt.NewFromUint64[felt.Felt](0x55550002))
	})
	// migrated compiled class hashes (0.14.1)
	mk := make([]felt.Felt, 0, len(d.MigratedClasses))
	for k := range d.MigratedClasses {
		mk = append(mk, felt.Felt(k))
	}
	sort.Slice(mk, func(i, j int) bool { return mk[i].Cmp(&mk[j]) < 0 })
	for _, k := range mk {
		k := felt.SierraClassHash(k)
		loc := (*felt.Felt)(&k).String()
		c.add("state_diff/migrated_compiled_classes/change-value", loc, func(b *chain.Blk) {
			m := b.SU.StateDiff.MigratedClasses
			v := felt.Felt(m[k])
			m[k] = felt.CasmClassHash(incV(v))
		})
		c.add("state_diff/migrated_compiled_classes/drop", loc, func(b *chain.Blk) { delete(b.SU.StateDiff.MigratedClasses, k) })
	}
	if d.MigratedClasses != nil {
		c.add("state_diff/migrated_compiled_classes/add", freshClass.String(), func(b *chain.Blk) {
			b.SU.StateDiff.MigratedClasses[felt.SierraClassHash(freshClass)] = felt.CasmClassHash(*felt.NewFromUint64[felt.Felt](0xc1))
		})
	}
}

// Sierra class definition vs the hash it is declared under. core.SierraClass carries
// ProgramHash / AbiHash, which the adapters derive from the content; a content tamper
// therefore re-derives them exactly as adapters/sn2core does.
func enumClasses(c *collector, s *subject, b *chain.Blk) {
	for _, h := range sortedKeys(b.Classes) {
		h := h
		sc, ok := b.Classes[h].(*core.SierraClass)
		if !ok {
			continue // Cairo-0 class hashes are not recomputable (VM-dependent)
		}
		loc := h.String()
		get := func(b *chain.Blk) *core.SierraClass { return b.Classes[h].(*core.SierraClass) }
		c.add("class/sierra/declared-under-other-hash", loc, func(b *chain.Blk) {
			def := b.Classes[h]
			delete(b.Classes, h)
			b.Classes[incV(h)] = def
		})
		c.add("class/sierra/program(content)", loc, func(b *chain.Blk) {
			k := get(b)
			k.Program[len(k.Program)-1] = incV(k.Program[len(k.Program)-1])
			ph := crypto.PoseidonArray(k.Program)
			k.ProgramHash = &ph
		})
		c.add("class/sierra/program-append(content)", loc, func(b *chain.Blk) {
			k := get(b)
			k.Program = append(k.Program, *one())
			ph := crypto.PoseidonArray(k.Program)
			k.ProgramHash = &ph
		})
		c.add("class/sierra/abi(content)", loc, func(b *chain.Blk) {
			k := get(b)
			k.Abi += " "
			ah := crypto.StarknetKeccak([]byte(k.Abi))
			k.AbiHash = &ah
		})
		c.add("class/sierra/program_hash", loc, func(b *chain.Blk) { k := get(b); k.ProgramHash = inc(k.ProgramHash) })
		c.add("class/sierra/abi_hash", loc, func(b *chain.Blk) { k := get(b); k.AbiHash = inc(k.AbiHash) })
		c.add("class/sierra/contract_class_version", loc, func(b *chain.Blk) { get(b).SemanticVersion += "1" })
		if len(sc.EntryPoints.External) > 0 {
			c.add("class/sierra/entry_point/selector", loc, func(b *chain.Blk) {
				e := &get(b).EntryPoints.External[0]
				e.Selector = inc(e.Selector)
			})
			c.add("class/sierra/entry_point/function_idx", loc, func(b *chain.Blk) { get(b).EntryPoints.External[0].Index++ })
			c.add("class/sierra/entry_point/drop", loc, func(b *chain.Blk) {
				k := get(b)
				k.EntryPoints.External = k.EntryPoints.External[1:]
			})
		}
		c.add("class/sierra/entry_point/add-constructor", loc, func(b *chain.Blk) {
			k := get(b)
			k.EntryPoints.Constructor = append(k.EntryPoints.Constructor, core.SierraEntryPoint{Index: 0, Selector: one()})
		})
	}
}

// enumerate returns every applicable hash-level tamper of the subject.
func enumerate(s *subject, b *chain.Blk) []tamper {
	c := &collector{}
	if !s.TxOnly {
		enumHeader(c, s, b)
	}
	enumTxs(c, s, b)
	enumReceipts(c, s, b)
	enumStateDiff(c, s, b)
	enumClasses(c, s, b)
	return c.out
}

// sample keeps at most k instances per operator id (chosen by rng, order preserved).
func sample(ts []tamper, k int, rng *rand.Rand) []tamper {
	if k <= 0 {
		return ts
	}
	byOp := map[string][]int{}
	var order []string
	for i, t := range ts {
		if _, ok := byOp[t.Op]; !ok {
			order = append(order, t.Op)
		}
		byOp[t.Op] = append(byOp[t.Op], i)
	}
	keep := map[int]bool{}
	for _, op := range order {
		ix := byOp[op]
		if len(ix) > k {
			rng.Shuffle(len(ix), func(i, j int) { ix[i], ix[j] = ix[j], ix[i] })
			ix = ix[:k]
		}
		for _, i := range ix {
			keep[i] = true
		}
	}
	out := make([]tamper, 0, len(keep))
	for i, t := range ts {
		if keep[i] {
			out = append(out, t)
		}
	}
	return out
}

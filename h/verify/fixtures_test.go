package vverify

import (
	"encoding/json"
	"fmt"
	"os"
	"path/filepath"
	"sort"

	"github.com/NethermindEth/juno/adapters/sn2core"
	"github.com/NethermindEth/juno/blockchain/networks"
	"github.com/NethermindEth/juno/core"
	"github.com/NethermindEth/juno/starknet"
)

// Real-network ground truth: blocks (+ state updates where shipped) of the feeder
// test data, read straight from the JSON files into the wire types and adapted with
// sn2core, exactly what starknetdata/feeder does after the HTTP round trip.

const fixtureRoot = "/repo/clients/feeder/testdata"

type fixture struct {
	Name    string // "<network dir>/<source dir>/<file>"
	Net     *networks.Network
	Block   *core.Block
	SU      *core.StateUpdate // nil when the test data ships no state update for this block
	Wire    *starknet.Block   // the wire object (carries the commitments the network reported)
	Format  string            // pre07 | post07 | 0.13.2 | 0.13.4
	Unverif bool              // inside the network's documented unverifiable range
}

var fixtureNets = []struct {
	dir string
	net *networks.Network
}{
	{"mainnet", &networks.Mainnet},
	{"sepolia", &networks.Sepolia},
	{"sepolia-integration", &networks.SepoliaIntegration},
	{"integration", &networks.Integration},
}

func blockFormat(b *core.Block, net *networks.Network) (string, error) {
	v, err := core.ParseBlockVersion(b.ProtocolVersion)
	if err != nil {
		return "", err
	}
	switch {
	case v.GreaterThanEqual(core.Ver0_13_4):
		return "0.13.4", nil
	case v.GreaterThanEqual(core.Ver0_13_2):
		return "0.13.2", nil
	case b.Number < net.BlockHashMetaInfo.First07Block:
		return "pre07", nil
	default:
		return "post07", nil
	}
}

// fixture files left out because they contradict the canonical block file of their network
var SkippedFixtures []string

func readJSON(path string, v any) error {
	raw, err := os.ReadFile(path)
	if err != nil {
		return err
	}
	return json.Unmarshal(raw, v)
}

func mkFixture(name string, net *networks.Network, wb *starknet.Block, wsu *starknet.StateUpdate) (*fixture, error) {
	if wb.Hash == nil || wb.ParentHash == nil || wb.StateRoot == nil {
		return nil, nil // pending block: nothing assigned by the network yet
	}
	b, err := sn2core.AdaptBlock(wb, nil)
	if err != nil {
		return nil, fmt.Errorf("%s: adapt block: %w", name, err)
	}
	fx := &fixture{Name: name, Net: net, Block: b, Wire: wb}
	if wsu != nil && wsu.BlockHash != nil && wsu.BlockHash.Equal(wb.Hash) {
		su, err := sn2core.AdaptStateUpdate(wsu)
		if err != nil {
			return nil, fmt.Errorf("%s: adapt state update: %w", name, err)
		}
		fx.SU = su
	}
	if fx.Format, err = blockFormat(b, net); err != nil {
		return nil, fmt.Errorf("%s: %w", name, err)
	}
	if ur := net.BlockHashMetaInfo.UnverifiableRange; ur != nil && b.Number >= ur[0] && b.Number <= ur[1] {
		fx.Unverif = true
	}
	return fx, nil
}

// loadFixtures returns every hash-carrying block of the feeder test data, sorted by
// name. Errors are harness-infrastructure errors (unreadable test data).
func loadFixtures() ([]*fixture, error) {
	SkippedFixtures = nil
	var out []*fixture
	seen := map[string]bool{}
	canonical := map[string]string{} // network/number -> hash according to block/<n>.json
	for _, fn := range fixtureNets {
		files, _ := filepath.Glob(filepath.Join(fixtureRoot, fn.dir, "block", "*.json"))
		sort.Strings(files)
		for _, f := range files {
			base := filepath.Base(f)
			if base == "latest.json" || base == "pending.json" {
				continue
			}
			var wb starknet.Block
			if err := readJSON(f, &wb); err != nil {
				return nil, fmt.Errorf("%s: %w", f, err)
			}
			var wsu *starknet.StateUpdate
			suPath := filepath.Join(fixtureRoot, fn.dir, "state_update", base)
			if _, err := os.Stat(suPath); err == nil {
				wsu = &starknet.StateUpdate{}
				if err := readJSON(suPath, wsu); err != nil {
					return nil, fmt.Errorf("%s: %w", suPath, err)
				}
			}
			fx, err := mkFixture(fn.dir+"/block/"+base, fn.net, &wb, wsu)
			if err != nil {
				return nil, err
			}
			if fx != nil {
				out = append(out, fx)
				seen[fn.dir+"/"+fx.Block.Hash.String()+"/"+fmt.Sprint(fx.SU != nil)] = true
				canonical[fmt.Sprintf("%s/%d", fn.dir, fx.Block.Number)] = fx.Block.Hash.String()
			}
		}
		files, _ = filepath.Glob(filepath.Join(fixtureRoot, fn.dir, "state_update_with_block", "*.json"))
		sort.Strings(files)
		for _, f := range files {
			base := filepath.Base(f)
			if base == "latest.json" || base == "pending.json" {
				continue
			}
			var w starknet.StateUpdateWithBlockAndSignature
			if err := readJSON(f, &w); err != nil {
				return nil, fmt.Errorf("%s: %w", f, err)
			}
			if w.Block == nil {
				continue
			}
			fx, err := mkFixture(fn.dir+"/state_update_with_block/"+base, fn.net, w.Block, w.StateUpdate)
			if err != nil {
				return nil, err
			}
			if fx == nil {
				continue
			}
			// A network assigns one hash per number: a state_update_with_block file whose block
			// contradicts block/<n>.json of the same network is hand-made test data (e.g.
			// mainnet/state_update_with_block/16697.json), not ground truth.
			if h, ok := canonical[fmt.Sprintf("%s/%d", fn.dir, fx.Block.Number)]; ok && h != fx.Block.Hash.String() {
				SkippedFixtures = append(SkippedFixtures, fx.Name)
				continue
			}
			// the same block with the same amount of information is already in the list
			if seen[fn.dir+"/"+fx.Block.Hash.String()+"/"+fmt.Sprint(fx.SU != nil)] {
				continue
			}
			out = append(out, fx)
		}
	}
	sort.Slice(out, func(i, j int) bool { return out[i].Name < out[j].Name })
	return out, nil
}

package vverify

import (
	"fmt"
	"testing"

	"github.com/NethermindEth/juno/core"
)

func TestProbeFixtures(t *testing.T) {
	fxs, err := loadFixtures()
	if err != nil {
		t.Fatal(err)
	}
	for _, fx := range fxs {
		var sd *core.StateDiff
		if fx.SU != nil {
			sd = fx.SU.StateDiff
		}
		status := "?"
		func() {
			defer func() {
				if p := recover(); p != nil {
					status = fmt.Sprint("PANIC ", p)
				}
			}()
			_, err := core.VerifyBlockHash(fx.Block, fx.Net, sd, core.TrieBackend)
			status = fmt.Sprint(err)
		}()
		match, total := 0, 0
		for _, tx := range fx.Block.Transactions {
			h, err := core.TransactionHash(tx, fx.Net)
			total++
			if err == nil && h.Equal(tx.Hash()) {
				match++
			}
		}
		fmt.Printf("%-60s fmt=%-7s ver=%-9q unverif=%v su=%v txhash=%d/%d verify=%s\n", fx.Name, fx.Format, fx.Block.ProtocolVersion, fx.Unverif, fx.SU != nil, match, total, status)
	}
}

package vverify

import (
	"fmt"
	"path/filepath"
	"sort"
	"strings"

	"github.com/NethermindEth/juno/adapters/sn2core"
	"github.com/NethermindEth/juno/core"
	"github.com/NethermindEth/juno/core/felt"
	"github.com/NethermindEth/juno/starknet"
	"github.com/NethermindEth/juno/verifh/lib"
	"github.com/NethermindEth/juno/verifh/lib/chain"
)

// Real Sierra class definitions (file name = network-assigned class hash): the hash must
// recompute from the wire content through the adapter, and every content tamper applied to
// the WIRE object (before adaptation, as a hostile feeder would) must fail VerifyClassHashes.
type classItem struct {
	file, name string
	def        *starknet.SierraClass
	want       *felt.Felt
}

func planClasses() []classItem {
	files, _ := filepath.Glob(filepath.Join(fixtureRoot, "*", "class", "0x*.json"))
	sort.Strings(files)
	seen := map[string]bool{}
	var out []classItem
	for _, f := range files {
		name := strings.TrimSuffix(filepath.Base(f), ".json")
		if seen[name] {
			continue
		}
		seen[name] = true
		var def starknet.ClassDefinition
		if err := readJSON(f, &def); err != nil || def.Sierra == nil {
			continue // Cairo-0 class: hash not recomputable without the VM
		}
		want, err := new(felt.Felt).SetString(name)
		if err != nil {
			continue
		}
		out = append(out, classItem{file: f, name: name, def: def.Sierra, want: want})
	}
	return out
}

func classCase(r *lib.Run, idx int, it classItem) {
	rel := strings.TrimPrefix(it.file, fixtureRoot+"/")
	// Some checked-in class files no longer match the hash in their file name (the
	// repository's own tests say so): the name is ground truth only where it matches; the
	// tampers are judged against the hash the untampered content produces.
	base, err := sn2core.AdaptSierraClass(it.def, nil)
	if err != nil {
		r.Inconclusive("class-fixture-not-adaptable")
		return
	}
	h0, err := base.Hash()
	if err != nil {
		r.Inconclusive("class-fixture-not-hashable")
		return
	}
	check := func(w *starknet.SierraClass) error {
		c, err := sn2core.AdaptSierraClass(w, nil)
		if err != nil {
			return err
		}
		return core.VerifyClassHashes(map[felt.Felt]core.ClassDefinition{h0: c})
	}
	r.Eval(1)
	r.Count("real_sierra_classes", 1)
	if h0.Equal(it.want) {
		r.Count("real_sierra_class_hashes_matching_network_assigned_hash", 1)
	} else {
		r.Count("real_sierra_class_files_not_matching_their_file_name(test-data drift)", 1)
	}
	if err := check(it.def); err != nil {
		r.Violation("class-hash-not-reproducible", idx, fmt.Sprintf("Sierra class %s does not verify under its own computed hash: %v", rel, err),
			witness{Subject: rel, Expected: "class verifies under the hash computed from it", Observed: errStr(err)})
		return
	}
	r.Case("class-positive|" + it.name)
	type ct struct {
		op string
		ok bool
		fn func(w *starknet.SierraClass)
	}
	src := it.def
	ext := len(src.EntryPoints.External) > 0
	ops := []ct{
		{"class/sierra(wire)/program/change-last", len(src.Program) > 0, func(w *starknet.SierraClass) { w.Program[len(w.Program)-1] = incV(w.Program[len(w.Program)-1]) }},
		{"class/sierra(wire)/program/change-middle", len(src.Program) > 8, func(w *starknet.SierraClass) { w.Program[len(w.Program)/2] = incV(w.Program[len(w.Program)/2]) }},
		{"class/sierra(wire)/program/append", true, func(w *starknet.SierraClass) { w.Program = append(w.Program, *one()) }},
		{"class/sierra(wire)/program/drop-last", len(src.Program) > 4, func(w *starknet.SierraClass) { w.Program = w.Program[:len(w.Program)-1] }},
		{"class/sierra(wire)/abi", true, func(w *starknet.SierraClass) { w.Abi += " " }},
		{"class/sierra(wire)/contract_class_version", true, func(w *starknet.SierraClass) { w.Version += "1" }},
		{"class/sierra(wire)/entry_point/selector", ext, func(w *starknet.SierraClass) {
			w.EntryPoints.External[0].Selector = inc(w.EntryPoints.External[0].Selector)
		}},
		{"class/sierra(wire)/entry_point/function_idx", ext, func(w *starknet.SierraClass) { w.EntryPoints.External[0].Index++ }},
		{"class/sierra(wire)/entry_point/drop", ext, func(w *starknet.SierraClass) { w.EntryPoints.External = w.EntryPoints.External[1:] }},
		{"class/sierra(wire)/entry_point/move-external-to-l1_handler", ext, func(w *starknet.SierraClass) {
			w.EntryPoints.L1Handler = append(w.EntryPoints.L1Handler, w.EntryPoints.External[0])
			w.EntryPoints.External = w.EntryPoints.External[1:]
		}},
	}
	for _, o := range ops {
		if !o.ok {
			continue
		}
		w := chain.DeepCopy(src)
		o.fn(w)
		err := check(w)
		r.Eval(1)
		r.Count("attempts", 1)
		r.Count("op:"+o.op, 1)
		r.Case("class|" + it.name + "|" + o.op)
		if err == nil {
			r.Violation("tamper-accepted:"+o.op, idx, fmt.Sprintf("real Sierra class %s tampered with %s still verifies under its hash", rel, o.op),
				witness{Subject: rel, Op: o.op, Expected: "VerifyClassHashes fails", Observed: "verified"})
		}
	}
}

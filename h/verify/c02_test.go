package vverify

import (
	"fmt"
	"math/rand/v2"
	"sort"
	"strings"
	"testing"

	"github.com/NethermindEth/juno/blockchain"
	"github.com/NethermindEth/juno/blockchain/networks"
	"github.com/NethermindEth/juno/core"
	"github.com/NethermindEth/juno/core/felt"
	"github.com/NethermindEth/juno/db/memory"
	"github.com/NethermindEth/juno/verifh/lib"
	"github.com/NethermindEth/juno/verifh/lib/chain"
)

// ---------------------------------------------------------------------------------
// witnesses
// ---------------------------------------------------------------------------------

type witness struct {
	Subject   string // "synthetic chain case N" / fixture name
	Backend   string // legacy | new
	Builder   string // backend of the node that built the chain
	Position  int    // block number at which the attempt was made (head = Position-1)
	Block     string // summary of the valid block
	Op        string // tamper operator
	Loc       string // where
	Rehashed  bool   // block hash recomputed after tampering
	Sanity    string // error of SanityCheckNewHeight ("" = passed)
	Store     string // error of Store ("" = accepted / not reached)
	Expected  string
	Observed  string
	Diff      []string `json:",omitempty"`
	Attempted []string `json:",omitempty"`
}

func backendName(newState bool) string {
	if newState {
		return "new"
	}
	return "legacy"
}

func errStr(err error) string {
	if err == nil {
		return ""
	}
	s := err.Error()
	if len(s) > 200 {
		s = s[:200] + "..."
	}
	return s
}

// opFamily drops the per-kind part so that classes stay readable: the class keeps the
// full operator id (it IS the witness shape), this is only used for counters.
func opFamily(op string) string {
	p := strings.Split(op, "/")
	if len(p) > 2 {
		return p[0] + "/" + p[1]
	}
	return op
}

// ---------------------------------------------------------------------------------
// synthetic chains: stateful Store at every position, both state backends
// ---------------------------------------------------------------------------------

type chainRun struct {
	r        *lib.Run
	idx      int // case index (what --replay needs)
	cidx     int // chain number (seeds the generator)
	newState bool
	builder  string
	c        *chain.Chain
	foreign  *chain.Chain
	ps       *chain.ProbeSet
	perOp    int
	rng      *rand.Rand
	net      *networks.Network // network configuration of this chain (Sepolia, or mainnet: block-hash format metadata with First07Block > 0)
}

func eventsSnapshot(bc *blockchain.Blockchain) string {
	k11 := *chain.F(0x11)
	k99 := *chain.F(0x99)
	return strings.Join([]string{
		chain.EventsDigest(bc, nil, nil),
		chain.EventsDigest(bc, nil, [][]felt.Felt{{k11}}),
		chain.EventsDigest(bc, []felt.Address{felt.Address(*chain.F(0x100)), felt.Address(*chain.F(0x7fff1))}, [][]felt.Felt{{}, {k99, k11}}),
	}, " | ")
}

// attempt offers one tampered triple to the node exactly as the synchroniser would.
// It returns false if the node can no longer be trusted to be at the expected head.
func (cr *chainRun) attempt(node *chain.Node, blk *chain.Blk, subj *subject, i int, t tamper, dump0 []kv, ev0 string) (ok bool) {
	r := cr.r
	w := witness{Subject: fmt.Sprintf("synthetic chain %d", cr.cidx), Backend: backendName(cr.newState), Builder: cr.builder,
		Position: i, Block: blkInfo(blk), Op: t.Op, Loc: t.Loc, Rehashed: t.Rehash}
	defer func() {
		if p := recover(); p != nil {
			w.Expected, w.Observed = "an error", fmt.Sprintf("panic: %v", p)
			r.Violation("panic-on-tampered-block:"+t.Op+":"+subj.Format, cr.idx,
				fmt.Sprintf("%s backend panicked on block %d tampered with %s (%s): %v", w.Backend, i, t.Op, t.Loc, p), w)
			ok = false
		}
	}()
	tb := chain.CloneBlk(blk)
	t.Apply(tb)
	if t.Rehash {
		if err := rehash(tb, subj.Net, cr.newState); err != nil {
			r.Inconclusive("rehash-failed")
			return true
		}
	}
	cm, serr := node.BC.SanityCheckNewHeight(tb.Block, tb.SU, tb.Classes)
	stage := "sanity"
	err := serr
	if serr == nil {
		stage = "store"
		err = node.BC.Store(tb.Block, cm, tb.SU, tb.Classes)
		w.Store = errStr(err)
	}
	w.Sanity = errStr(serr)
	r.Eval(1)
	r.Count("attempts", 1)
	r.Count("op:"+t.Op, 1)
	if err != nil {
		r.Count("rejected_by:"+stage+"/"+backendName(cr.newState), 1)
	} else {
		r.Count("accepted(violation)", 1)
	}
	if t.Stage == "store" {
		r.Count("store_level_attempts_reaching:"+stage, 1)
	}
	r.Case(fmt.Sprintf("syn|%s|%s|%s|%d", subj.Format, backendName(cr.newState), t.Op, i))
	if err == nil {
		w.Expected = "rejected by SanityCheckNewHeight or Store"
		w.Observed = "accepted and stored"
		cls := "tamper-accepted:" + t.Op + ":" + subj.Format
		if t.Stage == "store" {
			cls += ":" + backendName(cr.newState)
		}
		if strings.HasPrefix(t.Op, "state_update/old_root") {
			// own class: the block itself is valid, only the state update's claim about the
			// state it applies to is wrong (zero = "empty state", or some other root)
			kind := "nonzero"
			if tb.SU.OldRoot.IsZero() {
				kind = "zero"
			}
			cls = "stale-old-root-accepted:" + kind + ":" + backendName(cr.newState)
		}
		r.Violation(cls, cr.idx, fmt.Sprintf("%s backend stored block %d tampered with %s (%s), format %s", w.Backend, i, t.Op, t.Loc, subj.Format), w)
		return false
	}
	if d := dumpDiff(dump0, kvdump(node.DB), 8); len(d) > 0 {
		w.Expected, w.Observed, w.Diff = "raw key/value dump identical to the dump before the attempt", "store changed", d
		r.Violation("rejected-but-store-changed:"+stage+":"+opFamily(t.Op)+":"+backendName(cr.newState), cr.idx,
			fmt.Sprintf("%s backend rejected block %d (%s, %s) at %s but the store changed: %s", w.Backend, i, t.Op, t.Loc, stage, d[0]), w)
		return false
	}
	if stage == "store" {
		r.Count("event_query_comparisons", 1)
		if ev := eventsSnapshot(node.BC); ev != ev0 {
			w.Expected, w.Observed = "event queries: "+ev0, ev
			r.Violation("rejected-but-events-changed:"+opFamily(t.Op)+":"+backendName(cr.newState), cr.idx,
				fmt.Sprintf("%s backend rejected block %d (%s) but event queries changed", w.Backend, i, t.Op), w)
			return false
		}
	}
	return true
}

// isolate finds which single rejected attempt (if any) makes the valid block unacceptable:
// each attempt is replayed alone on a copy of the store, followed by the valid block.
func (cr *chainRun) isolate(store *memory.Database, blk *chain.Blk, subj *subject, ts []tamper) string {
	for _, t := range ts {
		culprit := func() (bad bool) {
			defer func() {
				if recover() != nil {
					bad = true
				}
			}()
			n := chain.NewNodeOn(cr.net, store.Copy(), cr.newState)
			tb := chain.CloneBlk(blk)
			t.Apply(tb)
			if t.Rehash && rehash(tb, subj.Net, cr.newState) != nil {
				return false
			}
			if n.StoreBlk(tb) == nil {
				return false
			}
			return n.StoreBlk(chain.CloneBlk(blk)) != nil
		}()
		if culprit {
			return t.Op + " (" + t.Loc + ")"
		}
	}
	return "none in isolation (order- or accumulation-dependent)"
}

func (cr *chainRun) run() {
	r := cr.r
	node := chain.NewNodeOn(cr.net, memory.New(), cr.newState)
	control := chain.NewNodeOn(cr.net, memory.New(), cr.newState)
	be := backendName(cr.newState)
	// hash-level operators: every position in the thorough tier, three per chain and backend in
	// the quick tier; store-level operators (linkage, roots, forged diffs): every position, always
	hashAt := map[int]bool{}
	for k, p := range cr.rng.Perm(len(cr.c.Blocks)) {
		if !r.Quick() || k < 3 {
			hashAt[p] = true
		}
	}
	for i, blk := range cr.c.Blocks {
		ver, err := core.ParseBlockVersion(blk.Block.ProtocolVersion)
		if err != nil {
			r.Inconclusive("generator-version")
			return
		}
		subj := &subject{Net: cr.net, Ver: ver, HasSU: true, Synthetic: true}
		if subj.Format, err = blockFormat(blk.Block, subj.Net); err != nil {
			r.Inconclusive("generator-version")
			return
		}
		pre := node.DB.(*memory.Database).Copy()
		dump0 := kvdump(node.DB)
		ev0 := eventsSnapshot(node.BC)
		probe0 := chain.Probe(node.BC, cr.ps)

		var ts []tamper
		if hashAt[i] {
			ts = sample(enumerate(subj, blk), cr.perOp, cr.rng)
			r.Count("positions_with_hash_level_operators", 1)
		}
		ts = append(ts, sample(storeOps(cr.c, cr.foreign, i), cr.perOp, cr.rng)...)
		var attempted []string
		clean := true
		for _, t := range ts {
			attempted = append(attempted, t.Op)
			if !cr.attempt(node, blk, subj, i, t, dump0, ev0) {
				// violation recorded; continue from the state before the attempts
				node = chain.NewNodeOn(cr.net, pre.Copy(), cr.newState)
				clean = false
			}
		}
		r.Count("positions", 1)
		r.Count("positions/"+subj.Format+"/"+be, 1)

		w := witness{Subject: fmt.Sprintf("synthetic chain %d", cr.cidx), Backend: be, Builder: cr.builder, Position: i, Block: blkInfo(blk)}
		if clean {
			// the whole reader API and the event queries answer as before the attempts
			r.Count("reader_api_probe_comparisons", 1)
			if d := chain.Diff(probe0, chain.Probe(node.BC, cr.ps), 8); len(d) > 0 {
				w.Expected, w.Observed, w.Diff, w.Attempted = "reader API answers unchanged by rejected blocks", "answers changed", d, attempted
				r.Violation("rejected-but-reader-api-changed:"+be, cr.idx, fmt.Sprintf("%s backend: reader API answers changed after rejected blocks at %d: %s", be, i, d[0]), w)
				return
			}
			if ev := eventsSnapshot(node.BC); ev != ev0 {
				w.Expected, w.Observed, w.Attempted = "event queries: "+ev0, ev, attempted
				r.Violation("rejected-but-events-changed:any:"+be, cr.idx, fmt.Sprintf("%s backend: event queries changed after rejected blocks at %d", be, i), w)
				return
			}
		}
		// the untampered block is still accepted
		r.Eval(1)
		if err := node.StoreBlk(chain.CloneBlk(blk)); err != nil {
			w.Expected, w.Observed, w.Attempted = "valid block accepted", "rejected: "+errStr(err), attempted
			// was it acceptable before any attempt was made?
			if err0 := chain.NewNodeOn(cr.net, pre.Copy(), cr.newState).StoreBlk(chain.CloneBlk(blk)); err0 != nil {
				r.Violation("valid-block-rejected:"+subj.Format+":"+be, cr.idx,
					fmt.Sprintf("%s backend rejects valid block %d built by %s builder: %v", be, i, cr.builder, err0), w)
				return
			}
			culprit := cr.isolate(pre, blk, subj, ts)
			w.Diff = []string{"culprit: " + culprit}
			r.Violation("valid-block-rejected-after-rejected-attempt:"+opFamily(strings.SplitN(culprit, " ", 2)[0])+":"+be, cr.idx,
				fmt.Sprintf("%s backend: valid block %d rejected (%v) after rejected attempts; culprit: %s", be, i, err, culprit), w)
			return
		}
		r.Count("valid_blocks_accepted", 1)
		if err := control.StoreBlk(chain.CloneBlk(blk)); err != nil {
			w.Expected, w.Observed = "valid block accepted", errStr(err)
			r.Violation("valid-block-rejected:"+subj.Format+":"+be, cr.idx, fmt.Sprintf("%s backend rejects valid block %d on an untouched node: %v", be, i, err), w)
			return
		}
	}
	// a node that saw all the rejected attempts is indistinguishable from one that never did.
	// (Legacy trie nodes carry an optional cache of their children's hashes whose presence
	// depends on map iteration order during the update; it is stripped before comparing.)
	r.Eval(1)
	r.Count("final_store_vs_untouched_node_comparisons", 1)
	w := witness{Subject: fmt.Sprintf("synthetic chain %d", cr.cidx), Backend: be, Builder: cr.builder, Position: len(cr.c.Blocks)}
	dc, dn := kvdump(control.DB), kvdump(node.DB)
	r.Count("final_store_keys_compared", len(dc))
	if !cr.newState {
		dc, dn = normLegacyTrieNodes(dc), normLegacyTrieNodes(dn)
	}
	if d := dumpDiff(dc, dn, 8); len(d) > 0 {
		w.Expected, w.Observed, w.Diff = "store identical to a node that stored the same chain without any rejected attempt", "stores differ", d
		r.Violation("final-store-differs-from-untouched-node:"+be, cr.idx, fmt.Sprintf("%s backend: store differs from untouched node: %s", be, d[0]), w)
		return
	}
	if d := chain.Diff(chain.Probe(control.BC, cr.ps), chain.Probe(node.BC, cr.ps), 8); len(d) > 0 {
		w.Expected, w.Observed, w.Diff = "reader API answers equal to an untouched node", "answers differ", d
		r.Violation("final-reader-api-differs-from-untouched-node:"+be, cr.idx, fmt.Sprintf("%s backend: reader API differs from untouched node: %s", be, d[0]), w)
	}
}

func chainCase(r *lib.Run, caseIdx, idx int) {
	rng := lib.Rng("C02/chain", uint64(idx))
	opts := chain.Opts{NoNoopZero: lib.Avoid("noop-zero-write"), EventRich: rng.IntN(3) == 0, EmptyProb: 0.08}
	if idx%3 == 0 {
		opts.Versions = []string{"0.13.2", "0.13.4"} // keeps the 0.13.2 block format represented
	}
	// every fourth chain lives on the mainnet configuration: its block-hash metadata says blocks below
	// height 833 predate the 0.7 format - which a block's own protocol version overrides
	net := &networks.Sepolia
	if idx%4 == 1 {
		net = &networks.Mainnet
		r.Count("synthetic_chains_on_the_mainnet_configuration(First07Block=833)", 1)
	}
	opts.Net = net
	length := 6 + rng.IntN(5)
	perOp := 1
	if !r.Quick() {
		length = 8 + rng.IntN(8)
		perOp = 2
	}
	builderNew := rng.IntN(2) == 0
	build := func(stream string, newState bool) (*chain.Chain, error) {
		g := chain.NewGen(lib.Rng(stream, uint64(idx)), opts)
		c := &chain.Chain{}
		return c, g.Extend(c, chain.NewBuilderOn(net, newState), length)
	}
	c, err := build("C02/chain/blocks", builderNew)
	if err != nil {
		r.Inconclusive("builder-error")
		r.Note(fmt.Sprintf("case %d: builder: %v", idx, err))
		return
	}
	foreign, err := build("C02/chain/foreign", !builderNew)
	if err != nil {
		r.Inconclusive("builder-error")
		r.Note(fmt.Sprintf("case %d: foreign builder: %v", idx, err))
		return
	}
	ps := chain.NewProbeSet()
	for _, b := range c.Blocks {
		ps.AddBlock(b)
	}
	for _, b := range foreign.Blocks {
		ps.AddBlock(b)
	}
	r.Count("chains", 1)
	r.Count("chain_blocks", len(c.Blocks))
	for _, newState := range []bool{false, true} {
		cr := &chainRun{r: r, idx: caseIdx, cidx: idx, newState: newState, builder: backendName(builderNew), c: c, foreign: foreign, ps: ps, perOp: perOp, net: net,
			rng: lib.Rng("C02/chain/sample/"+backendName(newState), uint64(idx))}
		cr.run()
	}
	if idx < 2 {
		var vs []string
		for _, b := range c.Blocks {
			vs = append(vs, blkInfo(b))
		}
		r.Sample(map[string]any{"case": idx, "kind": "synthetic chain", "builder": backendName(builderNew), "blocks": vs})
	}
}

// ---------------------------------------------------------------------------------
// real-network fixtures
// ---------------------------------------------------------------------------------

type fxItem struct {
	fx       *fixture
	subj     *subject
	positive bool
	tampers  []tamper
}

func fixtureSubject(fx *fixture) (*subject, error) {
	ver, err := core.ParseBlockVersion(fx.Block.ProtocolVersion)
	if err != nil {
		return nil, err
	}
	s := &subject{Net: fx.Net, Format: fx.Format, Ver: ver, HasSU: fx.SU != nil}
	s.TxOnly = s.poseidon() && fx.SU == nil
	return s, nil
}

func fxBlk(fx *fixture) *chain.Blk {
	return &chain.Blk{Block: fx.Block, SU: fx.SU}
}

// verifier bundles what checks a fixture triple: SanityCheckNewHeight of a node of the
// fixture's network when a state update ships with it, core.VerifyBlockHash otherwise,
// and core.VerifyTransactions alone for >= 0.13.2 blocks shipped without state update
// (their block hash needs the state diff).
type verifier struct {
	subj  *subject
	nodes [2]*blockchain.Blockchain
}

func newVerifier(s *subject) *verifier {
	v := &verifier{subj: s}
	if s.HasSU {
		v.nodes[0] = blockchain.New(memory.New(), s.Net, blockchain.WithNewState(false))
		v.nodes[1] = blockchain.New(memory.New(), s.Net, blockchain.WithNewState(true))
	}
	return v
}

func (v *verifier) verify(b *chain.Blk, newState bool) (cm *core.BlockCommitments, err error) {
	switch {
	case v.subj.TxOnly:
		return nil, core.VerifyTransactions(b.Block.Transactions, v.subj.Net, b.Block.ProtocolVersion)
	case b.SU != nil:
		n := v.nodes[0]
		if newState {
			n = v.nodes[1]
		}
		return n.SanityCheckNewHeight(b.Block, b.SU, nil)
	default:
		be := core.DeprecatedTrieBackend
		if newState {
			be = core.TrieBackend
		}
		return core.VerifyBlockHash(b.Block, v.subj.Net, nil, be)
	}
}

func planFixtures(r *lib.Run, fxs []*fixture) ([]fxItem, error) {
	var items []fxItem
	for fi, fx := range fxs {
		s, err := fixtureSubject(fx)
		if err != nil {
			return nil, fmt.Errorf("%s: %w", fx.Name, err)
		}
		if fx.Unverif {
			items = append(items, fxItem{fx: fx, subj: s, positive: true})
			continue
		}
		n := len(fx.Block.Transactions)
		// hashing a real block costs ~3 ms per transaction (Pedersen): big blocks get fewer
		// locations per operator and, in the quick tier, a capped random subset of attempts
		k, limit := 3, 0
		switch {
		case n > 60:
			k, limit = 1, 5
		case n > 20:
			k, limit = 2, 24
		}
		if !r.Quick() {
			k, limit = k*4, 0
		}
		rng := lib.Rng("C02/fixture/sample", uint64(fi))
		ts := sample(enumerate(s, fxBlk(fx)), k, rng)
		if limit > 0 && len(ts) > limit {
			rng.Shuffle(len(ts), func(i, j int) { ts[i], ts[j] = ts[j], ts[i] })
			ts = ts[:limit]
		}
		chunk := 16
		if n > 60 {
			chunk = 3
		}
		first := true
		for len(ts) > 0 || first {
			m := min(chunk, len(ts))
			items = append(items, fxItem{fx: fx, subj: s, positive: first, tampers: ts[:m]})
			ts = ts[m:]
			first = false
		}
	}
	return items, nil
}

func fixtureCase(r *lib.Run, idx int, it fxItem) {
	fx, s := it.fx, it.subj
	v := newVerifier(s)
	w := func() witness {
		return witness{Subject: fx.Name, Position: int(fx.Block.Number), Block: fmt.Sprintf("network=%s version=%q format=%s txs=%d state_update=%v",
			fx.Net.Name, fx.Block.ProtocolVersion, fx.Format, len(fx.Block.Transactions), fx.SU != nil)}
	}
	if it.positive {
		fixturePositive(r, idx, it, v, w())
	}
	for ti, t := range it.tampers {
		newState := (idx+ti)%2 == 0
		func() {
			ww := w()
			ww.Op, ww.Loc, ww.Backend = t.Op, t.Loc, backendName(newState)
			defer func() {
				if p := recover(); p != nil {
					ww.Expected, ww.Observed = "an error", fmt.Sprintf("panic: %v", p)
					r.Violation("panic-on-tampered-block:"+t.Op+":"+s.Format, idx, fmt.Sprintf("%s: panic on %s (%s): %v", fx.Name, t.Op, t.Loc, p), ww)
				}
			}()
			tb := chain.CloneBlk(fxBlk(fx))
			t.Apply(tb)
			_, err := v.verify(tb, newState)
			r.Eval(1)
			r.Count("attempts", 1)
			r.Count("fixture_attempts", 1)
			r.Count("op:"+t.Op, 1)
			r.Count("fixture_attempts/"+s.Format, 1)
			r.Case(fmt.Sprintf("fx|%s|%s|%s", fx.Name, t.Op, t.Loc))
			if err == nil {
				ww.Expected, ww.Observed = "hash verification fails", "verified"
				r.Violation("tamper-accepted:"+t.Op+":"+s.Format, idx,
					fmt.Sprintf("real block %s tampered with %s (%s) still verifies (format %s)", fx.Name, t.Op, t.Loc, s.Format), ww)
			}
		}()
	}
}

func fixturePositive(r *lib.Run, idx int, it fxItem, v *verifier, w witness) {
	fx, s := it.fx, it.subj
	r.Count("fixture_blocks", 1)
	r.Count("fixture_blocks/"+fx.Net.Name+"/"+fx.Format, 1)
	if fx.Unverif {
		r.Count("fixture_blocks_in_unverifiable_range(no tamper demanded)", 1)
	}
	if s.TxOnly {
		r.Count("fixture_blocks_without_state_update(tx hashes only)", 1)
	}
	var cms [2]*core.BlockCommitments
	for bi, newState := range []bool{false, true} {
		// a private copy: hashing sorts the state diff's class list in place, and other
		// cases read the shared fixture concurrently
		cm, err := v.verify(chain.CloneBlk(fxBlk(fx)), newState)
		r.Eval(1)
		if err != nil {
			w.Backend, w.Expected, w.Observed = backendName(newState), "network-assigned hashes verify", errStr(err)
			r.Violation("real-block-rejected:"+fx.Net.Name+":"+fx.Format, idx, fmt.Sprintf("real block %s does not verify: %v", fx.Name, err), w)
			return
		}
		cms[bi] = cm
	}
	r.Case("fx-positive|" + fx.Name)
	// transaction hashes recompute (from 0.11.0 on; older ones are counted only)
	match := 0
	for _, tx := range fx.Block.Transactions {
		h, err := core.TransactionHash(tx, fx.Net)
		r.Eval(1)
		good := err == nil && h.Equal(tx.Hash())
		if good {
			match++
		}
		kind, _ := txKind(tx)
		if s.txHashVerified() && !fx.Unverif {
			r.Count("real_tx_hashes_recomputed/"+kind, 1)
			if !good {
				w.Expected, w.Observed, w.Op = "TransactionHash(tx) == network-assigned hash "+tx.Hash().String(), fmt.Sprintf("%s (err %v)", h.String(), err), kind
				r.Violation("real-tx-hash-mismatch:"+kind, idx, fmt.Sprintf("%s: %s transaction %s recomputes to %s", fx.Name, kind, tx.Hash(), h.String()), w)
			}
		} else if good {
			r.Count("pre-0.11_real_tx_hashes_that_happen_to_recompute", 1)
		} else {
			r.Count("pre-0.11_real_tx_hashes_not_recomputable(by rule)", 1)
		}
	}
	// commitments: both trie backends agree, and (>= 0.13.2) equal what the network reported
	if cms[0] != nil && cms[1] != nil {
		r.Count("commitment_backend_comparisons", 1)
		if fmt.Sprint(commitStr(cms[0])) != fmt.Sprint(commitStr(cms[1])) {
			w.Expected, w.Observed = "legacy: "+commitStr(cms[0]), "new: "+commitStr(cms[1])
			r.Violation("commitments-differ-between-trie-backends:"+fx.Format, idx, fx.Name+": block commitments differ between trie backends", w)
		}
		if s.poseidon() && fx.Wire != nil {
			type pair struct {
				name      string
				got, want *felt.Felt
			}
			for _, p := range []pair{
				{"transaction_commitment", cms[0].TransactionCommitment, fx.Wire.TransactionCommitment},
				{"event_commitment", cms[0].EventCommitment, fx.Wire.EventCommitment},
				{"receipt_commitment", cms[0].ReceiptCommitment, fx.Wire.ReceiptCommitment},
				{"state_diff_commitment", cms[0].StateDiffCommitment, fx.Wire.StateDiffCommitment},
			} {
				if p.want == nil || p.got == nil {
					continue
				}
				r.Count("network_reported_commitments_compared", 1)
				if !p.got.Equal(p.want) {
					w.Op, w.Expected, w.Observed = p.name, p.want.String(), p.got.String()
					r.Violation("commitment-differs-from-network:"+p.name, idx, fmt.Sprintf("%s: %s computed %s, network reported %s", fx.Name, p.name, p.got, p.want), w)
				}
			}
		}
	}
	if idx%7 == 0 {
		r.Sample(map[string]any{"kind": "real block", "fixture": fx.Name, "network": fx.Net.Name, "number": fx.Block.Number, "version": fx.Block.ProtocolVersion,
			"format": fx.Format, "txs": len(fx.Block.Transactions), "tx_hashes_recomputed": match, "state_update": fx.SU != nil, "unverifiable_range": fx.Unverif})
	}
}

func commitStr(c *core.BlockCommitments) string {
	f := func(x *felt.Felt) string {
		if x == nil {
			return "nil"
		}
		return x.String()
	}
	return fmt.Sprintf("tx=%s ev=%s rc=%s sd=%s len=%d", f(c.TransactionCommitment), f(c.EventCommitment), f(c.ReceiptCommitment), f(c.StateDiffCommitment), c.StateDiffLength)
}

// ---------------------------------------------------------------------------------

func TestC02(t *testing.T) {
	r := lib.Start("C02", "exploration")
	fxs, err := loadFixtures()
	if err != nil {
		t.Fatalf("fixtures: %v", err)
	}
	if len(fxs) < 40 {
		t.Fatalf("only %d fixture blocks found under %s", len(fxs), fixtureRoot)
	}
	for _, n := range SkippedFixtures {
		r.Count("fixture_files_skipped(contradict the canonical block file of their network)", 1)
		r.Note("skipped hand-made fixture " + n)
	}
	items, err := planFixtures(r, fxs)
	if err != nil {
		t.Fatalf("fixtures: %v", err)
	}
	nChains := r.N(12, 40)
	// big fixture chunks first (they bound the wall time), then chains
	order := make([]int, len(items))
	for i := range order {
		order[i] = i
	}
	sort.SliceStable(order, func(a, b int) bool {
		return len(items[order[a]].fx.Block.Transactions) > len(items[order[b]].fx.Block.Transactions)
	})
	classes := planClasses()
	r.Cases(len(items)+len(classes)+nChains, 0, func(idx int) {
		switch {
		case idx < len(items):
			fixtureCase(r, idx, items[order[idx]])
		case idx < len(items)+len(classes):
			classCase(r, idx, classes[idx-len(items)])
		default:
			chainCase(r, idx, idx-len(items)-len(classes))
		}
	})

	r.Assume("crypto.Pedersen / crypto.Poseidon / StarknetKeccak and the temp-trie commitment root are trusted primitives (C01 checks the tries); forged blocks are re-hashed with core.BlockHash itself")
	r.Assume("applicability table = DESIGN.md C02 + Appendix A (written from the protocol): only committed fields are tampered; for formats < 0.13.2 receipts/state diffs/gas prices, for < 0.11.0 transaction fields, and blocks in a network's unverifiable range are never tampered")
	r.Assume("fixture blocks >= 0.13.2 shipped without a state update are checked for transaction hashes only (their block hash needs the state diff)")
	r.Assume("synthetic chains come from lib/chain (network sepolia, formats 0.13.2/0.13.4/0.14.0/0.14.1); a forged state diff is only demanded to be rejected when the reference model says it yields a different state")
	r.Finish("attempt = one (block, state update, classes) triple differing from a valid one in exactly one protocol-committed field (or a self-consistently re-hashed block that "+
		"breaks linkage / declared root / old root / state-diff meaning, or a valid block at the wrong position), offered through SanityCheckNewHeight+Store at every position of "+
		"synthetic chains on both state backends, or through VerifyBlockHash/SanityCheckNewHeight for real-network fixture blocks; must be rejected, raw kv dump byte-identical, "+
		"event queries and reader API unchanged, valid block accepted afterwards, final store identical to an untouched node; real blocks and their transaction hashes must verify; "+
		"distinct = distinct (subject, block format, backend, operator, position/location)", 400)
}

package vverify

import (
	"bytes"
	"encoding/hex"
	"fmt"

	"github.com/NethermindEth/juno/core/trie"
	"github.com/NethermindEth/juno/db"
)

// kv is one raw database entry.
type kv struct{ K, V []byte }

// kvdump returns every key/value pair of the store, in iteration (key) order.
func kvdump(s db.KeyValueReader) []kv {
	it, err := s.NewIterator(nil, false)
	if err != nil {
		panic("kvdump: " + err.Error())
	}
	defer it.Close()
	var out []kv
	for ok := it.First(); ok; ok = it.Next() {
		v, err := it.Value()
		if err != nil {
			panic("kvdump: " + err.Error())
		}
		out = append(out, kv{bytes.Clone(it.Key()), bytes.Clone(v)})
	}
	return out
}

// dumpDiff lists (capped) how two dumps differ; empty = byte-identical.
func dumpDiff(a, b []kv, max int) []string {
	am := make(map[string][]byte, len(a))
	for _, e := range a {
		am[string(e.K)] = e.V
	}
	bm := make(map[string][]byte, len(b))
	for _, e := range b {
		bm[string(e.K)] = e.V
	}
	var out []string
	add := func(s string) {
		if len(out) < max {
			out = append(out, s)
		}
	}
	n := 0
	for _, e := range a {
		v, ok := bm[string(e.K)]
		switch {
		case !ok:
			n++
			add(fmt.Sprintf("removed key %s (bucket %s)", hex.EncodeToString(e.K), bucketName(e.K)))
		case !bytes.Equal(v, e.V):
			n++
			add(fmt.Sprintf("changed key %s (bucket %s): %d -> %d bytes", hex.EncodeToString(e.K), bucketName(e.K), len(e.V), len(v)))
		}
	}
	for _, e := range b {
		if _, ok := am[string(e.K)]; !ok {
			n++
			add(fmt.Sprintf("added key %s (bucket %s, %d bytes)", hex.EncodeToString(e.K), bucketName(e.K), len(e.V)))
		}
	}
	if n == 0 && len(a) != len(b) {
		add(fmt.Sprintf("entry count %d -> %d", len(a), len(b)))
	}
	if n > len(out) {
		out = append(out, fmt.Sprintf("... %d differences in total", n))
	}
	return out
}

func bucketName(k []byte) string {
	if len(k) == 0 {
		return "?"
	}
	return db.Bucket(k[0]).String()
}

// normLegacyTrieNodes strips the optional trailing (left hash, right hash) cache from
// legacy trie nodes: value(32) | left key | right key [| left hash(32) | right hash(32)].
// Whether the cache is written depends on the order in which a block's updates reach the
// trie (Go map iteration), so it is not a function of the chain.
func normLegacyTrieNodes(d []kv) []kv {
	out := make([]kv, len(d))
	for i, e := range d {
		out[i] = e
		if len(e.K) == 0 {
			continue
		}
		switch db.Bucket(e.K[0]) {
		case db.StateTrie, db.ContractStorage, db.ClassesTrie:
			out[i].V = stripChildHashes(e.V)
		}
	}
	return out
}

func stripChildHashes(v []byte) (out []byte) {
	out = v
	defer func() {
		if recover() != nil {
			out = v
		}
	}()
	const feltLen = 32
	if len(v) < feltLen+2+2*feltLen {
		return v
	}
	rest := v[feltLen:]
	var l, r trie.BitArray
	if l.UnmarshalBinary(rest) != nil || int(l.EncodedLen()) > len(rest) {
		return v
	}
	rest = rest[l.EncodedLen():]
	if r.UnmarshalBinary(rest) != nil || int(r.EncodedLen()) > len(rest) {
		return v
	}
	rest = rest[r.EncodedLen():]
	if len(rest) == 2*feltLen {
		return v[:len(v)-2*feltLen]
	}
	return v
}

package vverify

import (
	"fmt"

	"github.com/NethermindEth/juno/blockchain/networks"
	"github.com/NethermindEth/juno/core"
	"github.com/NethermindEth/juno/core/felt"
	"github.com/NethermindEth/juno/verifh/lib/chain"
)

// ---------------------------------------------------------------------------------
// Store-level operators: blocks whose own hash verifies (a hostile source recomputes it)
// but which do not continue the head or do not produce the root they declare. Only the
// node's linkage and state-root checks can reject them, and they do so inside the write
// batch - these are the attempts that make "a rejected block leaves no trace" non-trivial.
//
// The reference model (lib/chain State) decides applicability of forged state diffs: a
// forged diff is only offered if it leads to a DIFFERENT abstract state than the declared
// root commits to (otherwise it is simply another valid block).
// ---------------------------------------------------------------------------------

// rehash recomputes the block hash of a (tampered) synthetic block with the protocol's
// hash function and stamps it on header and state update, as a forging source would.
func rehash(b *chain.Blk, net *networks.Network, newState bool) error {
	backend := core.DeprecatedTrieBackend
	if newState {
		backend = core.TrieBackend
	}
	h, _, err := core.BlockHash(b.Block, b.SU.StateDiff, net, nil, backend)
	if err != nil {
		return err
	}
	b.Block.Hash = &h
	b.SU.BlockHash = &h
	return nil
}

func stateEq(a, b *chain.State) bool {
	if len(a.Contracts) != len(b.Contracts) || len(a.Classes) != len(b.Classes) {
		return false
	}
	for addr, ca := range a.Contracts {
		cb, ok := b.Contracts[addr]
		if !ok || !ca.Class.Equal(&cb.Class) || !ca.Nonce.Equal(&cb.Nonce) || len(ca.Storage) != len(cb.Storage) {
			return false
		}
		for k, v := range ca.Storage {
			w, ok := cb.Storage[k]
			if !ok || !v.Equal(&w) {
				return false
			}
		}
	}
	for h, ka := range a.Classes {
		kb, ok := b.Classes[h]
		if !ok || ka.Sierra != kb.Sierra {
			return false
		}
		la, lb := ka.ActiveCasm(), kb.ActiveCasm()
		if (la == nil) != (lb == nil) || (la != nil && !la.Equal(lb)) {
			return false
		}
	}
	return true
}

func replaceWith(other *chain.Blk) func(b *chain.Blk) {
	return func(b *chain.Blk) { *b = *chain.CloneBlk(other) }
}

func storeOps(c, foreign *chain.Chain, i int) []tamper {
	blk := c.Blocks[i]
	var out []tamper
	add := func(op, loc string, rehash bool, fn func(b *chain.Blk)) {
		out = append(out, tamper{Op: op, Loc: loc, Apply: fn, Rehash: rehash, Stage: "store"})
	}
	prev := chain.NewState()
	if i > 0 {
		prev = c.States[i-1]
	}
	post := c.States[i]

	// --- linkage
	add("forged/number", "+1", true, func(b *chain.Blk) { b.Block.Number++ })
	if i >= 1 {
		add("forged/number", "-1", true, func(b *chain.Blk) { b.Block.Number-- })
	}
	if i >= 2 {
		add("forged/number", "=0", true, func(b *chain.Blk) { b.Block.Number = 0 })
	}
	add("forged/parent_hash", "+1", true, func(b *chain.Blk) { b.Block.ParentHash = inc(b.Block.ParentHash) })
	if i >= 1 {
		add("forged/parent_hash", "=0", true, func(b *chain.Blk) { b.Block.ParentHash = new(felt.Felt) })
	}
	if i >= 2 {
		gp := *c.Blocks[i-2].Block.Hash
		add("forged/parent_hash", "=grandparent", true, func(b *chain.Blk) { h := gp; b.Block.ParentHash = &h })
		// own hash as parent is not expressible (the hash depends on it)
	}
	if i+1 < len(c.Blocks) {
		add("position/skip-ahead(valid block i+1)", "", false, replaceWith(c.Blocks[i+1]))
	}
	if i >= 1 {
		add("position/replay-head(valid block i-1)", "", false, replaceWith(c.Blocks[i-1]))
	}
	if i >= 2 {
		add("position/replay-genesis(valid block 0)", "", false, replaceWith(c.Blocks[0]))
	}
	if i >= 1 && i < len(foreign.Blocks) && !foreign.Blocks[i].Block.Hash.Equal(blk.Block.Hash) &&
		!foreign.Blocks[i].Block.ParentHash.Equal(blk.Block.ParentHash) {
		add("position/foreign-chain-block-same-height", "", false, replaceWith(foreign.Blocks[i]))
	}

	// --- declared roots
	add("forged/state_root", "+1", true, func(b *chain.Blk) {
		nr := inc(b.Block.GlobalStateRoot)
		b.Block.GlobalStateRoot, b.SU.NewRoot = nr, nr
	})
	if i >= 1 && !c.Blocks[i-1].Block.GlobalStateRoot.Equal(blk.Block.GlobalStateRoot) {
		pr := *c.Blocks[i-1].Block.GlobalStateRoot
		add("forged/state_root", "=parent-root", true, func(b *chain.Blk) {
			r := pr
			b.Block.GlobalStateRoot, b.SU.NewRoot = &r, &r
		})
	}
	add("state_update/old_root(garbage)", "+1", false, func(b *chain.Blk) { b.SU.OldRoot = inc(b.SU.OldRoot) })
	if !blk.SU.OldRoot.IsZero() {
		add("state_update/old_root(zero)", "=0", false, func(b *chain.Blk) { b.SU.OldRoot = new(felt.Felt) })
	}
	// an ancestor's root: a state the node really has. Offered only if applying the diff to
	// that ancestor state gives a different abstract state than the block commits to.
	for j := i - 2; j >= 0; j-- {
		if c.Blocks[j].Block.GlobalStateRoot.Equal(blk.SU.OldRoot) {
			continue
		}
		alt := c.States[j].Clone()
		alt.Apply(blk.Block.Number, blk.Block.ProtocolVersion, blk.SU.StateDiff, blk.Classes)
		if stateEq(alt, post) {
			continue
		}
		ar := *c.Blocks[j].Block.GlobalStateRoot
		add("state_update/old_root(ancestor-root)", "=ancestor-root", false, func(b *chain.Blk) { r := ar; b.SU.OldRoot = &r })
		break
	}

	// --- forged state diffs (hash recomputed, declared root kept)
	d := blk.SU.StateDiff
	prevSlot := func(a, k felt.Felt) felt.Felt {
		if _, dep := d.DeployedContracts[a]; dep {
			return felt.Felt{}
		}
		if pc, ok := prev.Contracts[a]; ok {
			return pc.Storage[k]
		}
		return felt.Felt{}
	}
	for _, a := range sortedKeys(d.StorageDiffs) {
		a := a
		for _, k := range sortedKeys(d.StorageDiffs[a]) {
			k := k
			loc := a.String() + "[" + k.String() + "]"
			add("forged/state_diff/storage/change-value", loc, true, func(b *chain.Blk) {
				m := b.SU.StateDiff.StorageDiffs[a]
				m[k] = inc(m[k])
			})
			if pv := prevSlot(a, k); !pv.Equal(d.StorageDiffs[a][k]) {
				add("forged/state_diff/storage/drop-entry", loc, true, func(b *chain.Blk) {
					m := b.SU.StateDiff.StorageDiffs[a]
					delete(m, k)
					if len(m) == 0 {
						delete(b.SU.StateDiff.StorageDiffs, a)
					}
				})
			}
		}
		add("forged/state_diff/storage/add-entry", a.String(), true, func(b *chain.Blk) {
			b.SU.StateDiff.StorageDiffs[a][freshKey] = felt.NewFromUint64[felt.Felt](5)
		})
	}
	for _, a := range sortedKeys(d.Nonces) {
		a := a
		add("forged/state_diff/nonces/change-value", a.String(), true, func(b *chain.Blk) {
			m := b.SU.StateDiff.Nonces
			m[a] = inc(m[a])
		})
		pn := felt.Felt{}
		if pc, ok := prev.Contracts[a]; ok {
			pn = pc.Nonce
		}
		if _, dep := d.DeployedContracts[a]; dep {
			pn = felt.Felt{}
		}
		if !pn.Equal(d.Nonces[a]) {
			add("forged/state_diff/nonces/drop", a.String(), true, func(b *chain.Blk) { delete(b.SU.StateDiff.Nonces, a) })
		}
	}
	for _, a := range sortedKeys(post.Contracts) {
		a := a
		pc := post.Contracts[a]
		if _, has := d.Nonces[a]; has || pc.System {
			continue
		}
		nn := new(felt.Felt).Add(&pc.Nonce, felt.NewFromUint64[felt.Felt](7))
		add("forged/state_diff/nonces/add", a.String(), true, func(b *chain.Blk) { b.SU.StateDiff.Nonces[a] = nn })
		break
	}
	for _, a := range sortedKeys(d.DeployedContracts) {
		a := a
		add("forged/state_diff/deployed_contracts/change-value", a.String(), true, func(b *chain.Blk) {
			m := b.SU.StateDiff.DeployedContracts
			m[a] = inc(m[a])
		})
		add("forged/state_diff/deployed_contracts/drop", a.String(), true, func(b *chain.Blk) {
			delete(b.SU.StateDiff.DeployedContracts, a)
		})
	}
	add("forged/state_diff/deployed_contracts/add", freshAddr.String(), true, func(b *chain.Blk) {
		b.SU.StateDiff.DeployedContracts[freshAddr] = felt.NewFromUint64[felt.Felt](0xc1)
	})
	for _, a := range sortedKeys(d.ReplacedClasses) {
		a := a
		add("forged/state_diff/replaced_classes/change-value", a.String(), true, func(b *chain.Blk) {
			m := b.SU.StateDiff.ReplacedClasses
			m[a] = inc(m[a])
		})
		if pc, ok := prev.Contracts[a]; ok && !pc.Class.Equal(d.ReplacedClasses[a]) {
			add("forged/state_diff/replaced_classes/drop", a.String(), true, func(b *chain.Blk) {
				delete(b.SU.StateDiff.ReplacedClasses, a)
			})
		}
	}
	for _, h := range sortedKeys(d.DeclaredV1Classes) {
		h := h
		add("forged/state_diff/declared_classes/change-value", h.String(), true, func(b *chain.Blk) {
			m := b.SU.StateDiff.DeclaredV1Classes
			m[h] = inc(m[h])
		})
	}
	for k := range d.MigratedClasses {
		k := k
		loc := (*felt.Felt)(&k).String()
		add("forged/state_diff/migrated_compiled_classes/change-value", loc, true, func(b *chain.Blk) {
			m := b.SU.StateDiff.MigratedClasses
			v := felt.Felt(m[k])
			m[k] = felt.CasmClassHash(incV(v))
		})
		add("forged/state_diff/migrated_compiled_classes/drop", loc, true, func(b *chain.Blk) {
			delete(b.SU.StateDiff.MigratedClasses, k)
		})
	}
	return out
}

func blkInfo(b *chain.Blk) string {
	kinds := map[string]int{}
	for _, tx := range b.Block.Transactions {
		k, _ := txKind(tx)
		kinds[k]++
	}
	d := b.SU.StateDiff
	return fmt.Sprintf("number=%d version=%s txs=%v events=%d diff_len=%d classes=%d", b.Block.Number, b.Block.ProtocolVersion,
		kinds, b.Block.EventCount, d.Length(), len(b.Classes))
}

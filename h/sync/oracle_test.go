package vsync

import (
	"fmt"
	"math/big"
	"reflect"
	"sort"
	"strings"

	"github.com/NethermindEth/juno/core"
	"github.com/NethermindEth/juno/core/felt"
	"github.com/bits-and-blooms/bloom/v3"
)

// ---------------------------------------------------------------- recorded history

// Event kinds of the single linearised history of one run:
//
//	C+  database commit that moved the chain height to N (H = header hash, P = its parent)
//	C-  database commit that removed block N (H = its hash; P = hash now at the head)
//	C?  database commit that moved the chain height by anything but +-1
//	S+  listener callback OnSyncStepDone(OpStore, N)
//	S-  listener callback OnReorg(N)
//	NH  new-head notification received from SubscribeNewHeads (block N, hash H)
//	NR  reorg notification received from SubscribeReorg ([A,B], hashes AH, BH)
type ev struct {
	K    string
	N    int64
	H, P felt.Felt
	A, B int64
	AH   felt.Felt
	BH   felt.Felt
	T    uint64 // source logical clock (commits only)
	// facts established online, atomically with the source
	Canonical bool   // C-: the removed block is on the source's canonical path at the commit
	Served    bool   // C+: the block was handed out untampered by the source before the commit
	Diff      string // S+: difference between the stored block read back and the block served
	From      int64  // C?: previous height
}

func short(f *felt.Felt) string {
	s := f.String()
	if len(s) > 12 {
		return s[:6] + ".." + s[len(s)-4:]
	}
	return s
}

func (e ev) String() string {
	switch e.K {
	case "C+":
		return fmt.Sprintf("t=%d commit store #%d %s parent %s", e.T, e.N, short(&e.H), short(&e.P))
	case "C-":
		s := fmt.Sprintf("t=%d commit revert #%d %s (head now %s)", e.T, e.N, short(&e.H), short(&e.P))
		if e.Canonical {
			s += " [block IS canonical at the source]"
		}
		return s
	case "C?":
		return fmt.Sprintf("t=%d commit height %d -> %d", e.T, e.From, e.N)
	case "S+":
		return fmt.Sprintf("listener stored #%d", e.N)
	case "S-":
		return fmt.Sprintf("listener reverted #%d", e.N)
	case "NH":
		return fmt.Sprintf("notify newHead #%d %s", e.N, short(&e.H))
	case "NR":
		return fmt.Sprintf("notify reorg [%d %s, %d %s]", e.A, short(&e.AH), e.B, short(&e.BH))
	}
	return e.K
}

func window(h []ev, i, before, after int) []string {
	lo, hi := max(0, i-before), min(len(h), i+after+1)
	out := make([]string, 0, hi-lo)
	for j := lo; j < hi; j++ {
		mark := "  "
		if j == i {
			mark = "=>"
		}
		out = append(out, fmt.Sprintf("%s%4d %s", mark, j, h[j].String()))
	}
	return out
}

type finding struct {
	Class string
	Brief string
	At    int // index into the history (-1: end of run)
}

// checkHistory is the oracle for (a)-(e) over one recorded history. `initial` is the
// node's chain (block hashes by height) when recording started.
func checkHistory(h []ev, initial []felt.Felt) (out []finding, stats map[string]int) {
	stats = map[string]int{}
	stack := append([]felt.Felt{}, initial...)
	add := func(class, brief string, at int) {
		out = append(out, finding{class, brief, at})
	}

	// expected notifications, in order
	type want struct {
		reorg  bool
		n      int64
		h      felt.Felt
		a, b   int64
		ah, bh felt.Felt
	}
	var expect []want
	notified := map[felt.Felt]int{}  // head notifications delivered, by hash
	storedCnt := map[felt.Felt]int{} // stores committed, by hash
	type rv struct {
		n int64
		h felt.Felt
	}
	var run []rv // reverts since the last store
	var pendingC *ev
	pendingAt := -1
	runIdx := 0

	for i := range h {
		e := &h[i]
		switch e.K {
		case "C+", "C-", "C?":
			if pendingC != nil {
				add("listener:commit-without-callback", fmt.Sprintf("head movement %q was not reported to the sync listener before the next one", pendingC.String()), pendingAt)
			}
			pendingC, pendingAt = e, i
		}
		switch e.K {
		case "C+":
			stats["stores"]++
			top := felt.Zero
			if len(stack) > 0 {
				top = stack[len(stack)-1]
			}
			if e.N != int64(len(stack)) || e.P != top {
				add("head-move:stored-block-does-not-extend-head", fmt.Sprintf("stored #%d with parent %s while the head was #%d %s", e.N, short(&e.P), len(stack)-1, short(&top)), i)
			}
			if !e.Served {
				add("stored-block-never-served-as-valid", fmt.Sprintf("stored #%d %s which the source never handed out untampered", e.N, short(&e.H)), i)
			}
			// keep the model in step with the database even after a violation
			if e.N >= 0 && e.N <= int64(len(stack)) {
				stack = append(stack[:e.N], e.H)
			}
			storedCnt[e.H]++
			if len(run) > 0 {
				lo, hi := run[len(run)-1], run[0]
				expect = append(expect, want{reorg: true, a: lo.n, ah: lo.h, b: hi.n, bh: hi.h})
				stats["revert_runs"]++
				if len(run) > stats["longest_revert_run"] {
					stats["longest_revert_run"] = len(run)
				}
				run = nil
			}
			expect = append(expect, want{n: e.N, h: e.H})
			runIdx = 0
		case "C-":
			stats["reverts"]++
			if len(stack) == 0 || e.N != int64(len(stack))-1 || e.H != stack[len(stack)-1] {
				add("head-move:revert-of-non-head", fmt.Sprintf("revert removed #%d %s while the model head was #%d", e.N, short(&e.H), len(stack)-1), i)
			} else {
				stack = stack[:len(stack)-1]
				top := felt.Zero
				if len(stack) > 0 {
					top = stack[len(stack)-1]
				}
				if e.P != top {
					add("head-move:head-after-revert-is-not-the-parent", fmt.Sprintf("after reverting #%d the head header is %s, expected %s", e.N, short(&e.P), short(&top)), i)
				}
			}
			if e.Canonical {
				pos := "first-of-run"
				if runIdx > 0 {
					pos = "later-in-run"
				}
				add("revert-of-canonical-block:"+pos, fmt.Sprintf("reverted #%d %s which was on the source's canonical path at that logical time (t=%d); revert %d of its run", e.N, short(&e.H), e.T, runIdx+1), i)
			}
			run = append(run, rv{e.N, e.H})
			runIdx++
		case "C?":
			add("head-move:jump", fmt.Sprintf("chain height moved %d -> %d in one commit", e.From, e.N), i)
		case "S+", "S-":
			wantK := map[string]string{"S+": "C+", "S-": "C-"}[e.K]
			if pendingC == nil {
				if e.K == "S-" {
					add("listener:onreorg-without-database-revert", fmt.Sprintf("OnReorg(%d) but no block was removed from the database", e.N), i)
				} else {
					add("listener:stored-callback-without-commit", fmt.Sprintf("OnSyncStepDone(store,%d) but no block was stored", e.N), i)
				}
			} else {
				if pendingC.K != wantK || pendingC.N != e.N {
					add("listener:callback-does-not-match-commit", fmt.Sprintf("callback %q after database commit %q", e.String(), pendingC.String()), i)
				}
				pendingC = nil
			}
			if e.Diff != "" {
				add("stored-content-differs-from-served:"+diffField(e.Diff), fmt.Sprintf("block #%d read back from the node differs from the valid block the source has: %s", e.N, e.Diff), i)
			}
		case "NH":
			stats["newhead_notifications"]++
			switch {
			case len(expect) > 0 && !expect[0].reorg && expect[0].h == e.H && expect[0].n == e.N:
				expect = expect[1:]
			case len(expect) > 1 && expect[0].reorg && expect[1].h == e.H:
				add("reorg-notification:missing", fmt.Sprintf("new head #%d announced but the reorg notification [%d,%d] for the preceding reverts never arrived", e.N, expect[0].a, expect[0].b), i)
				expect = expect[2:]
			case notified[e.H] >= storedCnt[e.H] && storedCnt[e.H] > 0:
				add("newhead-notification:duplicate", fmt.Sprintf("block #%d %s announced %d times but stored %d times", e.N, short(&e.H), notified[e.H]+1, storedCnt[e.H]), i)
			case storedCnt[e.H] == 0:
				add("newhead-notification:block-not-stored", fmt.Sprintf("block #%d %s announced but not stored (before the store commit, or never stored)", e.N, short(&e.H)), i)
			default:
				add("newhead-notification:out-of-order", fmt.Sprintf("block #%d %s announced out of storage order", e.N, short(&e.H)), i)
				for j, w := range expect { // resynchronise
					if !w.reorg && w.h == e.H {
						expect = expect[j+1:]
						break
					}
				}
			}
			notified[e.H]++
		case "NR":
			stats["reorg_notifications"]++
			if len(expect) > 0 && expect[0].reorg {
				w := expect[0]
				expect = expect[1:]
				if w.a != e.A || w.b != e.B || w.ah != e.AH || w.bh != e.BH {
					add("reorg-notification:wrong-range", fmt.Sprintf("reorg notification [%d %s, %d %s], but the reverts since the previous store were [%d %s, %d %s]",
						e.A, short(&e.AH), e.B, short(&e.BH), w.a, short(&w.ah), w.b, short(&w.bh)), i)
				}
			} else {
				add("reorg-notification:unexpected", fmt.Sprintf("reorg notification [%d,%d] without reverts since the previous store (or sent before the store)", e.A, e.B), i)
			}
		}
	}
	if pendingC != nil {
		add("listener:commit-without-callback", fmt.Sprintf("head movement %q was never reported to the sync listener", pendingC.String()), pendingAt)
	}
	for _, w := range expect {
		if w.reorg {
			add("reorg-notification:missing", fmt.Sprintf("no reorg notification for reverted range [%d,%d]", w.a, w.b), -1)
		} else {
			add("newhead-notification:missing", fmt.Sprintf("no new-head notification for stored block #%d %s", w.n, short(&w.h)), -1)
		}
	}
	return out, stats
}

func diffField(d string) string {
	if i := strings.IndexByte(d, ' '); i > 0 {
		return d[:i]
	}
	return d
}

// ---------------------------------------------------------------- canonical dump

var (
	bigIntT = reflect.TypeOf((*big.Int)(nil))
	bloomT  = reflect.TypeOf((*bloom.BloomFilter)(nil))
	feltT   = reflect.TypeOf(felt.Felt{})
)

// dumpLines renders a value as sorted "path=value" lines; nil and empty
// slices/maps are the same, maps are ordered, unexported fields are skipped.
func dumpLines(v any) []string {
	var out []string
	dumpRec(reflect.ValueOf(v), "", &out)
	return out
}

func dumpRec(v reflect.Value, path string, out *[]string) {
	emit := func(s string) { *out = append(*out, path+"="+s) }
	if !v.IsValid() {
		emit("nil")
		return
	}
	switch v.Kind() {
	case reflect.Pointer:
		if v.IsNil() {
			emit("nil")
			return
		}
		switch v.Type() {
		case bigIntT:
			emit(v.Interface().(*big.Int).String())
			return
		case bloomT:
			return // derived from the events, not compared
		}
		dumpRec(v.Elem(), path, out)
	case reflect.Interface:
		if v.IsNil() {
			emit("nil")
			return
		}
		dumpRec(v.Elem(), path+"<"+v.Elem().Type().String()+">", out)
	case reflect.Slice:
		if v.Type().Elem().Kind() == reflect.Uint8 {
			emit(fmt.Sprintf("%x", v.Bytes()))
			return
		}
		emit(fmt.Sprintf("len %d", v.Len()))
		for i := 0; i < v.Len(); i++ {
			dumpRec(v.Index(i), fmt.Sprintf("%s[%d]", path, i), out)
		}
	case reflect.Array:
		if v.Type().ConvertibleTo(feltT) {
			f := v.Convert(feltT).Interface().(felt.Felt)
			emit(f.String())
			return
		}
		for i := 0; i < v.Len(); i++ {
			dumpRec(v.Index(i), fmt.Sprintf("%s[%d]", path, i), out)
		}
	case reflect.Map:
		emit(fmt.Sprintf("len %d", v.Len()))
		type kv struct {
			k string
			v reflect.Value
		}
		var kvs []kv
		it := v.MapRange()
		for it.Next() {
			var ks []string
			dumpRec(it.Key(), "", &ks)
			kvs = append(kvs, kv{strings.Join(ks, ","), it.Value()})
		}
		sort.Slice(kvs, func(i, j int) bool { return kvs[i].k < kvs[j].k })
		for _, e := range kvs {
			dumpRec(e.v, path+"{"+strings.TrimPrefix(e.k, "=")+"}", out)
		}
	case reflect.Struct:
		for i := 0; i < v.NumField(); i++ {
			if v.Type().Field(i).IsExported() {
				dumpRec(v.Field(i), path+"."+v.Type().Field(i).Name, out)
			}
		}
	default:
		emit(fmt.Sprint(v.Interface()))
	}
}

// contentDiff compares the protocol content of two (block, state update) pairs and
// returns "" or "<path> served=<x> stored=<y>" for the first difference.
func contentDiff(wantB *core.Block, wantSU *core.StateUpdate, gotB *core.Block, gotSU *core.StateUpdate) string {
	type pair struct {
		B  *core.Block
		SU *core.StateUpdate
	}
	w := dumpLines(pair{wantB, wantSU})
	g := dumpLines(pair{gotB, gotSU})
	for i := 0; i < len(w) && i < len(g); i++ {
		if w[i] != g[i] {
			wp, wv, _ := strings.Cut(w[i], "=")
			gp, gv, _ := strings.Cut(g[i], "=")
			if wp == gp {
				return fmt.Sprintf("%s served=%s stored=%s", normPath(wp), wv, gv)
			}
			return fmt.Sprintf("%s served-line=%q stored-line=%q", normPath(wp), w[i], g[i])
		}
	}
	if len(w) != len(g) {
		return fmt.Sprintf("shape served-lines=%d stored-lines=%d", len(w), len(g))
	}
	return ""
}

// normPath strips indices and map keys so that the path is a field classifier.
func normPath(p string) string {
	var sb strings.Builder
	depth := 0
	for _, c := range p {
		switch c {
		case '[', '{', '<':
			depth++
		case ']', '}', '>':
			depth--
		default:
			if depth == 0 {
				sb.WriteRune(c)
			}
		}
	}
	return strings.TrimPrefix(sb.String(), ".")
}

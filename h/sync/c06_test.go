package vsync

import (
	"context"
	"errors"
	"fmt"
	"math/rand/v2"
	"os"
	"runtime"
	"runtime/pprof"
	"sort"
	"strings"
	"sync"
	"sync/atomic"
	"testing"
	"time"

	"github.com/NethermindEth/juno/blockchain"
	"github.com/NethermindEth/juno/core"
	"github.com/NethermindEth/juno/core/felt"
	"github.com/NethermindEth/juno/db/memory"
	jsync "github.com/NethermindEth/juno/sync"
	"github.com/NethermindEth/juno/utils/log"
	"github.com/NethermindEth/juno/verifh/lib"
	"github.com/NethermindEth/juno/verifh/lib/chain"
)

// ---------------------------------------------------------------- observation harness

type harness struct {
	db   *headDB
	node *chain.Node
	src  *source

	armed bool     // read/written under the db commit lock
	cur   headInfo // idem
	head  atomic.Pointer[headInfo]

	heads  jsync.NewHeadSubscription
	reorgs jsync.ReorgSubscription

	// further new-head subscribers that come and go while the node runs (RPC clients do):
	// each must see exactly the notifications the first subscriber sees during its lifetime
	syn      *jsync.Synchronizer
	churnRng *rand.Rand
	extras   []*extraSub
	nh       []felt.Felt // hashes of the new-head notifications the first subscriber received
	drains   int

	mu   sync.Mutex
	dmu  sync.Mutex
	hist []ev
	ops  map[string]int
}

type extraSub struct {
	id         int
	sub        jsync.NewHeadSubscription
	born, died int // window into harness.nh ([born, died)); died = -1 while alive
	got        []felt.Felt
}

// churn runs at the end of every drain point (all of them are on the serial store pipeline, so
// no Send is in flight): it empties the extra subscribers' channels and now and then subscribes
// a new one or unsubscribes one that is not the newest.
func (h *harness) churn() {
	if h.syn == nil {
		return
	}
	for _, x := range h.extras {
		if x.died >= 0 {
			continue
		}
		for {
			select {
			case b, ok := <-x.sub.Recv():
				if ok && b != nil {
					x.got = append(x.got, *b.Hash)
					continue
				}
			default:
			}
			break
		}
	}
	h.drains++
	var live []*extraSub
	for _, x := range h.extras {
		if x.died < 0 {
			live = append(live, x)
		}
	}
	switch r := h.churnRng.IntN(12); {
	case r < 2 && len(live) < 4:
		h.extras = append(h.extras, &extraSub{id: len(h.extras), sub: h.syn.SubscribeNewHeads(), born: len(h.nh), died: -1})
	case r == 2 && len(live) >= 2:
		x := live[h.churnRng.IntN(len(live)-1)] // any but the newest
		x.sub.Unsubscribe()
		x.died = len(h.nh)
	case r == 3 && len(live) >= 1:
		x := live[len(live)-1]
		x.sub.Unsubscribe()
		x.died = len(h.nh)
	}
}

func (h *harness) append(e ev) {
	h.mu.Lock()
	h.hist = append(h.hist, e)
	h.mu.Unlock()
}

// drain empties both feed subscriptions into the history. It is called from inside
// every database head commit, from inside every OpStore / OnReorg listener callback
// (all of them run on the serial store pipeline, and storeTask sends at most one
// value per feed between two consecutive drain points) and once after Run returned.
// The reorg feed is read first: storeTask sends the reorg notification before the
// new head.
func (h *harness) drain() {
	// all drain points are on the serial store pipeline on a correct synchroniser; the lock only
	// keeps the monitor's own state consistent when the code under test breaks that rule
	h.dmu.Lock()
	defer h.dmu.Unlock()
	for {
		select {
		case r, ok := <-h.reorgs.Recv():
			if ok && r != nil {
				h.append(ev{K: "NR", A: int64(r.StartBlockNum), B: int64(r.EndBlockNum), AH: *r.StartBlockHash, BH: *r.EndBlockHash})
				continue
			}
		default:
		}
		select {
		case b, ok := <-h.heads.Recv():
			if ok && b != nil {
				h.append(ev{K: "NH", N: int64(b.Number), H: *b.Hash})
				h.nh = append(h.nh, *b.Hash)
				continue
			}
		default:
		}
		h.churn()
		return
	}
}

// onHeight is the headDB hook: runs under the commit lock right after a write-set
// that changed the chain-height key was applied.
func (h *harness) onHeight(newHeight int64) {
	prev := h.cur
	cur := headInfo{num: newHeight}
	var hdr *core.Header
	if newHeight >= 0 {
		var err error
		hdr, err = core.GetBlockHeaderByNumber(h.db.inner, uint64(newHeight))
		if err != nil {
			panic(fmt.Sprintf("head trace: chain height %d committed without a header: %v", newHeight, err))
		}
		cur.hash = *hdr.Hash
	}
	h.cur = cur
	h.head.Store(&cur)
	if !h.armed {
		return
	}
	h.drain()
	var e ev
	switch {
	case newHeight == prev.num+1:
		f := h.src.onHead(hdr.Hash, &cur, true)
		e = ev{K: "C+", N: newHeight, H: *hdr.Hash, P: *hdr.ParentHash, T: f.clock, Served: f.served}
	case newHeight == prev.num-1:
		f := h.src.onHead(&prev.hash, &cur, false)
		e = ev{K: "C-", N: prev.num, H: prev.hash, P: cur.hash, T: f.clock, Canonical: f.canonical}
	default:
		f := h.src.onHead(&cur.hash, &cur, true)
		e = ev{K: "C?", N: newHeight, From: prev.num, T: f.clock}
	}
	h.append(e)
}

func (h *harness) listener() *jsync.SelectiveListener {
	return &jsync.SelectiveListener{
		OnSyncStepDoneCb: func(op string, n uint64, _ time.Duration) {
			if op != jsync.OpStore {
				h.mu.Lock()
				h.ops[op]++
				h.mu.Unlock()
				if op == jsync.OpFetch {
					// directed interleaving: the controller changes the source while this fetcher holds
					// the block it has just been handed
					if hk := h.src.fetchHook.Swap(nil); hk != nil {
						hk.entered <- int64(n)
						wd := time.NewTimer(60 * time.Second) // watchdog only
						select {
						case <-hk.release:
						case <-wd.C:
						}
						wd.Stop()
					}
				}
				return
			}
			h.drain()
			e := ev{K: "S+", N: int64(n)}
			// (a): what the node now holds for this block vs what the source has
			blk, err := h.node.BC.BlockByNumber(n)
			if err != nil {
				e.Diff = "readback block: " + err.Error()
			} else if su, err := h.node.BC.StateUpdateByNumber(n); err != nil {
				e.Diff = "readback state update: " + err.Error()
			} else {
				h.src.mu.Lock()
				want := h.src.ever[*blk.Hash]
				h.src.mu.Unlock()
				if want == nil {
					e.Diff = "unknown-hash stored a block whose hash the source never had"
				} else {
					e.Diff = contentDiff(want.Block, want.SU, blk, su)
				}
			}
			// directed interleaving: the controller reorganises the source while this callback - and
			// with it storeTask, before the block's announcements - is still running. The store
			// pipeline is serial, so nothing may happen to the head until the callback returns.
			if hk := h.src.cbHook.Swap(nil); hk != nil {
				hk.entered <- int64(n)
				wd := time.NewTimer(60 * time.Second) // watchdog only
				select {
				case <-hk.release:
				case <-wd.C:
				}
				wd.Stop()
			}
			h.append(e)
		},
		OnReorgCb: func(n uint64) {
			h.drain()
			h.append(ev{K: "S-", N: int64(n)})
		},
	}
}

const (
	labelKey        = "c06case"
	quiescentRounds = 40
)

var caseSerial atomic.Int64

// blockedStates are goroutine wait reasons (runtime.Stack header) in which a
// goroutine cannot proceed until another goroutine or a timer acts.
var blockedStates = map[string]bool{
	"chan receive": true, "chan send": true, "select": true, "sleep": true, "sync.WaitGroup.Wait": true,
	"sync.Cond.Wait": true, "semacquire": true, "select (no cases)": true, "chan receive (nil chan)": true,
	"chan send (nil chan)": true,
}

// quiescent reports whether every goroutine carrying this case's label, other than
// the caller, is in a blocked state (none running, runnable, in a syscall, waiting
// for a mutex or for the garbage collector). It needs GODEBUG=tracebacklabels=1.
func quiescent(label string) (bool, string) {
	buf := make([]byte, 4<<20)
	for {
		n := runtime.Stack(buf, true)
		if n < len(buf) {
			buf = buf[:n]
			break
		}
		buf = make([]byte, 2*len(buf))
	}
	needle := fmt.Sprintf("%q: %q", labelKey, label)
	seen := 0
	for _, g := range strings.Split(string(buf), "\n\ngoroutine ") {
		hdr, _, _ := strings.Cut(g, "\n")
		if !strings.Contains(hdr, needle) || strings.Contains(g, "sync.quiescent(") {
			continue
		}
		seen++
		i := strings.IndexByte(hdr, '[')
		if i < 0 {
			return false, hdr
		}
		st := hdr[i+1:]
		if j := strings.Index(st, " labels:"); j >= 0 {
			st = st[:j]
		}
		st, _, _ = strings.Cut(st, ",")
		st = strings.TrimSuffix(strings.TrimSpace(st), "]:")
		if !blockedStates[st] {
			return false, hdr
		}
	}
	return true, fmt.Sprintf("%d goroutines, all blocked", seen)
}

var maxMu sync.Mutex

// countMax keeps a counter at the maximum value seen.
func countMax(r *lib.Run, key string, v int) {
	maxMu.Lock()
	defer maxMu.Unlock()
	if cur := int(r.Counter(key)); v > cur {
		r.Count(key, v-cur)
	}
}

// ---------------------------------------------------------------- case generation

type caseCfg struct {
	Case         int      `json:"case"`
	Template     string   `json:"template,omitempty"`
	NodeNewState bool     `json:"node_new_state"`
	BuilderNew   bool     `json:"builder_new_state"`
	Versions     []string `json:"versions"`
	InitialLen   int      `json:"source_initial_len"`
	Preload      int      `json:"preloaded_blocks"`
	PreloadFork  int      `json:"preloaded_orphan_suffix"`
	Probs        probs    `json:"fault_probabilities"`
	CleanHeader  bool     `json:"first_latest_header_answer_clean"`
	MinFork      int      `json:"min_fork_point"`
	WaitOneShot  bool     `json:"stabilise_only_after_armed_one_shot_fired"`
	Script       []action `json:"script"`
	// ViaFeeder: the synchroniser talks to the production feeder-gateway DataSource, which
	// talks to the scripted source (otherwise the scripted source is the DataSource itself)
	ViaFeeder bool `json:"via_feeder_gateway_data_source"`
}

var versionFamilies = [][]string{
	{"0.13.2", "0.13.4"}, {"0.14.0", "0.14.1"}, {"0.13.2"}, {"0.13.4"}, {"0.14.0"}, {"0.14.1"},
}

func genCase(rng *rand.Rand, idx int, quick bool) caseCfg {
	c := caseCfg{Case: idx, NodeNewState: rng.IntN(2) == 0, BuilderNew: rng.IntN(2) == 0, ViaFeeder: idx%3 == 1}
	c.Versions = versionFamilies[rng.IntN(len(versionFamilies))]
	// Two directed templates on an otherwise fault-free source, so that the two
	// schedule/shape-dependent paths they aim at are visited in every run of the check
	// (they also occur in the random space, but not reliably).
	switch idx % 16 {
	case 3:
		// catch-up mode; the answer for the next block is overtaken by its successor
		// and a reorg at exactly that block lands in between
		c.Template = "out-of-order-answer-with-reorg-in-between"
		// (long chain: the withheld height stays far below the catch-up -> tip switch,
		// so no stream reset separates the two answers)
		c.InitialLen = 60 + rng.IntN(10)
		c.Preload = rng.IntN(8)
		c.CleanHeader, c.MinFork = true, 1
		c.Script = []action{{After: 3 + rng.IntN(10), Kind: "attack", K: rng.IntN(3)}, {After: 40 + rng.IntN(40), Kind: "extend", K: 2}}
		return c
	case 5:
		// the source replaces its whole chain, block 0 included, by a single new block
		c.Template = "whole-chain-replaced-by-single-block"
		c.InitialLen = 4 + rng.IntN(8)
		c.CleanHeader, c.MinFork = true, 0
		c.Script = []action{{After: 30 + rng.IntN(60), Kind: "reorg", Rel: true, Depth: 1 << 20, LenMode: -1, K: 0}}
		return c
	case 14:
		// The node follows the tip; the source switches to a fork one block longer and returns to
		// the chain it had orphaned (one or two blocks longer than before) while a fetcher of the
		// node holds a block of the fork.
		c.Template = "there-and-back:tip"
		c.CleanHeader, c.MinFork = true, 1
		c.InitialLen = 5 + rng.IntN(8)
		c.Script = []action{{Kind: "sync"}, {After: 1 + rng.IntN(4), Kind: "there-and-back", Rel: true, Depth: 1 + rng.IntN(2), K: rng.IntN(2)}}
		if rng.IntN(2) == 0 {
			c.Script = append(c.Script, action{After: 20 + rng.IntN(30), Kind: "extend", K: 1})
		}
		return c
	case 11, 13:
		// The node follows the tip. The source adds 1-3 blocks and, while the node is inside the
		// store callback of the first of them (announcements not yet made), replaces a suffix
		// ending at or just below that block by one of the same or a smaller length (11) / any
		// length (13: also deeper, possibly in catch-up mode on a long chain).
		c.Template = "reorg-inside-store-callback:tip"
		c.CleanHeader, c.MinFork = true, 1
		c.InitialLen = 4 + rng.IntN(9)
		cb := action{Kind: "cbreorg", Depth: rng.IntN(2), LenMode: -rng.IntN(2), K: rng.IntN(1 << 16)}
		if idx%16 == 13 {
			c.Template = "reorg-inside-store-callback:any"
			if rng.IntN(2) == 0 {
				c.InitialLen = 30 + rng.IntN(20)
			}
			cb.Depth, cb.LenMode = rng.IntN(4), rng.IntN(3)-1
			c.Script = []action{{After: 2 + rng.IntN(30), Kind: "extend", K: 1}, cb, {After: 5 + rng.IntN(20), Kind: "extend", K: 1 + rng.IntN(2)}}
			return c
		}
		c.Script = []action{{Kind: "sync"}, {After: 1 + rng.IntN(5), Kind: "extend", K: 1 + rng.IntN(3)}, cb, {After: 10 + rng.IntN(20), Kind: "extend", K: 1}}
		return c
	case 6, 7, 9:
		// The node is at the source's tip N. The source replaces the last 1-3 blocks and
		// adds one; storing N+1' fails on its parent, and the one request revertTask then
		// makes for the node's head height fails exactly once. After that the source is
		// stable and healthy. (6: one fetcher; 7: parallel fetchers, because the
		// synchroniser's idea of the highest block is stale from a longer abandoned chain;
		// 9: same-length replacement and the one-shot failure hits the latest-header
		// request of the reorg check instead.)
		c.CleanHeader, c.MinFork, c.WaitOneShot = true, 1, true
		c.Preload = 0
		last := action{After: 5 + rng.IntN(40), Kind: "reorg", Rel: true, Depth: 1 + rng.IntN(3), LenMode: 1, K: 0, OneShot: "head"}
		switch idx % 16 {
		case 6:
			c.Template = "one-shot-failure-of-revert-check-request:single-fetcher"
			c.InitialLen = 4 + rng.IntN(9)
			c.Script = []action{{Kind: "sync"}, last}
		case 7:
			c.Template = "one-shot-failure-of-revert-check-request:parallel-fetchers"
			c.InitialLen = 40 + rng.IntN(10)
			// early switch to a much shorter chain: fork at 6, new length 14
			c.Script = []action{{After: 2, Kind: "reorg", Depth: c.InitialLen - 1 - 6, LenMode: -1, K: 7}, {Kind: "sync"}, last}
		default:
			c.Template = "one-shot-failure-of-latest-header-in-reorg-check"
			c.InitialLen = 4 + rng.IntN(9)
			last.LenMode, last.OneShot = 0, "header"
			c.Script = []action{{Kind: "sync"}, last}
		}
		return c
	}
	long := rng.IntN(5) < 3 // long enough for catch-up mode (16 parallel fetchers)
	if long {
		c.InitialLen = 26 + rng.IntN(20)
	} else {
		c.InitialLen = 3 + rng.IntN(12)
	}
	if !quick && rng.IntN(4) == 0 {
		c.InitialLen += 30 + rng.IntN(40)
	}
	switch rng.IntN(10) {
	case 0, 1, 2: // the node already has a prefix
		c.Preload = 1 + rng.IntN(c.InitialLen)
	case 3, 4: // the node was on a fork that the source has since abandoned
		c.Preload = 1 + rng.IntN(c.InitialLen)
		c.PreloadFork = 1 + rng.IntN(min(c.Preload, 6))
	}
	c.Probs = probs{Err: rng.Float64() * 0.2, Slow: rng.Float64() * 0.3, Corrupt: rng.Float64() * 0.15, Stale: rng.Float64() * 0.3}
	if rng.IntN(6) == 0 {
		c.Probs = probs{Corrupt: 0.05} // nearly clean source: only reorgs
	}
	c.Probs.OneShot = rng.Float64() * 0.03
	c.WaitOneShot = rng.IntN(2) == 0
	c.CleanHeader = rng.IntN(5) != 0
	c.MinFork = 1
	if rng.IntN(6) == 0 {
		c.MinFork = 0 // the whole chain including block 0 may be replaced
	}
	nAct := 4 + rng.IntN(7)
	for i := 0; i < nAct; i++ {
		a := action{After: 1 + rng.IntN(8)}
		switch rng.IntN(4) {
		case 0:
			a.After += rng.IntN(25)
		case 1:
			a.After += rng.IntN(120)
		}
		x := rng.IntN(10)
		switch {
		case x < 2:
			a.Kind, a.K = "extend", 1+rng.IntN(4)
		case x < 4 && long && i < 4:
			a.Kind, a.K = "attack", rng.IntN(3)
			a.After = 1 + rng.IntN(30)
		case x == 4 && i > 0:
			a.Kind, a.Depth, a.LenMode, a.K = "cbreorg", rng.IntN(4), rng.IntN(3)-1, rng.IntN(1<<16)
			if rng.IntN(3) == 0 {
				a.Kind, a.Rel, a.Depth = "there-and-back", rng.IntN(2) == 0, rng.IntN(4)
			}
		default:
			a.Kind = "reorg"
			a.Rel = rng.IntN(3) != 0
			switch rng.IntN(6) {
			case 0:
				a.Depth = 0
			case 1:
				a.Depth = 1
			case 2:
				a.Depth = 2 + rng.IntN(3)
			case 3:
				a.Depth = rng.IntN(12)
			case 4:
				a.Depth = rng.IntN(c.InitialLen + 10)
			default:
				a.Depth = 1 << 20 // as deep as allowed: the whole chain
			}
			a.LenMode = rng.IntN(3) - 1
			a.K = rng.IntN(1 << 16)
			switch x := rng.IntN(20); {
			case x < 4:
				a.OneShot = "head"
			case x < 6:
				a.OneShot = "header"
			}
		}
		c.Script = append(c.Script, a)
	}
	return c
}

// ---------------------------------------------------------------- one run

type witness struct {
	Config      caseCfg   `json:"config"`
	Applied     []applied `json:"source_changes_applied"`
	Finding     string    `json:"finding"`
	History     []string  `json:"history_window"`
	HistoryLen  int       `json:"history_len"`
	Requests    uint64    `json:"source_requests"`
	EffRequests uint64    `json:"effective_requests"`
	SourceLen   int       `json:"source_final_len"`
	NodeHead    int64     `json:"node_final_head"`
	Note        string    `json:"note,omitempty"`
}

func runCase(t *testing.T, r *lib.Run, idx int) {
	rng := lib.Rng("C06/run", uint64(idx))
	cfg := genCase(rng, idx, r.Quick())
	g := chain.NewGen(lib.Rng("C06/gen", uint64(idx)), chain.Opts{
		Versions: cfg.Versions, NoNoopZero: lib.Avoid("noop-zero-write"), MaxTxs: 3, EmptyProb: 0.2,
		DeclaredOnly: cfg.ViaFeeder,
	})

	// source chain
	tipB := chain.NewBuilder(cfg.BuilderNew)
	cur := &chain.Chain{}
	if err := g.Extend(cur, tipB, cfg.InitialLen); err != nil {
		t.Errorf("case %d: generator: %v", idx, err)
		return
	}
	// what the node already holds when the synchroniser starts
	local := cur.Prefix(0)
	if cfg.Preload > 0 {
		keep := cfg.Preload - cfg.PreloadFork
		local = cur.Prefix(keep)
		if cfg.PreloadFork > 0 {
			fb, err := chain.BuilderAt(local, keep, cfg.BuilderNew)
			if err == nil {
				err = g.Extend(local, fb, cfg.PreloadFork)
			}
			if err != nil {
				t.Errorf("case %d: generator (orphan suffix): %v", idx, err)
				return
			}
		}
	}

	h := &harness{ops: map[string]int{}}
	h.cur = headInfo{num: -1}
	h.head.Store(&headInfo{num: -1})
	h.db = &headDB{inner: memory.New()}
	h.db.hook = h.onHeight
	h.node = chain.NewNode(h.db, cfg.NodeNewState)
	var initial []felt.Felt
	for _, b := range local.Blocks {
		if err := h.node.StoreBlk(b); err != nil {
			t.Errorf("case %d: preload block %d: %v", idx, b.Number(), err)
			return
		}
		initial = append(initial, *b.Block.Hash)
	}
	src := newSource(lib.Rng("C06/source", uint64(idx)), cfg.Probs, append([]*chain.Blk{}, cur.Blocks...), &h.head)
	src.cleanFirstHeader = cfg.CleanHeader
	for _, b := range local.Blocks {
		src.ever[*b.Block.Hash] = b
	}
	h.src = src
	h.db.mu.Lock()
	h.armed = true
	h.db.mu.Unlock()

	var ds jsync.DataSource = src
	if cfg.ViaFeeder {
		ds = jsync.NewFeederGatewayDataSource(h.node.BC, feederView{src})
		r.Count("runs_via_feeder_gateway_data_source", 1)
	}
	s := jsync.New(h.node.BC, ds, log.NewNopZapLogger(), 0, false, h.db)
	h.heads = s.SubscribeNewHeads()
	h.reorgs = s.SubscribeReorg()
	h.syn = s
	h.churnRng = lib.Rng("C06/subscriber-churn", uint64(idx))
	s.WithListener(h.listener())

	ctl := &controller{src: src, g: g, cur: cur, tip: tipB, builderNew: cfg.BuilderNew, minFork: cfg.MinFork, script: cfg.Script}

	ctl.grace = 500 * time.Millisecond
	if r.Race {
		ctl.grace = 3 * time.Second
	}
	ctl.waitOneShot = cfg.WaitOneShot
	ctl.prearm()
	// every goroutine started from here on inherits the label: the quiescence proof
	// below finds the goroutines of exactly this case in a runtime stack dump
	label := fmt.Sprintf("%d.%d", idx, caseSerial.Add(1))
	base := context.Background()
	pprof.SetGoroutineLabels(pprof.WithLabels(base, pprof.Labels(labelKey, label)))
	defer pprof.SetGoroutineLabels(base)
	ctx, cancel := context.WithCancel(base)
	ctlCtx, ctlCancel := context.WithCancel(ctx)
	defer ctlCancel()
	runDone := make(chan struct{})
	ctlDone := make(chan struct{})
	go func() { _ = s.Run(ctx); close(runDone) }()
	go func() { ctl.run(ctlCtx); close(ctlDone) }()

	scale := time.Duration(1)
	if r.Race {
		scale = 4
	}
	watchdog := time.NewTimer(240 * time.Second * scale)
	defer watchdog.Stop()
	outcome := ""
	stall := 45 * time.Second * scale
	tick := time.NewTicker(40 * time.Millisecond)
	defer tick.Stop()
	var lastProg, lastRaw uint64
	idleTicks, rounds, rawIdle, snapshots := 0, 0, 0, 0
	for outcome == "" {
		select {
		case <-src.convCh:
			outcome = "converged"
			// let it follow the stable tip for a few more effective requests: the head must stay
			q := time.NewTimer(5 * time.Second * scale)
			select {
			case <-src.quietCh:
			case <-q.C:
			}
			q.Stop()
		case <-src.excCh:
			outcome = "bound-exceeded"
		case <-watchdog.C:
			outcome = "watchdog"
		case <-tick.C:
			if !src.stableFlag.Load() {
				// workload shaping only: a node that has stopped asking would keep the
				// script waiting for ever; end the script so that the stable phase decides
				if raw := src.rawReqs.Load() + src.progress.Load(); raw != lastRaw {
					lastRaw, rawIdle = raw, 0
				} else if rawIdle++; rawIdle > int(250*scale) {
					ctlCancel()
				}
				continue
			}
			if p := src.progress.Load(); p != lastProg {
				lastProg, idleTicks, rounds = p, 0, 0
				continue
			}
			idleTicks++
			if idleTicks < 3 {
				continue
			}
			// No head movement and no information-carrying request for a few ticks. Wall
			// clock only decides *when to look*; the verdict comes from a proof: in a dump
			// of all goroutine states every goroutine of this case (synchroniser, its
			// fetchers, verifiers, pollers, the source handlers they sit in) is blocked -
			// nothing is running or runnable - and every request the node has open is a
			// parked "not available". Then all parked requests are answered (one spin
			// round) and the node must react; quiescentRounds such rounds in a row without
			// a head movement or an effective request = the node spins (or sleeps) for ever.
			snapshots++
			if q, _ := quiescent(label); q {
				rounds++
				if rounds >= quiescentRounds {
					outcome = "quiescent"
				}
				src.releaseParked()
				idleTicks = 1
			}
			if time.Since(time.Unix(0, src.lastProgress.Load())) > stall {
				outcome = "stalled"
			}
		}
	}
	r.Count("quiescence_snapshots", snapshots)
	cancel()
	stop := time.NewTimer(120 * time.Second * scale)
	select {
	case <-runDone:
	case <-stop.C:
		r.Inconclusive("watchdog:synchroniser-did-not-stop-after-cancel")
		return // goroutines of this case are leaked; nothing more can be observed safely
	}
	stop.Stop()
	<-ctlDone
	h.drain()
	if ctl.err != nil {
		t.Errorf("case %d: generator (controller): %v", idx, ctl.err)
		return
	}

	// ------------------------------------------------------------ verdicts
	h.mu.Lock()
	hist := append([]ev{}, h.hist...)
	ops := map[string]int{}
	for k, v := range h.ops {
		ops[k] = v
	}
	h.mu.Unlock()
	src.mu.Lock()
	canon := src.canon
	reqs, eff, stableEff, bound, convEff := src.reqs, src.eff, src.stableEff, src.bound, src.convEff
	stats := src.stats
	maxInflight := src.maxInflight
	resps := src.resps
	src.mu.Unlock()
	nodeHead := h.head.Load()

	mkWitness := func(f finding) witness {
		w := witness{Config: cfg, Applied: ctl.log, Finding: f.Brief, HistoryLen: len(hist), Requests: reqs, EffRequests: eff,
			SourceLen: len(canon), NodeHead: nodeHead.num}
		if f.At >= 0 {
			w.History = window(hist, f.At, 14, 6)
		} else {
			w.History = window(hist, len(hist)-1, 20, 0)
		}
		return w
	}

	findings, hstats := checkHistory(hist, initial)
	r.Eval(len(hist))

	// (d') every further new-head subscriber saw exactly what the first one saw during its lifetime
	for _, x := range h.extras {
		end := x.died
		if end < 0 {
			end = len(h.nh)
		}
		want := h.nh[x.born:end]
		r.Count("extra_new_head_subscribers", 1)
		r.Count("new_head_notifications_due_to_extra_subscribers", len(want))
		same := len(want) == len(x.got)
		for i := 0; same && i < len(want); i++ {
			same = want[i].Equal(&x.got[i])
		}
		if !same {
			kind := "lost"
			if len(x.got) > len(want) {
				kind = "extra"
			} else if len(x.got) == len(want) {
				kind = "different"
			}
			findings = append(findings, finding{"new-head-notification:" + kind + ":for-a-later-subscriber-while-others-come-and-go",
				fmt.Sprintf("new-head subscriber #%d (subscribed after %d notifications, %s) received %d notifications, the first subscriber received %d in that time",
					x.id, x.born, map[bool]string{true: "still subscribed at the end", false: fmt.Sprintf("unsubscribed after %d", x.died)}[x.died < 0], len(x.got), len(want)), -1})
			break
		}
	}

	// (a) continued: no tampered answer may have been acknowledged as persisted
	persisted := 0
	for _, rp := range resps {
		select {
		case err := <-rp.persisted:
			rp.acked, rp.err = true, err
			if err == nil {
				persisted++
				if rp.corrupt {
					findings = append(findings, finding{"corrupted-block-persisted:" + rp.tamper,
						fmt.Sprintf("the source's tampered answer for #%d (%s) was acknowledged as persisted", rp.num, rp.tamper), -1})
				}
			}
		default:
		}
	}
	// witness shape of a canonical-block revert: was it the answer to a genuine but
	// overtaken successor (served before the reorg, stored after it) failing on its parent?
	for i := range findings {
		f := &findings[i]
		if f.Class != "revert-of-canonical-block:first-of-run" || f.At < 0 {
			continue
		}
		e := hist[f.At]
		for _, rp := range resps {
			if !rp.corrupt && int64(rp.num) == e.N+1 && rp.acked && errors.Is(rp.err, blockchain.ErrParentDoesNotMatchHead) && rp.parent != e.H {
				f.Class = "revert-of-canonical-block:after-parent-mismatch-of-overtaken-successor"
				f.Brief += fmt.Sprintf("; a genuine block #%d %s of the abandoned fork (handed out before the source's reorg) was refused with ErrParentDoesNotMatchHead", rp.num, short(&rp.hash))
				break
			}
		}
	}

	// (f) bounded convergence + final chain
	switch outcome {
	case "converged":
		r.Eval(1)
		diff := ""
		if nodeHead.num != int64(len(canon))-1 {
			diff = fmt.Sprintf("node head #%d, source tip #%d", nodeHead.num, len(canon)-1)
		}
		for i := 0; diff == "" && i < len(canon); i++ {
			blk, err := h.node.BC.BlockByNumber(uint64(i))
			if err != nil {
				diff = fmt.Sprintf("block %d: %v", i, err)
				break
			}
			su, err := h.node.BC.StateUpdateByNumber(uint64(i))
			if err != nil {
				diff = fmt.Sprintf("state update %d: %v", i, err)
				break
			}
			if d := contentDiff(canon[i].Block, canon[i].SU, blk, su); d != "" {
				diff = fmt.Sprintf("block %d: %s", i, d)
			}
		}
		if diff != "" {
			findings = append(findings, finding{"final-chain-differs-from-source", "after convergence and a quiet period the node's chain is not the source's: " + diff, -1})
		}
		r.Count("converged_runs", 1)
		used := convEff - stableEff
		r.Count("effective_requests_after_stabilisation", int(used))
		countMax(r, "max_percent_of_convergence_bound_used", int(100*used/bound))
	case "bound-exceeded":
		r.Eval(1)
		if nodeHead.num == int64(len(canon))-1 && nodeHead.hash == *canon[len(canon)-1].Block.Hash {
			// The node did reach the source's tip, only after more effective requests than the bound
			// allows. "Not available" answers for head+1 are throttled by a 1 ms timer, so on a
			// heavily loaded machine their number grows with the wall-clock time the store pipeline
			// needs (seen once in the thorough tier, 2241 requests against a bound of 2200, not
			// reproducible). Convergence happened: no verdict on its speed.
			r.Inconclusive("converged-only-after-the-request-bound")
			r.Count("runs_converged_beyond_the_request_bound(no verdict)", 1)
			break
		}
		shape := "other"
		switch {
		case len(canon) == 1 && len(initial)+hstats["stores"] > 0 && nodeHead.num >= 1:
			shape = "source-chain-is-a-single-replaced-block-0"
		case nodeHead.num+1 > int64(len(canon)):
			shape = "node-longer-than-source"
		case nodeHead.num+1 < int64(len(canon)):
			shape = "node-shorter-than-source"
		default:
			shape = "same-height-different-head"
		}
		findings = append(findings, finding{"no-convergence:" + shape,
			fmt.Sprintf("source stable (len %d) but after %d effective requests (bound %d) the node head is #%d %s, source tip %s",
				len(canon), eff-stableEff, bound, nodeHead.num, short(&nodeHead.hash), short(canon[len(canon)-1].Block.Hash)), -1})
	case "quiescent":
		r.Eval(1)
		shape := "same-height-different-head"
		switch {
		case nodeHead.num+1 > int64(len(canon)):
			shape = "node-longer-than-source"
		case nodeHead.num+1 < int64(len(canon)):
			shape = "node-shorter-than-source"
		}
		findings = append(findings, finding{"no-convergence:quiescent:" + shape,
			fmt.Sprintf("source stable and healthy (len %d, tip %s) but the node stopped at head #%d %s: in %d consecutive spin rounds every goroutine of the synchroniser was blocked, "+
				"all its open requests were 'not available' for heights above head+1, and answering them changed nothing (%d effective requests since stabilisation, bound %d)",
				len(canon), short(canon[len(canon)-1].Block.Hash), nodeHead.num, short(&nodeHead.hash), quiescentRounds, eff-stableEff, bound), -1})
	case "stalled":
		r.Inconclusive("watchdog:quiescent-after-stabilisation")
		r.Note(fmt.Sprintf("case %d quiescent after stabilisation: node head #%d, source tip #%d", idx, nodeHead.num, len(canon)-1))
	default:
		r.Inconclusive("watchdog:no-convergence-verdict")
	}

	seen := map[string]bool{}
	for _, f := range findings {
		if seen[f.Class] {
			continue
		}
		seen[f.Class] = true
		r.Violation(f.Class, idx, f.Brief, mkWitness(f))
	}

	// ------------------------------------------------------------ evidence
	r.Count("runs", 1)
	r.Count("history_events", len(hist))
	r.Count("source_requests", int(reqs))
	r.Count("source_effective_requests", int(eff))
	for _, k := range []string{"stores", "reverts", "revert_runs", "newhead_notifications", "reorg_notifications"} {
		r.Count(k, hstats[k])
	}
	countMax(r, "longest_revert_run", hstats["longest_revert_run"])
	r.Count("blocks_acknowledged_persisted", persisted)
	for k, v := range stats {
		r.Count("source."+k, v)
	}
	for k, v := range ops {
		r.Count("sync_step."+k, v)
	}
	if maxInflight > 1 {
		r.Count("runs_with_parallel_fetchers(catch-up mode)", 1)
	} else {
		r.Count("runs_tip_mode_only", 1)
	}
	if cfg.NodeNewState {
		r.Count("runs_new_state_backend", 1)
	} else {
		r.Count("runs_legacy_state_backend", 1)
	}
	kinds := map[string]int{}
	for _, a := range ctl.log {
		kinds[a.Kind]++
		r.Count("source_change."+a.Kind, 1)
		if a.Kind == "reorg" || a.Kind == "attack" || a.Kind == "reorg-inside-store-callback" || a.Kind == "return-to-orphaned-chain" {
			switch d := int64(a.Fork) - (a.LocalAt + 1); {
			case d > 0:
				r.Count("reorg.fork_point_above_local_head", 1)
			case d == 0:
				r.Count("reorg.fork_point_is_next_block", 1)
			case a.Fork == 0:
				r.Count("reorg.whole_chain_including_block_0", 1)
			case a.Fork <= 1 && a.LocalAt >= 1:
				r.Count("reorg.whole_local_chain_above_block_0", 1)
			default:
				r.Count("reorg.below_local_head", 1)
			}
			switch {
			case a.NewLen < a.OldLen:
				r.Count("reorg.replacement_shorter", 1)
			case a.NewLen == a.OldLen:
				r.Count("reorg.replacement_same_length", 1)
			default:
				r.Count("reorg.replacement_longer", 1)
			}
		}
	}
	if hstats["reverts"] > 0 && outcome == "converged" {
		var ks []string
		for k, v := range kinds {
			ks = append(ks, fmt.Sprintf("%s%d", k, v))
		}
		sort.Strings(ks)
		r.Case(fmt.Sprintf("new=%v len0=%d pre=%d/%d %v stores=%d reverts=%d runs=%d par=%v tip=%s",
			cfg.NodeNewState, cfg.InitialLen, cfg.Preload, cfg.PreloadFork, ks, hstats["stores"], hstats["reverts"], hstats["revert_runs"],
			maxInflight > 1, short(canon[len(canon)-1].Block.Hash)))
	}
	if os.Getenv("VERIF_DEBUG") != "" {
		fmt.Printf("case %d outcome=%s cfg=%+v\n applied=%+v\n", idx, outcome, cfg, ctl.log)
		for _, rp := range resps {
			fmt.Printf("   resp t=%d #%d %s corrupt=%v acked=%v err=%v\n", rp.clock, rp.num, short(&rp.hash), rp.corrupt, rp.acked, rp.err)
		}
		for _, l := range window(hist, 0, 0, 100000) {
			fmt.Println(l)
		}
	}
	if idx < 3 {
		tail := window(hist, len(hist)-1, 11, 0)
		r.Sample(map[string]any{"case": idx, "config": cfg, "source_changes": ctl.log, "outcome": outcome,
			"requests": reqs, "effective_requests": eff, "effective_requests_after_stabilisation": convEff - stableEff, "bound": bound,
			"stores": hstats["stores"], "reverts": hstats["reverts"], "history_len": len(hist), "history_tail": tail})
	}
}

// labelsVisible checks that a labelled, blocked goroutine is found as such.
func labelsVisible() (bool, string) {
	base := context.Background()
	pprof.SetGoroutineLabels(pprof.WithLabels(base, pprof.Labels(labelKey, "selftest")))
	defer pprof.SetGoroutineLabels(base)
	stop := make(chan struct{})
	go func() { <-stop }()
	defer close(stop)
	for i := 0; i < 200; i++ {
		q, why := quiescent("selftest")
		if q && strings.HasPrefix(why, "1 ") {
			return true, why
		}
		if i == 199 {
			return false, why
		}
		time.Sleep(time.Millisecond)
	}
	return false, ""
}

func TestC06(t *testing.T) {
	// goroutine labels in runtime.Stack headers (used by the quiescence proof)
	if gd := os.Getenv("GODEBUG"); !strings.Contains(gd, "tracebacklabels") {
		os.Setenv("GODEBUG", strings.TrimPrefix(gd+",tracebacklabels=1", ","))
	}
	if ok, why := labelsVisible(); !ok {
		t.Fatalf("goroutine labels are not visible in runtime.Stack (%s): the quiescence proof cannot work", why)
	}
	r := lib.Start("C06", "exploration")
	n := r.N(64, 1000)
	r.Cases(n, 0, func(idx int) { runCase(t, r, idx) })
	r.Assume("the block source is prefix-consistent: every answer (block or latest header, also a deliberately stale one) lies on the source's canonical path at the logical time of the answer, and an orphaned block never becomes canonical again")
	r.Assume("tampered answers keep Hash/ParentHash/Number of the genuine block (revertTask and isReverting compare these unverified header fields; a source lying about them is outside the property's model)")
	r.Assume("pre-confirmed polling disabled (interval 0); memory database; chains avoid inputs of open findings of other properties (lib.Avoid)")
	r.Finish("case = one run of the real sync.Synchronizer.Run on a real Blockchain (legacy or new state) against a scripted DataSource "+
		"(fork tree + canonical path + logical clock under one mutex; per-request error / delay / single-field-tampered block / stale-but-canonical latest header; "+
		"one-shot failure of the next request for exactly the node's head height / of the next latest-header request, armed with a reorg or at random; "+
		"a controller that extends or reorganises the source after random numbers of requests, incl. directed templates (out-of-order answers around a reorg, whole chain replaced by one block, "+
		"one-shot failure of revertTask's request right after a reorg at the tip with one or with parallel fetchers); then stabilises). "+
		"Recorded: every committed chain-height change (db wrapper, with header + source logical time), OpStore/OnReorg listener callbacks, both feeds drained at every "+
		"commit and callback. Oracle: (a) stored blocks were served untampered and read back equal, (b) head moves +1 onto parent or -1, (c) a reverted block is not "+
		"canonical at the source at that logical time, (d) one new-head notification per store in order, never before the commit, (e) reorg notification = run of reverts "+
		"since the previous store, (f) after stabilisation head == source tip within 40*(len+50) effective source requests, no proven-quiescent stop short of it "+
		"(40 consecutive spin rounds in which a goroutine dump shows every goroutine of the synchroniser blocked and answering its parked requests changes nothing), and the final chain equals the source's; "+
		"evaluations = history events checked; distinct = converged runs with at least one revert, keyed by configuration and outcome shape", 4)
}

package vsync

import (
	"context"
	"errors"
	"fmt"
	"math/rand/v2"
	"sync"
	"sync/atomic"
	"time"

	"github.com/NethermindEth/juno/core"
	"github.com/NethermindEth/juno/core/felt"
	"github.com/NethermindEth/juno/starknet"
	jsync "github.com/NethermindEth/juno/sync"
	"github.com/NethermindEth/juno/verifh/lib/chain"
)

var (
	errNotYet   = errors.New("verif source: block not yet available")
	errInjected = errors.New("verif source: injected request failure")
)

// headInfo is the node's head as last committed (num = -1: empty chain).
type headInfo struct {
	num  int64
	hash felt.Felt
}

type probs struct {
	OneShot float64 `json:"one_shot"`
	Err     float64 `json:"err"`
	Slow    float64 `json:"slow"`
	Corrupt float64 `json:"corrupt"`
	Stale   float64 `json:"stale"`
}

// resp is one block answer handed to the synchroniser.
type resp struct {
	num       uint64
	hash      felt.Felt
	parent    felt.Felt
	clock     uint64
	acked     bool  // a value arrived on Persisted
	err       error // that value
	corrupt   bool
	tamper    string
	persisted chan error
}

// holdState: the directed "answer out of order" schedule. Requests for `height` are
// not answered until `release` is closed; `succ` is closed as soon as a valid block of
// height+1 has been handed out while a request for `height` is being withheld.
type holdState struct {
	height  uint64
	release chan struct{} // closed when the hold ends
	hHeld   chan struct{} // closed (and replaced) whenever a request for height starts being withheld
	succ    chan struct{} // closed when a valid height+1 was handed out while height is withheld
	succOK  bool
	waiting int
}

// source is the scripted sync.DataSource. One mutex guards the canonical path, the
// set of blocks ever served and the logical clock, so that every answer and every
// reorganisation has a position in one total order. The content of every answer is
// chosen at the moment the answer is returned (after any injected delay), so the
// source is prefix-consistent: it never hands out a block or header that is not on
// its canonical path at the logical time of the answer. Orphaned blocks never become
// canonical again (forks are always freshly generated).
type source struct {
	mu  sync.Mutex
	rng *rand.Rand
	p   probs

	canon   []*chain.Blk
	canonIx map[felt.Felt]struct{}
	ever    map[felt.Felt]*chain.Blk // every block ever on a canonical path or preloaded
	declaredBy map[felt.Felt]felt.Felt // class hash -> block that declared it in the last valid answer
	served  map[felt.Felt]struct{}   // blocks handed out untampered

	clock uint64 // requests + source changes
	reqs  uint64 // all requests
	eff   uint64 // requests that carry information (see effTick)

	stable    bool
	stableEff uint64
	bound     uint64
	exceeded  bool
	converged bool
	convEff   uint64
	quietN    uint64
	quiet     bool
	convCh    chan struct{}
	excCh     chan struct{}
	quietCh   chan struct{}

	head *atomic.Pointer[headInfo]

	wake    chan struct{}
	trigger uint64

	hold      *holdState
	attackArm *armState

	// directed interleaving "source reorganised while a store callback is running": armed
	// by the controller, taken by the next OpStore listener callback (c06_test.go)
	cbHook atomic.Pointer[cbHook]
	// logical time at which a block last left the canonical path / was last stored by the node
	orphanedAt map[felt.Felt]uint64
	storedAt   map[felt.Felt]uint64
	// same, taken by the next OpFetch listener callback (a fetcher has just received a block)
	fetchHook atomic.Pointer[cbHook]

	// one-shot faults: the next BlockByNumber request for exactly the node's current
	// head height (the request revertTask makes) / the next BlockHeaderLatest request
	// fails once. Armed by the controller atomically with a reorg, or at random.
	oneShotHead bool
	oneShotHdr  bool

	// after stabilisation, "not available" answers that carry no information (height
	// above head+1) are not throttled by a timer but parked until the node's head
	// moves, the request is cancelled, or the quiescence protocol releases them.
	parkCh chan struct{}
	parked int

	progress atomic.Uint64 // effective requests + head commits
	rawReqs  atomic.Uint64 // all requests

	// wall-clock time of the last effective request or head commit; read only by the
	// stall watchdog (whose firing is an inconclusive outcome, never a verdict)
	lastProgress atomic.Int64
	stableFlag   atomic.Bool

	resps            []*resp
	cleanFirstHeader bool
	headerReqs       int
	inflight         int
	maxInflight      int
	stats            map[string]int
}

func newSource(rng *rand.Rand, p probs, blocks []*chain.Blk, head *atomic.Pointer[headInfo]) *source {
	s := &source{
		rng: rng, p: p, head: head,
		canonIx: map[felt.Felt]struct{}{}, ever: map[felt.Felt]*chain.Blk{}, served: map[felt.Felt]struct{}{},
		convCh: make(chan struct{}), excCh: make(chan struct{}), quietCh: make(chan struct{}),
		wake: make(chan struct{}, 1), stats: map[string]int{}, quietN: 12,
		parkCh: make(chan struct{}),
	}
	s.setCanonLocked(blocks)
	return s
}

func (s *source) setCanonLocked(blocks []*chain.Blk) {
	old := s.canonIx
	s.canon = blocks
	s.canonIx = make(map[felt.Felt]struct{}, len(blocks))
	defer func() {
		// blocks that leave the canonical path now (they may come back: there-and-back)
		if s.orphanedAt == nil {
			s.orphanedAt = map[felt.Felt]uint64{}
		}
		for h := range old {
			if _, still := s.canonIx[h]; !still {
				s.orphanedAt[h] = s.clock
			}
		}
	}()
	for _, b := range blocks {
		s.canonIx[*b.Block.Hash] = struct{}{}
		s.ever[*b.Block.Hash] = b
	}
}

// tick: every request advances the logical clock and may wake the controller.
func (s *source) tick() {
	s.rawReqs.Add(1)
	s.reqs++
	s.clock++
	if s.trigger != 0 && s.reqs >= s.trigger {
		select {
		case s.wake <- struct{}{}:
		default:
		}
	}
}

// effTick counts an *effective* request: an answer that carries information the
// synchroniser acts on (a block, a header, an injected failure, or "not available"
// for exactly the block after its head, which makes it run its reorg check).
// "Not available" answers for heights further ahead are pure busy-waiting of
// fetchers that run ahead of the store pipeline; how many of them happen depends on
// how long verification and storage take in wall-clock time, so they are excluded
// from the convergence bound.
func (s *source) effTick() {
	s.eff++
	s.progress.Add(1)
	s.lastProgress.Store(time.Now().UnixNano())
	if s.stable && !s.converged && !s.exceeded && s.eff-s.stableEff > s.bound {
		s.exceeded = true
		close(s.excCh)
	}
	if s.converged && !s.quiet && s.eff >= s.convEff+s.quietN {
		s.quiet = true
		close(s.quietCh)
	}
}

func sleepCtx(ctx context.Context, d time.Duration) {
	if d <= 0 {
		return
	}
	t := time.NewTimer(d)
	defer t.Stop()
	select {
	case <-t.C:
	case <-ctx.Done():
	}
}

// boundFactor: convergence bound = boundFactor * (chain length + 50) effective requests.
const boundFactor = 40

const (
	behOK = iota
	behErr
	behSlow
	behCorrupt
	behStale
)

func (s *source) drawBlockBehaviour() (int, time.Duration) {
	if s.stable {
		return behOK, 0
	}
	if y := s.rng.Float64(); y < s.p.OneShot {
		s.oneShotHead = true
		s.stats["one_shot_armed_at_random"]++
	} else if y < s.p.OneShot*1.3 {
		s.oneShotHdr = true
		s.stats["one_shot_armed_at_random"]++
	}
	x := s.rng.Float64()
	d := time.Duration(s.rng.IntN(3000)) * time.Microsecond
	switch {
	case x < s.p.Err:
		return behErr, 0
	case x < s.p.Err+s.p.Corrupt:
		return behCorrupt, 0
	case x < s.p.Err+s.p.Corrupt+s.p.Slow:
		return behSlow, d
	}
	return behOK, 0
}

func (s *source) BlockByNumber(ctx context.Context, n uint64) (jsync.CommittedBlock, error) {
	s.mu.Lock()
	s.tick()
	s.inflight++
	if s.inflight > s.maxInflight {
		s.maxInflight = s.inflight
	}
	beh, delay := s.drawBlockBehaviour()
	tamperSeed := s.rng.Uint64()

	// directed out-of-order schedule: the answer for hold.height is withheld; requests
	// for its successor are parked until a request for hold.height is being withheld
	if a := s.attackArm; a != nil && s.hold == nil && s.reqs >= a.at &&
		int(n)+1 < len(s.canon) && int(n) >= a.minFork && int64(n) > s.head.Load().num {
		hs := &holdState{height: n, release: make(chan struct{}), hHeld: make(chan struct{}), succ: make(chan struct{})}
		s.hold, s.attackArm = hs, nil
		a.ready <- hs
	}
	for s.hold != nil {
		hs := s.hold
		var waitOn chan struct{}
		held := false
		switch {
		case n == hs.height:
			hs.waiting++
			if hs.waiting == 1 {
				close(hs.hHeld) // wake parked successor requests
				hs.hHeld = make(chan struct{})
			}
			held = true
			s.stats["held_requests"]++
			waitOn = hs.release
		case n == hs.height+1 && hs.waiting == 0:
			waitOn = hs.hHeld
		}
		if waitOn == nil {
			break
		}
		s.mu.Unlock()
		select {
		case <-waitOn:
		case <-hs.release:
		case <-ctx.Done():
		}
		s.mu.Lock()
		if held {
			hs.waiting--
		}
		if ctx.Err() != nil {
			s.inflight--
			s.mu.Unlock()
			return jsync.CommittedBlock{}, ctx.Err()
		}
	}
	if beh == behSlow {
		s.stats["slow_answers"]++
		s.mu.Unlock()
		sleepCtx(ctx, delay)
		s.mu.Lock()
	}

	// ---- linearisation point of the answer: content is chosen now
	s.inflight--
	if s.oneShotHead && int64(n) == s.head.Load().num {
		s.oneShotHead = false
		s.stats["one_shot_errors_on_request_for_head_height"]++
		s.effTick()
		s.mu.Unlock()
		return jsync.CommittedBlock{}, errInjected
	}
	if n >= uint64(len(s.canon)) {
		s.stats["not_available_answers"]++
		if h := s.head.Load(); int64(n) == h.num+1 {
			s.effTick()
		} else if s.stable {
			// no information in this answer until the head moves: park it
			ch := s.parkCh
			s.parked++
			s.stats["parked_answers"]++
			s.mu.Unlock()
			select {
			case <-ch:
			case <-ctx.Done():
			}
			s.mu.Lock()
			s.parked--
			s.mu.Unlock()
			return jsync.CommittedBlock{}, errNotYet
		}
		stable := s.stable
		s.mu.Unlock()
		if !stable {
			// the fetcher spins on errors. No timer once the source is stable: then a
			// goroutine of the node that is blocked is blocked on another goroutine,
			// which is what the quiescence proof relies on.
			sleepCtx(ctx, time.Millisecond)
		}
		return jsync.CommittedBlock{}, errNotYet
	}
	s.effTick()
	if beh == behErr {
		s.stats["injected_errors"]++
		s.mu.Unlock()
		return jsync.CommittedBlock{}, errInjected
	}
	orig := s.canon[n]
	r := &resp{num: n, hash: *orig.Block.Hash, parent: *orig.Block.ParentHash, clock: s.clock, corrupt: beh == behCorrupt, persisted: make(chan error, 1)}
	s.resps = append(s.resps, r)
	if r.corrupt {
		s.stats["corrupted_blocks_served"]++
	} else {
		s.served[r.hash] = struct{}{}
		s.stats["valid_blocks_served"]++
		for h := range orig.Classes {
			if s.declaredBy == nil {
				s.declaredBy = map[felt.Felt]felt.Felt{}
			}
			if prev, ok := s.declaredBy[h]; ok && !prev.Equal(&r.hash) {
				s.stats["valid_blocks_served_that_declare_a_class_also_declared_on_another_fork"]++
			}
			s.declaredBy[h] = r.hash
		}
		if s.hold != nil && n == s.hold.height+1 && s.hold.waiting > 0 && !s.hold.succOK {
			s.hold.succOK = true
			close(s.hold.succ)
		}
	}
	s.mu.Unlock()

	blk := chain.CloneBlk(orig)
	if r.corrupt {
		r.tamper = tamperBlk(rand.New(rand.NewPCG(tamperSeed, 0xc06)), blk)
	}
	return jsync.CommittedBlock{Block: blk.Block, StateUpdate: blk.SU, NewClasses: blk.Classes, Persisted: r.persisted}, nil
}

func (s *source) BlockHeaderLatest(ctx context.Context) (*core.Header, error) {
	s.mu.Lock()
	s.tick()
	s.headerReqs++
	beh, delay := behOK, time.Duration(0)
	if !s.stable && !(s.cleanFirstHeader && s.headerReqs == 1) {
		x := s.rng.Float64()
		switch {
		case x < s.p.Err:
			beh = behErr
		case x < s.p.Err+s.p.Stale:
			beh = behStale
		case x < s.p.Err+s.p.Stale+s.p.Slow:
			beh, delay = behSlow, time.Duration(s.rng.IntN(3000))*time.Microsecond
		}
	}
	pick := s.rng.Float64()
	if beh == behSlow {
		s.stats["slow_answers"]++
		s.mu.Unlock()
		sleepCtx(ctx, delay)
		s.mu.Lock()
	}
	s.effTick()
	if s.oneShotHdr && s.headerReqs > 1 {
		s.oneShotHdr = false
		s.stats["one_shot_errors_on_latest_header"]++
		s.mu.Unlock()
		return nil, errInjected
	}
	if beh == behErr {
		s.stats["injected_errors"]++
		s.mu.Unlock()
		return nil, errInjected
	}
	ix := len(s.canon) - 1
	if beh == behStale && ix > 0 {
		// an older tip of the *current* canonical chain: biased towards recent ones
		back := 1 + int(pick*pick*float64(ix))
		if back > ix {
			back = ix
		}
		ix -= back
		s.stats["stale_canonical_headers_served"]++
	} else {
		s.stats["latest_headers_served"]++
	}
	hdr := s.canon[ix].Block.Header
	s.mu.Unlock()
	return chain.DeepCopy(hdr), nil
}

func (s *source) PreConfirmedBlockByNumber(context.Context, uint64, string, uint64) (starknet.PreConfirmedUpdate, error) {
	return nil, errors.New("verif source: no pre-confirmed data")
}

func (s *source) PreConfirmedBlockLatest(context.Context, string, uint64) (starknet.PreConfirmedUpdate, uint64, error) {
	return nil, 0, errors.New("verif source: no pre-confirmed data")
}

func (s *source) Class(context.Context, *felt.Felt) (core.ClassDefinition, error) {
	return nil, errors.New("verif source: classes travel with the block")
}

// feederView presents the scripted source as starknetdata.StarknetData, so that the
// production DataSource (sync.NewFeederGatewayDataSource: block + state update in one
// request, then one request per class the node's head state does not hold yet) sits
// between the source and the synchroniser instead of the source's own DataSource methods.
type feederView struct{ s *source }

func (f feederView) StateUpdateWithBlock(ctx context.Context, n uint64) (*core.StateUpdate, *core.Block, error) {
	cb, err := f.s.BlockByNumber(ctx, n)
	if err != nil {
		return nil, nil, err
	}
	return cb.StateUpdate, cb.Block, nil
}

func (f feederView) StateUpdate(ctx context.Context, n uint64) (*core.StateUpdate, error) {
	su, _, err := f.StateUpdateWithBlock(ctx, n)
	return su, err
}

func (f feederView) BlockByNumber(ctx context.Context, n uint64) (*core.Block, error) {
	_, b, err := f.StateUpdateWithBlock(ctx, n)
	return b, err
}

func (f feederView) BlockHeaderLatest(ctx context.Context) (core.Header, error) {
	h, err := f.s.BlockHeaderLatest(ctx)
	if err != nil {
		return core.Header{}, err
	}
	return *h, nil
}

func (f feederView) BlockLatest(ctx context.Context) (*core.Block, error) {
	return nil, errors.New("verif source: BlockLatest is not used by the synchroniser")
}

func (f feederView) Transaction(context.Context, *felt.Felt) (core.Transaction, error) {
	return nil, errors.New("verif source: no transaction endpoint")
}

// Class serves the definition of any class that any block ever published by the source
// declares (the feeder gateway serves classes by hash, independently of forks).
func (f feederView) Class(_ context.Context, h *felt.Felt) (core.ClassDefinition, error) {
	f.s.mu.Lock()
	defer f.s.mu.Unlock()
	f.s.stats["class_requests"]++
	for _, b := range f.s.ever {
		if c, ok := b.Classes[*h]; ok {
			return c, nil
		}
	}
	f.s.stats["class_requests_unknown_hash"]++
	return nil, errors.New("verif source: class not found")
}

func (f feederView) PreConfirmedBlockByNumber(context.Context, uint64, string, uint64) (starknet.PreConfirmedUpdate, error) {
	return nil, errors.New("verif source: no pre-confirmed data")
}

func (f feederView) PreConfirmedBlockLatest(context.Context, string, uint64) (starknet.PreConfirmedUpdate, uint64, error) {
	return nil, 0, errors.New("verif source: no pre-confirmed data")
}

// headFacts is what the head-trace hook learns from the source, atomically with
// respect to every answer and every reorganisation.
type headFacts struct {
	clock     uint64
	canonical bool // the hash is on the canonical path right now
	served    bool // the hash was handed out untampered before
}

// onHead is called from the database commit hook (store=true: hash is the block just
// stored; store=false: hash is the block just removed; cur = head after the commit).
// onHead: stored = the head movement is the store of block `hash`, otherwise its removal.
// canonical (judged for removals): the block is on the source's canonical path now AND has
// been on it ever since the node stored it. A block that was orphaned in between - the source
// switched to a fork and came back - may be reverted by a node that is still acting on what it
// was told while the fork was canonical.
func (s *source) onHead(hash *felt.Felt, cur *headInfo, stored bool) headFacts {
	s.mu.Lock()
	defer s.mu.Unlock()
	_, can := s.canonIx[*hash]
	_, srv := s.served[*hash]
	if s.storedAt == nil {
		s.storedAt = map[felt.Felt]uint64{}
	}
	if stored {
		s.storedAt[*hash] = s.clock
	} else if at, ok := s.orphanedAt[*hash]; ok && at >= s.storedAt[*hash] {
		if can {
			s.stats["reverts_of_blocks_orphaned_and_canonical_again(not judged)"]++
		}
		can = false
	}
	s.checkConvergedLocked(cur)
	s.progress.Add(1)
	s.lastProgress.Store(time.Now().UnixNano())
	s.releaseParkedLocked()
	return headFacts{clock: s.clock, canonical: can, served: srv}
}

func (s *source) checkConvergedLocked(cur *headInfo) {
	if !s.stable || s.converged || s.exceeded {
		return
	}
	if cur.num == int64(len(s.canon))-1 && cur.hash == *s.canon[len(s.canon)-1].Block.Hash {
		s.converged = true
		s.convEff = s.eff
		close(s.convCh)
	}
}

// stabilise: from now on no faults, no changes of the canonical chain.
func (s *source) stabilise() {
	s.mu.Lock()
	defer s.mu.Unlock()
	if s.stable {
		return
	}
	s.releaseHoldLocked()
	s.oneShotHead, s.oneShotHdr = false, false
	s.stable = true
	s.stableFlag.Store(true)
	s.lastProgress.Store(time.Now().UnixNano())
	s.clock++
	s.stableEff = s.eff
	l := int64(len(s.canon))
	if h := s.head.Load(); h.num+1 > l {
		l = h.num + 1
	}
	s.bound = uint64(boundFactor * (l + 50))
	s.checkConvergedLocked(s.head.Load())
}

func (s *source) releaseParkedLocked() {
	if s.parked > 0 {
		close(s.parkCh)
		s.parkCh = make(chan struct{})
	}
}

// releaseParked answers every parked request ("not available"); returns how many.
func (s *source) releaseParked() int {
	s.mu.Lock()
	defer s.mu.Unlock()
	n := s.parked
	s.releaseParkedLocked()
	return n
}

// waitUntil blocks until cond (evaluated under the source mutex after every request)
// holds or maxReqs further requests have arrived.
func (s *source) waitUntil(ctx context.Context, maxReqs int, cond func() bool) bool {
	s.mu.Lock()
	limit := s.reqs + uint64(maxReqs)
	s.mu.Unlock()
	for {
		s.mu.Lock()
		ok, over := cond(), s.reqs >= limit
		s.trigger = s.reqs + 1
		s.mu.Unlock()
		if ok || over {
			return ok
		}
		select {
		case <-s.wake:
		case <-ctx.Done():
			return false
		}
	}
}

func (s *source) releaseHoldLocked() {
	if s.hold != nil {
		close(s.hold.release)
		s.hold = nil
	}
}

// waitReqs blocks until k more requests have arrived.
func (s *source) waitReqs(ctx context.Context, k int) bool {
	s.mu.Lock()
	s.trigger = s.reqs + uint64(k)
	s.mu.Unlock()
	for {
		select {
		case <-s.wake:
			s.mu.Lock()
			ok := s.reqs >= s.trigger
			s.mu.Unlock()
			if ok {
				return true
			}
		case <-ctx.Done():
			return false
		}
	}
}

// ---------------------------------------------------------------- controller

type action struct {
	After int    `json:"after"` // requests to wait before acting
	Kind  string `json:"kind"`  // extend | reorg | attack
	// reorg: fork point = local head + 1 - Depth if Rel, else Depth counted down from the source tip
	Rel   bool `json:"rel,omitempty"`
	Depth int  `json:"depth,omitempty"`
	// length of the replacement relative to the replaced suffix: -1 shorter, 0 same, +1 longer
	LenMode int `json:"len_mode,omitempty"`
	K       int `json:"k,omitempty"`
	// reorg: arm a one-shot fault atomically with the reorganisation: "head" = the next
	// block request for exactly the node's head height fails once; "header" = the next
	// latest-header request fails once
	OneShot string `json:"one_shot,omitempty"`
}

type applied struct {
	Kind    string `json:"kind"`
	Clock   uint64 `json:"clock"`
	Fork    int    `json:"fork,omitempty"`
	OldLen  int    `json:"old_len"`
	NewLen  int    `json:"new_len"`
	LocalAt int64  `json:"local_head_at_decision"`
	Note    string `json:"note,omitempty"`
	OneShot string `json:"one_shot,omitempty"`
}

// cbHook: the next OpStore listener callback reports the stored height on entered and
// stays inside the callback (i.e. inside storeTask, on the serial store pipeline) until
// release is closed.
type cbHook struct {
	entered chan int64
	release chan struct{}
}

// armState: a directed hold waiting to be set by the request handler.
type armState struct {
	at      uint64 // request count from which on the hold may be set
	minFork int
	ready   chan *holdState
}

type controller struct {
	waitOneShot bool
	grace       time.Duration
	prearmed    *armState
	src         *source
	g           *chain.Gen
	cur         *chain.Chain
	tip         *chain.Builder
	builderNew  bool
	minFork     int
	script      []action
	log         []applied
	err         error
}

// arm prepares a directed hold: it will be set by the request handler `after`
// requests from now.
func (c *controller) arm(after int) *armState {
	s := c.src
	arm := &armState{ready: make(chan *holdState, 1), minFork: c.minFork}
	s.mu.Lock()
	arm.at = s.reqs + uint64(after)
	s.attackArm = arm
	s.mu.Unlock()
	return arm
}

// prearm is called before the synchroniser starts: if the script opens with the
// directed schedule its position is then a pure function of the request sequence.
func (c *controller) prearm() {
	if len(c.script) > 0 && c.script[0].Kind == "attack" {
		c.prearmed = c.arm(c.script[0].After)
	}
}

func (c *controller) publish(next *chain.Chain, tip *chain.Builder, a applied) {
	blocks := append([]*chain.Blk{}, next.Blocks...)
	s := c.src
	s.mu.Lock()
	a.OldLen = len(s.canon)
	a.NewLen = len(blocks)
	s.clock++
	a.Clock = s.clock
	s.setCanonLocked(blocks)
	s.releaseHoldLocked()
	switch a.OneShot {
	case "head":
		s.oneShotHead = true
	case "header":
		s.oneShotHdr = true
	}
	s.mu.Unlock()
	c.cur, c.tip = next, tip
	c.log = append(c.log, a)
}

func (c *controller) fork(f, k int, a applied) error {
	fork := c.cur.Prefix(f)
	fb, err := chain.BuilderAt(fork, f, c.builderNew)
	if err != nil {
		return err
	}
	// the first new block must differ from the one it replaces
	for try := 0; ; try++ {
		trial := fork.Prefix(f)
		if err := c.g.Extend(trial, fb, 1); err != nil {
			return err
		}
		if f < c.cur.Len() && *trial.Blocks[f].Block.Hash == *c.cur.Blocks[f].Block.Hash {
			if try > 5 {
				return fmt.Errorf("cannot generate a distinct block at %d", f)
			}
			if fb, err = chain.BuilderAt(fork, f, c.builderNew); err != nil {
				return err
			}
			continue
		}
		fork = trial
		break
	}
	if k > 1 {
		if err := c.g.Extend(fork, fb, k-1); err != nil {
			return err
		}
	}
	a.Fork = f
	c.publish(fork, fb, a)
	return nil
}

func (c *controller) run(ctx context.Context) {
	defer c.src.stabilise()
	defer func() {
		// optionally let an armed one-shot fault fire before the source becomes stable
		// (stabilise disarms whatever is still armed: no faults once stable)
		if c.waitOneShot && ctx.Err() == nil {
			s := c.src
			s.waitUntil(ctx, 3000, func() bool { return !s.oneShotHead && !s.oneShotHdr })
		}
	}()
	for _, act := range c.script {
		if act.Kind == "sync" {
			// wait until the node's head is the source's tip (or give up after many requests)
			s := c.src
			ok := s.waitUntil(ctx, 4000+act.After, func() bool {
				h := s.head.Load()
				return h.num == int64(len(s.canon))-1 && h.hash == *s.canon[len(s.canon)-1].Block.Hash
			})
			if ctx.Err() != nil {
				return
			}
			c.log = append(c.log, applied{Kind: "sync", LocalAt: s.head.Load().num, OldLen: c.cur.Len(), NewLen: c.cur.Len(), Note: fmt.Sprintf("node at source tip: %v", ok)})
			continue
		}
		if act.Kind != "attack" && act.Kind != "cbreorg" && !c.src.waitReqs(ctx, act.After) {
			return
		}
		local := c.src.head.Load().num
		n := c.cur.Len()
		switch act.Kind {
		case "extend":
			next := c.cur.Prefix(n)
			if err := c.g.Extend(next, c.tip, act.K); err != nil {
				c.err = err
				return
			}
			c.publish(next, c.tip, applied{Kind: "extend", LocalAt: local})
		case "reorg":
			f := n - 1 - act.Depth
			if act.Rel {
				f = int(local) + 1 - act.Depth
			}
			f = max(c.minFork, min(f, n-1))
			replaced := n - f
			var k int
			switch {
			case act.LenMode < 0 && replaced > 1:
				k = 1 + (act.K % (replaced - 1))
			case act.LenMode == 0:
				k = replaced
			default:
				k = replaced + 1 + act.K%5
			}
			if err := c.fork(f, k, applied{Kind: "reorg", LocalAt: local, OneShot: act.OneShot}); err != nil {
				c.err = err
				return
			}
		case "cbreorg":
			// Directed interleaving: the source replaces a suffix ending at (or below) the block the
			// node has JUST stored while the synchroniser is still inside that block's store callback
			// (the announcements of the block have not been made yet). The fetchers notice the reorg
			// at once; whatever they do about it must not overtake the announcements of the stored
			// block. Wall-clock grace periods only shape the workload (no verdict depends on them).
			s := c.src
			hk := &cbHook{entered: make(chan int64, 1), release: make(chan struct{})}
			s.cbHook.Store(hk)
			grace := time.NewTimer(4 * c.grace)
			var at int64
			select {
			case at = <-hk.entered:
				grace.Stop()
			case <-grace.C:
				if s.cbHook.CompareAndSwap(hk, nil) {
					c.log = append(c.log, applied{Kind: "cbreorg-abandoned", LocalAt: local, OldLen: n, NewLen: n, Note: "no block was stored after the hook was armed"})
					continue
				}
				at = <-hk.entered // the callback took the hook at the last moment
			case <-ctx.Done():
				grace.Stop()
				s.cbHook.CompareAndSwap(hk, nil)
				return
			}
			n = c.cur.Len()
			f := max(c.minFork, min(int(at)-act.Depth, n-1))
			replaced := n - f
			k := replaced
			switch {
			case act.LenMode < 0 && replaced > 1:
				k = 1 + (act.K % (replaced - 1))
			case act.LenMode > 0:
				k = replaced + 1 + act.K%3
			}
			err := c.fork(f, k, applied{Kind: "reorg-inside-store-callback", LocalAt: at, Note: fmt.Sprintf("node inside the store callback of #%d", at)})
			if err == nil {
				// let the fetchers see the new chain before the callback returns
				done := make(chan bool, 1)
				wctx, wcancel := context.WithTimeout(ctx, 2*c.grace)
				go func() { done <- s.waitReqs(wctx, 4+act.K%6) }()
				<-done
				wcancel()
			}
			close(hk.release)
			if err != nil {
				c.err = err
				return
			}
		case "there-and-back":
			// The source switches to a fork and, while a fetcher of the node holds a block it has
			// just been handed (inside its OpFetch callback, before the block reaches the store
			// pipeline), returns to the chain it had orphaned, extended by K blocks. The node then
			// holds a self-consistent block of a fork the source no longer has; the blocks it stored
			// are all canonical again. Prefix consistency holds at every answer.
			s := c.src
			back, backTip := c.cur, c.tip
			f := max(c.minFork, min(n-1-act.Depth, n-1))
			if act.Rel {
				f = max(c.minFork, min(int(local)+1-act.Depth, n-1))
			}
			if err := c.fork(f, n-f+1, applied{Kind: "reorg", LocalAt: local, Note: "first half of there-and-back"}); err != nil {
				c.err = err
				return
			}
			hk := &cbHook{entered: make(chan int64, 1), release: make(chan struct{})}
			s.fetchHook.Store(hk)
			grace := time.NewTimer(4 * c.grace)
			var at int64 = -1
			select {
			case at = <-hk.entered:
				grace.Stop()
			case <-grace.C:
				if !s.fetchHook.CompareAndSwap(hk, nil) {
					at = <-hk.entered
				}
			case <-ctx.Done():
				grace.Stop()
				s.fetchHook.CompareAndSwap(hk, nil)
				return
			}
			next := back.Prefix(back.Len())
			err := c.g.Extend(next, backTip, 1+act.K%2)
			if err == nil {
				note := "no fetch completed after the switch"
				if at >= 0 {
					note = fmt.Sprintf("a fetcher of the node holds block #%d handed out while the fork was canonical", at)
				}
				c.publish(next, backTip, applied{Kind: "return-to-orphaned-chain", LocalAt: c.src.head.Load().num, Fork: f, Note: note})
			}
			if at >= 0 {
				close(hk.release)
			}
			if err != nil {
				c.err = err
				return
			}
		case "attack":
			// Directed schedule "answer out of order, reorg in between". The hold is armed
			// in advance and set synchronously by the request handler at a logical time:
			// the first block request after `After` more requests that asks for a height h
			// above the node's head with h+1 still on the chain is withheld. Requests for h+1
			// pass (old chain). Then the source replaces everything from h on, and only then
			// answers h (new chain). Needs >= 2 concurrent fetchers; otherwise abandoned
			// after a wall-clock grace period (workload shaping only - no verdict depends on it).
			s := c.src
			arm := c.prearmed
			c.prearmed = nil
			if arm == nil {
				arm = c.arm(act.After)
			}
			abandon := func(note string) {
				s.mu.Lock()
				s.attackArm = nil
				s.releaseHoldLocked()
				s.mu.Unlock()
				c.log = append(c.log, applied{Kind: "attack-abandoned", LocalAt: local, OldLen: n, NewLen: n, Note: note})
			}
			grace := time.NewTimer(c.grace)
			var hs *holdState
			select {
			case hs = <-arm.ready:
			case <-grace.C:
				abandon("no block request with a successor on the chain arrived")
				continue
			case <-ctx.Done():
				grace.Stop()
				return
			}
			grace.Reset(c.grace)
			select {
			case <-hs.succ:
				grace.Stop()
				h := int(hs.height)
				if err := c.fork(h, 2+act.K%3, applied{Kind: "attack", LocalAt: c.src.head.Load().num, Note: fmt.Sprintf("withheld #%d until old #%d was handed out", h, h+1)}); err != nil {
					c.err = err
					return
				}
			case <-grace.C:
				abandon("no concurrent fetch of the successor (single fetcher)")
			case <-ctx.Done():
				grace.Stop()
				return
			}
		}
	}
}

// ---------------------------------------------------------------- corruption

func addOne(f *felt.Felt) *felt.Felt {
	return new(felt.Felt).Add(f, felt.NewFromUint64[felt.Felt](1))
}

// tamperBlk changes exactly one protocol-committed field of a valid block, never
// the identity fields (Hash, ParentHash, Number): the header still claims to be the
// right block, so only verification can tell. Returns the operator name.
func tamperBlk(rng *rand.Rand, b *chain.Blk) string {
	type op struct {
		name string
		fn   func()
	}
	var ops []op
	blk, su := b.Block, b.SU
	add := func(name string, fn func()) { ops = append(ops, op{name, fn}) }

	add("header.timestamp", func() { blk.Timestamp++ })
	add("header.sequencer", func() { blk.SequencerAddress = addOne(blk.SequencerAddress) })
	add("header.l1_gas_price", func() { blk.L1GasPriceETH = addOne(blk.L1GasPriceETH) })
	add("header.state_root", func() {
		blk.GlobalStateRoot = addOne(blk.GlobalStateRoot)
		su.NewRoot = blk.GlobalStateRoot
	})
	add("su.old_root", func() { su.OldRoot = addOne(su.OldRoot) })
	if len(blk.Receipts) > 0 {
		i := rng.IntN(len(blk.Receipts))
		add("receipt.fee", func() { blk.Receipts[i].Fee = addOne(blk.Receipts[i].Fee) })
		add("receipt.fee", func() { blk.Receipts[i].Fee = addOne(blk.Receipts[i].Fee) }) // weight 2
		var evs []*core.Event
		var msgs []*core.L2ToL1Message
		for _, rc := range blk.Receipts {
			evs = append(evs, rc.Events...)
			msgs = append(msgs, rc.L2ToL1Message...)
		}
		if len(evs) > 0 {
			e := evs[rng.IntN(len(evs))]
			if len(e.Data) > 0 {
				add("event.data", func() { e.Data[len(e.Data)-1] = *addOne(&e.Data[len(e.Data)-1]) })
				add("event.data", func() { e.Data[0] = *addOne(&e.Data[0]) })
			}
			if len(e.Keys) > 0 {
				add("event.key", func() { e.Keys[0] = *addOne(&e.Keys[0]) })
			}
			add("event.from", func() { e.From = addOne(e.From) })
		}
		if len(msgs) > 0 {
			m := msgs[rng.IntN(len(msgs))]
			if len(m.Payload) > 0 {
				add("l2_to_l1.payload", func() { m.Payload[0] = *addOne(&m.Payload[0]) })
			}
		}
		add("drop_last_tx", func() {
			blk.Transactions = blk.Transactions[:len(blk.Transactions)-1]
			blk.Receipts = blk.Receipts[:len(blk.Receipts)-1]
		})
		for _, tx := range blk.Transactions {
			if inv, ok := tx.(*core.InvokeTransaction); ok && len(inv.CallData) > 0 {
				add("tx.calldata", func() { inv.CallData[0] = *addOne(&inv.CallData[0]) })
				break
			}
		}
	}
	sd := su.StateDiff
	for a, slots := range sd.StorageDiffs {
		for k, v := range slots {
			a, k, v := a, k, v
			add("state_diff.storage_value", func() { sd.StorageDiffs[a][k] = addOne(v) })
			add("state_diff.storage_value", func() { sd.StorageDiffs[a][k] = addOne(v) })
			break
		}
		break
	}
	for a, v := range sd.Nonces {
		a, v := a, v
		add("state_diff.nonce", func() { sd.Nonces[a] = addOne(v) })
		break
	}
	for a, v := range sd.DeployedContracts {
		a, v := a, v
		add("state_diff.deployed_class", func() { sd.DeployedContracts[a] = addOne(v) })
		break
	}
	o := ops[rng.IntN(len(ops))]
	o.fn()
	return o.name
}

package vsync

import (
	"bytes"
	"encoding/binary"
	"sync"

	"github.com/NethermindEth/juno/db"
)

// headDB wraps the db.KeyValueStore handed to the Blockchain under observation.
// Every atomic commit (batch Write, Update/Write helper, direct Put/Delete) is
// applied to the inner store under one commit lock; if the committed write-set
// touches the chain-height key (core.WriteChainHeight / core.DeleteChainHeight,
// key db.ChainHeight.Key()) the hook is called, still under the commit lock, with
// the new height (-1: key deleted = genesis reverted). The sequence of hook calls
// is therefore a linearisation of the node's head movements.
type headDB struct {
	inner db.KeyValueStore
	mu    sync.Mutex
	// hook is called under the commit lock, after the write-set was applied.
	hook func(newHeight int64)
	// commits counts every committed write-set (evidence only).
	commits int64
}

var heightKey = db.ChainHeight.Key()

// heightOp remembers the last operation of a write-set on the chain-height key.
type heightOp struct {
	touched bool
	deleted bool
	height  uint64
}

func (o *heightOp) put(key, val []byte) {
	if bytes.Equal(key, heightKey) && len(val) == 8 {
		o.touched, o.deleted, o.height = true, false, binary.BigEndian.Uint64(val)
	}
}

func (o *heightOp) del(key []byte) {
	if bytes.Equal(key, heightKey) {
		o.touched, o.deleted, o.height = true, true, 0
	}
}

func (o *heightOp) delRange(start, end []byte) {
	if bytes.Compare(start, heightKey) <= 0 && bytes.Compare(heightKey, end) < 0 {
		o.touched, o.deleted, o.height = true, true, 0
	}
}

func (d *headDB) commit(op *heightOp, apply func() error) error {
	d.mu.Lock()
	defer d.mu.Unlock()
	if err := apply(); err != nil {
		return err
	}
	d.commits++
	if op.touched && d.hook != nil {
		if op.deleted {
			d.hook(-1)
		} else {
			d.hook(int64(op.height))
		}
	}
	return nil
}

// --- reads go straight to the inner store

func (d *headDB) Has(key []byte) (bool, error)                   { return d.inner.Has(key) }
func (d *headDB) Get(key []byte, cb func([]byte) error) error    { return d.inner.Get(key, cb) }
func (d *headDB) NewSnapshot() db.Snapshot                       { return d.inner.NewSnapshot() }
func (d *headDB) Impl() any                                      { return d.inner.Impl() }
func (d *headDB) Path() string                                   { return d.inner.Path() }
func (d *headDB) Close() error                                   { return d.inner.Close() }
func (d *headDB) WithListener(db.EventListener) db.KeyValueStore { return d }
func (d *headDB) NewIterator(prefix []byte, withUpperBound bool) (db.Iterator, error) {
	return d.inner.NewIterator(prefix, withUpperBound)
}

// --- direct writes: one write-set each

func (d *headDB) Put(key, value []byte) error {
	var op heightOp
	op.put(key, value)
	return d.commit(&op, func() error { return d.inner.Put(key, value) })
}

func (d *headDB) Delete(key []byte) error {
	var op heightOp
	op.del(key)
	return d.commit(&op, func() error { return d.inner.Delete(key) })
}

func (d *headDB) DeleteRange(start, end []byte) error {
	var op heightOp
	op.delRange(start, end)
	return d.commit(&op, func() error { return d.inner.DeleteRange(start, end) })
}

// --- batches

func (d *headDB) NewBatch() db.Batch { return &headBatch{d: d, b: d.inner.NewBatch()} }
func (d *headDB) NewBatchWithSize(n int) db.Batch {
	return &headBatch{d: d, b: d.inner.NewBatchWithSize(n)}
}

func (d *headDB) NewIndexedBatch() db.IndexedBatch {
	ib := d.inner.NewIndexedBatch()
	return &headIBatch{headBatch{d: d, b: ib}, ib}
}

func (d *headDB) NewIndexedBatchWithSize(n int) db.IndexedBatch {
	ib := d.inner.NewIndexedBatchWithSize(n)
	return &headIBatch{headBatch{d: d, b: ib}, ib}
}

func (d *headDB) Update(fn func(db.IndexedBatch) error) error {
	b := d.NewIndexedBatch()
	if err := fn(b); err != nil {
		b.Close()
		return err
	}
	return b.Write()
}

func (d *headDB) Write(fn func(db.Batch) error) error {
	b := d.NewBatch()
	if err := fn(b); err != nil {
		b.Close()
		return err
	}
	return b.Write()
}

type headBatch struct {
	d  *headDB
	b  db.Batch
	op heightOp
}

func (b *headBatch) Put(key, value []byte) error {
	b.op.put(key, value)
	return b.b.Put(key, value)
}

func (b *headBatch) Delete(key []byte) error {
	b.op.del(key)
	return b.b.Delete(key)
}

func (b *headBatch) DeleteRange(start, end []byte) error {
	b.op.delRange(start, end)
	return b.b.DeleteRange(start, end)
}
func (b *headBatch) Size() int    { return b.b.Size() }
func (b *headBatch) Close() error { return b.b.Close() }
func (b *headBatch) Write() error { return b.d.commit(&b.op, b.b.Write) }

type headIBatch struct {
	headBatch
	ib db.IndexedBatch
}

func (b *headIBatch) Has(key []byte) (bool, error)                { return b.ib.Has(key) }
func (b *headIBatch) Get(key []byte, cb func([]byte) error) error { return b.ib.Get(key, cb) }
func (b *headIBatch) NewIterator(prefix []byte, withUpperBound bool) (db.Iterator, error) {
	return b.ib.NewIterator(prefix, withUpperBound)
}

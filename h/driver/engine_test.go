package vdriver

// Engine of the C13 harness: one "incarnation" = one real driver.Driver + real
// tendermint state machine + real walstore on a scratch directory, surrounded by
// recording wrappers that number every effect the driver performs and can "kill the
// process" in front of any of them.

import (
	"context"
	"errors"
	"fmt"
	"io"
	"iter"
	"os"
	"path/filepath"
	"runtime"
	"sort"
	"strings"
	"sync"
	"time"

	"github.com/NethermindEth/juno/consensus/driver"
	"github.com/NethermindEth/juno/consensus/p2p"
	"github.com/NethermindEth/juno/consensus/starknet"
	"github.com/NethermindEth/juno/consensus/tendermint"
	"github.com/NethermindEth/juno/consensus/types"
	"github.com/NethermindEth/juno/consensus/types/actions"
	"github.com/NethermindEth/juno/consensus/types/wal"
	"github.com/NethermindEth/juno/consensus/walstore"
	"github.com/NethermindEth/juno/core/felt"
	"github.com/NethermindEth/juno/db"
	jsync "github.com/NethermindEth/juno/sync"
	"github.com/NethermindEth/juno/utils/log"
)

type (
	V = starknet.Value
	H = starknet.Hash
	A = starknet.Address
)

const watchdog = 60 * time.Second

// ------------------------------------------------------------------ small helpers

func mkVal(u uint64) V  { return V(felt.FromUint64[felt.Hash](u)) }
func mkAddr(u uint64) A { return felt.FromUint64[felt.Address](u) }

func lab(h H) string { return fmt.Sprintf("%d", (*felt.Felt)(&h).Uint64()) }

func hs(id *H) string {
	if id == nil {
		return "nil"
	}
	return lab(*id)
}

func as(a A) string { return fmt.Sprintf("v%d", (*felt.Felt)(&a).Uint64()) }

func vs(v *V) string {
	if v == nil {
		return "<nil>"
	}
	return lab(v.Hash())
}

func entryKey(e starknet.WALEntry) string {
	switch x := e.(type) {
	case *wal.Start:
		return fmt.Sprintf("start h=%d", x.GetHeight())
	case *starknet.WALProposal:
		return fmt.Sprintf("proposal h=%d r=%d from=%s vr=%d v=%s", x.Height, x.Round, as(x.Sender), x.ValidRound, vs(x.Value))
	case *starknet.WALPrevote:
		return fmt.Sprintf("prevote h=%d r=%d from=%s id=%s", x.Height, x.Round, as(x.Sender), hs(x.ID))
	case *starknet.WALPrecommit:
		return fmt.Sprintf("precommit h=%d r=%d from=%s id=%s", x.Height, x.Round, as(x.Sender), hs(x.ID))
	case *starknet.WALTimeout:
		return fmt.Sprintf("timeout %s h=%d r=%d", x.Step, x.Height, x.Round)
	}
	return fmt.Sprintf("unknown %T", e)
}

type pathDB struct {
	db.KeyValueStore
	p string
}

func (p pathDB) Path() string { return p.p }

func walDir(root string) string { return walstore.DefaultWALDir(root) }

func copyTree(src, dst string) error {
	return filepath.Walk(src, func(p string, info os.FileInfo, err error) error {
		if err != nil {
			return err
		}
		rel, _ := filepath.Rel(src, p)
		t := filepath.Join(dst, rel)
		if info.IsDir() {
			return os.MkdirAll(t, 0o755)
		}
		if !info.Mode().IsRegular() {
			return nil
		}
		in, err := os.Open(p)
		if err != nil {
			return err
		}
		defer in.Close()
		out, err := os.Create(t)
		if err != nil {
			return err
		}
		if _, err := io.Copy(out, in); err != nil {
			out.Close()
			return err
		}
		return out.Close()
	})
}

func dirSizes(dir string) map[string]int64 {
	m := map[string]int64{}
	ents, _ := os.ReadDir(dir)
	for _, e := range ents {
		if info, err := e.Info(); err == nil && info.Mode().IsRegular() {
			m[e.Name()] = info.Size()
		}
	}
	return m
}

// ------------------------------------------------------------------ model of the log

type walItem struct {
	H   types.Height
	Key string
}

type walRec struct {
	prune bool
	h     types.Height
	key   string
}

// walModel mirrors the sequential semantics of walstore records: an entry is kept
// unless its height is at or below the prune watermark; a prune record drops every
// height at or below it.
type walModel struct {
	watermark types.Height
	items     []walItem
}

func (m *walModel) apply(recs []walRec) {
	for _, r := range recs {
		if r.prune {
			if r.h <= m.watermark {
				continue
			}
			m.watermark = r.h
			kept := m.items[:0:0]
			for _, it := range m.items {
				if it.H > r.h {
					kept = append(kept, it)
				}
			}
			m.items = kept
			continue
		}
		if r.h <= m.watermark {
			continue
		}
		m.items = append(m.items, walItem{r.h, r.key})
	}
}

// what LoadAllEntries must yield: ascending height, append order inside a height
func (m *walModel) expected() []walItem {
	out := append([]walItem(nil), m.items...)
	sort.SliceStable(out, func(i, j int) bool { return out[i].H < out[j].H })
	return out
}

// ------------------------------------------------------------------ records

type effect struct {
	N      int    `json:"n"`
	Kind   string `json:"kind"`
	Key    string `json:"key"`
	Replay bool   `json:"replay,omitempty"`
	Dirty  int    `json:"unflushed_entries,omitempty"`
}

type voteRec struct {
	Inc    int    `json:"incarnation"`
	N      int    `json:"effect"`
	Kind   string `json:"kind"` // prevote | precommit | proposal
	H      types.Height
	R      types.Round
	ID     string `json:"id"`
	VR     types.Round
	Replay bool `json:"during_replay"`
}

type commitRec struct {
	Inc int
	H   types.Height
	Val string
}

type replayRec struct {
	Key    string
	H      types.Height
	Commit bool
}

type killSentinel struct{}

type kill struct {
	At   int    `json:"before_effect"`
	Torn bool   `json:"torn_flush,omitempty"`
	Cut  uint64 `json:"cut_seed,omitempty"`
	// Graceful: no kill; the driver is stopped (context cancelled, Close flushes) after
	// AfterInput inputs and restarted
	Graceful   bool `json:"graceful_stop,omitempty"`
	AfterInput int  `json:"after_input,omitempty"`
	// FailCommit: the n-th OnCommit call of this incarnation does not complete. FailMode
	// "returns-false": the listener reports failure (Driver.Run returns an error);
	// "blocks-until-cancelled": the listener waits for the block to be persisted, the node
	// is shut down meanwhile (context cancelled), the listener returns false. Either way Run
	// returns and its deferred Close really closes (and flushes) the store; the next
	// incarnation starts at the height whose commit did not complete.
	FailCommit int    `json:"fail_commit,omitempty"`
	FailMode   string `json:"fail_mode,omitempty"`
}

const (
	failFalse  = "returns-false"
	failCancel = "blocks-until-cancelled"
)

const (
	stEnd = iota
	stKilled
	stWatchdog
	stDriverErr
	stPanic
	stOpenErr
)

// ------------------------------------------------------------------ incarnation

type incarnation struct {
	c           *caseRun
	idx         int
	startHeight types.Height
	root        string
	real        walstore.TendermintWALStore[V, H, A]
	inner       tendermint.StateMachine[V, H, A]

	// everything below is guarded by c.mu
	n                 int
	kill              kill
	dead              bool
	deadCh            chan struct{}
	haltCh            chan struct{} // closed when the feeding side must stop: death or a blocked commit listener
	haltOnce          sync.Once
	onCommitCalls     int
	commitFailed      bool
	pendingSpec       []walRec
	prunedUncommitted []string
	exited            chan struct{}
	notify            chan struct{}
	replaying         bool
	effects           []effect
	pending           []walRec
	pendingEntries    int
	loaded            []walItem
	replayed          []replayRec
	tq                []types.Timeout
	armed             int
	consumed          int
	commitsSeen       int
	durViol           []effect
	harnessErr        string
	image             string
	tornApplied       bool
	runErr            error
	panicVal          string
	status            int
	finalHeight       types.Height
	lastPropQ         [2]int64 // last (height, round) asked of Validators.Proposer
	trace             []string
	trigger           string // log key of the input the state machine is processing (set by smWrap)
	unlogged          []effect
	staleTrig         bool // current trigger is a timeout whose actions carry no WriteWAL
}

var dbg = os.Getenv("C13_DEBUG") != ""

func (inc *incarnation) killable(kind string) bool { return kind != "close" && kind != "load" }

// pre registers an effect; it reports whether the process is to die in front of it.
// Caller must not hold c.mu.
func (inc *incarnation) pre(kind, key string) (e effect, die bool) {
	c := inc.c
	c.mu.Lock()
	defer c.mu.Unlock()
	if inc.dead {
		// a dead process does nothing; only deferred cleanup of the unwinding driver gets here
		return effect{}, false
	}
	if inc.killable(kind) {
		inc.n++
	}
	e = effect{N: inc.n, Kind: kind, Key: key, Replay: inc.replaying, Dirty: inc.pendingEntries}
	if inc.killable(kind) && inc.kill.At == inc.n {
		return e, true
	}
	inc.effects = append(inc.effects, e)
	return e, false
}

// die takes the crash image and marks the incarnation dead; then the caller panics.
func (inc *incarnation) die() {
	c := inc.c
	img, err := os.MkdirTemp("", "c13-img-")
	if err == nil {
		err = copyTree(inc.root, img)
	}
	c.mu.Lock()
	if err != nil {
		inc.harnessErr = "crash image: " + err.Error()
	}
	inc.image = img
	inc.dead = true
	inc.pending = nil
	inc.pendingEntries = 0
	inc.pendingSpec = nil
	close(inc.deadCh)
	inc.haltOnce.Do(func() { close(inc.haltCh) })
	c.mu.Unlock()
}

// ---- WAL store wrapper

type walWrap struct{ inc *incarnation }

func (w walWrap) SetWALEntry(entry starknet.WALEntry) error {
	inc := w.inc
	key := entryKey(entry)
	if _, die := inc.pre("append", key); die {
		inc.die()
		panic(killSentinel{})
	}
	err := inc.real.SetWALEntry(entry)
	if err == nil {
		c := inc.c
		c.mu.Lock()
		if !inc.dead {
			inc.pendingSpec = append(inc.pendingSpec, walRec{h: entry.GetHeight(), key: key})
		}
		if !inc.dead && entry.GetHeight() > c.model.watermark {
			inc.pending = append(inc.pending, walRec{h: entry.GetHeight(), key: key})
			inc.pendingEntries++
		}
		c.mu.Unlock()
	}
	return err
}

func (w walWrap) DeleteWALEntries(height types.Height) error {
	inc := w.inc
	if _, die := inc.pre("prune", fmt.Sprintf("prune<=%d", height)); die {
		inc.die()
		panic(killSentinel{})
	}
	err := inc.real.DeleteWALEntries(height)
	if err == nil {
		c := inc.c
		c.mu.Lock()
		if !inc.dead {
			inc.pendingSpec = append(inc.pendingSpec, walRec{prune: true, h: height})
		}
		if !inc.dead && height > c.model.watermark {
			merged := false
			for i := range inc.pending {
				if inc.pending[i].prune {
					inc.pending[i].h = max(inc.pending[i].h, height)
					merged = true
					break
				}
			}
			if !merged {
				inc.pending = append(inc.pending, walRec{prune: true, h: height})
			}
		}
		c.mu.Unlock()
	}
	return err
}

func (w walWrap) Flush() error {
	inc := w.inc
	c := inc.c
	c.mu.Lock()
	np := len(inc.pending)
	c.mu.Unlock()
	_, die := inc.pre("flush", fmt.Sprintf("flush(%d records)", np))
	if die && !(inc.kill.Torn && np > 0) {
		inc.die()
		panic(killSentinel{})
	}
	if die {
		// torn flush: the batch reaches the file only partially before the process dies
		before := dirSizes(walDir(inc.root))
		_ = inc.real.Flush()
		after := dirSizes(walDir(inc.root))
		inc.die()
		for name, sz := range after {
			grow := sz - before[name]
			if grow > 1 {
				cut := before[name] + 1 + int64(inc.kill.Cut%uint64(grow-1))
				if err := os.Truncate(filepath.Join(walDir(inc.image), name), cut); err == nil {
					c.mu.Lock()
					inc.tornApplied = true
					c.mu.Unlock()
				}
			}
		}
		if !inc.tornApplied {
			// nothing to tear: fall back to the image before the flush
			c.mu.Lock()
			inc.harnessErr = "torn flush: file did not grow"
			c.mu.Unlock()
		}
		panic(killSentinel{})
	}
	err := inc.real.Flush()
	if err == nil {
		c.mu.Lock()
		if !inc.dead {
			c.model.apply(inc.pending)
			inc.applySpec()
			inc.pending = nil
			inc.pendingEntries = 0
		}
		c.mu.Unlock()
	}
	return err
}

func (w walWrap) LoadAllEntries() iter.Seq2[starknet.WALEntry, error] {
	inc := w.inc
	inc.pre("load", "LoadAllEntries")
	// drained eagerly so that the observation is complete even if the process dies during replay
	type pair struct {
		e   starknet.WALEntry
		err error
	}
	var all []pair
	for e, err := range inc.real.LoadAllEntries() {
		all = append(all, pair{e, err})
		if err == nil {
			inc.c.mu.Lock()
			inc.loaded = append(inc.loaded, walItem{e.GetHeight(), entryKey(e)})
			inc.c.mu.Unlock()
		}
	}
	return func(yield func(starknet.WALEntry, error) bool) {
		for _, p := range all {
			if !yield(p.e, p.err) {
				return
			}
		}
	}
}

func (w walWrap) Close() error {
	inc := w.inc
	c := inc.c
	c.mu.Lock()
	dead := inc.dead
	c.mu.Unlock()
	if dead {
		return nil // a killed process flushes nothing
	}
	inc.pre("close", "Close")
	err := inc.real.Close()
	if err == nil {
		c.mu.Lock()
		c.model.apply(inc.pending)
		inc.applySpec()
		inc.pending = nil
		inc.pendingEntries = 0
		c.mu.Unlock()
	}
	return err
}

// applySpec (c.mu held) advances the specification model at a successful flush/close:
// like the mirror model, except that a prune record may only discard heights whose
// commit has completed - the log of an uncommitted height must survive.
func (inc *incarnation) applySpec() {
	c := inc.c
	committed := c.cfg.H0 + types.Height(len(c.commits)) // first height NOT committed
	recs := make([]walRec, 0, len(inc.pendingSpec))
	for _, r := range inc.pendingSpec {
		if r.prune && r.h >= committed {
			inc.prunedUncommitted = append(inc.prunedUncommitted,
				fmt.Sprintf("prune<=%d became durable while the commit of height %d has not completed", r.h, committed))
			if committed == 0 {
				continue
			}
			r.h = committed - 1
		}
		recs = append(recs, r)
	}
	c.spec.apply(recs)
	inc.pendingSpec = nil
}

// ---- broadcasters, commit listener

type bcast[M any] struct{ f func(M) }

func (b bcast[M]) Broadcast(_ context.Context, m M) { b.f(m) }

func (inc *incarnation) visible(kind, key string) effect {
	e, die := inc.pre(kind, key)
	if die {
		inc.die()
		panic(killSentinel{})
	}
	c := inc.c
	c.mu.Lock()
	if e.Dirty > 0 {
		inc.durViol = append(inc.durViol, e)
	}
	if !e.Replay && inc.trigger != "" {
		// the input whose processing produced this visible effect must be in the flushed log
		found := false
		for _, it := range c.model.items {
			if it.Key == inc.trigger {
				found = true
				break
			}
		}
		if !found {
			e.Key += " <- caused by " + inc.trigger
			var sh types.Height
			if n, _ := fmt.Sscanf(inc.trigger, "start h=%d", &sh); n == 1 {
				for _, it := range c.model.items {
					var lh types.Height
					if n, _ := fmt.Sscanf(it.Key, "start h=%d", &lh); n == 1 && lh > sh {
						// the record of this height start is in the log, but under a later height
						e.Kind = "height-start-logged-under-later-height"
						e.Key += fmt.Sprintf(" (the log holds %q instead)", it.Key)
					}
				}
			}
			if inc.staleTrig {
				// a timeout for which the state machine emitted no log record (it considered it
				// stale) but whose handling still produced a visible action
				// (a commit whose listener then fails is the same effect of the state machine)
				e.Kind = "unlogged-stale-timeout-triggers:" + strings.TrimSuffix(e.Kind, "-failed")
			}
			inc.unlogged = append(inc.unlogged, e)
		}
	}
	c.mu.Unlock()
	return e
}

func (inc *incarnation) onProposal(p *starknet.Proposal) {
	e := inc.visible("bcast-proposal", fmt.Sprintf("PROPOSAL h=%d r=%d vr=%d v=%s", p.Height, p.Round, p.ValidRound, vs(p.Value)))
	c := inc.c
	c.mu.Lock()
	id := p.Value.Hash()
	k := hr{p.Height, p.Round}
	if _, ok := c.ownProp[k]; !ok {
		c.ownProp[k] = id
	}
	c.votes = append(c.votes, voteRec{Inc: inc.idx, N: e.N, Kind: "proposal", H: p.Height, R: p.Round, ID: lab(id), VR: p.ValidRound, Replay: e.Replay})
	c.mu.Unlock()
}

func (inc *incarnation) onVote(kind string, h types.Height, r types.Round, id *H) {
	e := inc.visible("bcast-"+kind, fmt.Sprintf("%s h=%d r=%d id=%s", kind, h, r, hs(id)))
	c := inc.c
	c.mu.Lock()
	c.votes = append(c.votes, voteRec{Inc: inc.idx, N: e.N, Kind: kind, H: h, R: r, ID: hs(id), Replay: e.Replay})
	c.mu.Unlock()
}

type commitL struct{ inc *incarnation }

func (l commitL) OnCommit(ctx context.Context, h types.Height, v V) bool {
	inc := l.inc
	c := inc.c
	c.mu.Lock()
	inc.onCommitCalls++
	fail := inc.kill.FailCommit > 0 && inc.onCommitCalls == inc.kill.FailCommit
	c.mu.Unlock()
	if fail {
		inc.visible("commit-failed", fmt.Sprintf("COMMIT h=%d v=%s (listener does not complete: %s)", h, lab(v.Hash()), inc.kill.FailMode))
		c.mu.Lock()
		inc.commitFailed = true
		c.mu.Unlock()
		if inc.kill.FailMode == failCancel {
			inc.haltOnce.Do(func() { close(inc.haltCh) }) // the feeding side now shuts the node down
			<-ctx.Done()
		}
		return false
	}
	inc.visible("commit", fmt.Sprintf("COMMIT h=%d v=%s", h, lab(v.Hash())))
	c.mu.Lock()
	c.commits = append(c.commits, commitRec{Inc: inc.idx, H: h, Val: lab(v.Hash())})
	inc.commitsSeen++
	c.mu.Unlock()
	return true
}

func (commitL) Listen() <-chan jsync.CommittedBlock { return nil }

// ---- state machine pass-through (observation only; the real machine does all the work)

type smWrap struct{ inc *incarnation }

func (s smWrap) Height() types.Height { return s.inc.inner.Height() }

func (s smWrap) note(acts []starknet.Action) (commit bool) {
	inc := s.inc
	inc.c.mu.Lock()
	for _, a := range acts {
		switch x := a.(type) {
		case *actions.ScheduleTimeout:
			inc.tq = append(inc.tq, types.Timeout(*x))
		case *starknet.Commit:
			commit = true
		}
	}
	inc.c.mu.Unlock()
	return commit
}

func (s smWrap) setTrigger(key string) {
	s.inc.c.mu.Lock()
	s.inc.trigger = key
	s.inc.staleTrig = false
	s.inc.c.mu.Unlock()
}

func (s smWrap) ProcessStart(r types.Round) []starknet.Action {
	inc := s.inc
	inc.c.mu.Lock()
	inc.replaying = false
	inc.trigger = fmt.Sprintf("start h=%d", inc.inner.Height())
	inc.staleTrig = false
	inc.c.mu.Unlock()
	acts := inc.inner.ProcessStart(r)
	s.note(acts)
	return acts
}

func (s smWrap) ProcessTimeout(tm types.Timeout) []starknet.Action {
	inc := s.inc
	s.setTrigger(entryKey((*starknet.WALTimeout)(&tm)))
	acts := inc.inner.ProcessTimeout(tm)
	s.note(acts)
	inc.c.mu.Lock()
	inc.consumed++
	logged := false
	for _, a := range acts {
		if _, ok := a.(*starknet.WriteWAL); ok {
			logged = true
		}
	}
	inc.staleTrig = !logged
	if len(acts) > 0 && !logged {
		inc.c.cnt["stale_timeouts_that_still_produced_actions"]++
	}
	if len(acts) > 0 {
		inc.c.cnt["timeouts_effective"]++
	} else {
		inc.c.cnt["timeouts_stale"]++
	}
	inc.c.mu.Unlock()
	select {
	case inc.notify <- struct{}{}:
	default:
	}
	return acts
}

func (s smWrap) ProcessProposal(p *starknet.Proposal) []starknet.Action {
	s.setTrigger(entryKey((*starknet.WALProposal)(p)))
	acts := s.inc.inner.ProcessProposal(p)
	s.note(acts)
	return acts
}

func (s smWrap) ProcessPrevote(p *starknet.Prevote) []starknet.Action {
	s.setTrigger(entryKey((*starknet.WALPrevote)(p)))
	acts := s.inc.inner.ProcessPrevote(p)
	s.note(acts)
	return acts
}

func (s smWrap) ProcessPrecommit(p *starknet.Precommit) []starknet.Action {
	s.setTrigger(entryKey((*starknet.WALPrecommit)(p)))
	acts := s.inc.inner.ProcessPrecommit(p)
	s.note(acts)
	return acts
}

func (s smWrap) ProcessWAL(e starknet.WALEntry) []starknet.Action {
	inc := s.inc
	key := entryKey(e)
	h := e.GetHeight()
	acts := inc.inner.ProcessWAL(e)
	commit := s.note(acts)
	inc.c.mu.Lock()
	inc.replayed = append(inc.replayed, replayRec{Key: key, H: h, Commit: commit})
	inc.c.mu.Unlock()
	return acts
}

func (s smWrap) ProcessSync(p *starknet.Proposal, pcs []starknet.Precommit) []starknet.Action {
	acts := s.inc.inner.ProcessSync(p, pcs)
	s.note(acts)
	return acts
}

// ---- validators, application

type hr struct {
	H types.Height
	R types.Round
}

type vals struct {
	cfg *config
	inc *incarnation
}

func (v vals) TotalVotingPower(types.Height) types.VotingPower         { return 4 }
func (v vals) ValidatorVotingPower(types.Height, *A) types.VotingPower { return 1 }
func (v vals) Proposer(h types.Height, r types.Round) A {
	// only ever called from the driver goroutine
	v.inc.lastPropQ = [2]int64{int64(h), int64(r)}
	return v.cfg.Addrs[v.cfg.proposerIdx(h, r)]
}

type app struct {
	cfg *config
	inc *incarnation
}

// Value: "deterministic" = f(height, round) of the round being started (the state
// machine asks Validators.Proposer(h, r) immediately before it asks for a value);
// "fresh" = a value never returned before, like a block built from time.Now().
func (a app) Value() V {
	c := a.inc.c
	c.mu.Lock()
	defer c.mu.Unlock()
	c.cnt["application_value_calls"]++
	if a.cfg.App == appFresh {
		c.fresh++
		return mkVal(1_000_000 + c.fresh)
	}
	return mkVal(ownDetVal(types.Height(a.inc.lastPropQ[0]), types.Round(a.inc.lastPropQ[1])))
}

func (a app) Valid(v V) bool {
	h := v.Hash()
	return (*felt.Felt)(&h).Uint64() < 9_000_000
}

// ------------------------------------------------------------------ a case run (sequence of incarnations)

type caseRun struct {
	cfg      *config
	mu       sync.Mutex
	fresh    uint64
	ownProp  map[hr]H
	resolved map[int]input
	model    walModel
	spec     walModel // what must be in the log (prunes only of committed heights)
	specAt   [][]walItem
	votes    []voteRec
	commits  []commitRec
	incs     []*incarnation
	cnt      map[string]int
	root     string
	futPC    map[string]map[int]bool // (h,r,id) -> senders of non-nil precommits delivered while the height was in the future
	withheld map[int]bool            // script inputs the peers withheld (sync guard); they stay withheld after a restart
	dropped  int
	tmp      []string
	// expectAt[i] = what the log must hold when incarnation i+1 opens it
	expectAt [][]walItem
}

func openStore(root string) (walstore.TendermintWALStore[V, H, A], error) {
	return walstore.NewTendermintWALStore[V, H, A](pathDB{p: root})
}

func newCaseRun(cfg *config) (*caseRun, error) {
	root, err := os.MkdirTemp("", "c13-wal-")
	if err != nil {
		return nil, err
	}
	return &caseRun{cfg: cfg, ownProp: map[hr]H{}, resolved: map[int]input{}, cnt: map[string]int{},
		root: root, futPC: map[string]map[int]bool{}, withheld: map[int]bool{}, tmp: []string{root}}, nil
}

func (c *caseRun) cleanup() {
	for _, d := range c.tmp {
		os.RemoveAll(d)
	}
}

func (c *caseRun) completedCommits() int {
	c.mu.Lock()
	defer c.mu.Unlock()
	return len(c.commits)
}

type lst[M any] struct{ ch chan M }

func (l lst[M]) Listen() <-chan M { return l.ch }

// incarnate starts a driver on c.root at the height after the last completed commit,
// feeds `inputs` (index -> script input) and either reaches the end (graceful stop)
// or is killed in front of effect k.At.
func (c *caseRun) incarnate(inputs []idxInput, k kill) *incarnation {
	cfg := c.cfg
	inc := &incarnation{
		c: c, idx: len(c.incs), root: c.root, kill: k,
		startHeight: cfg.H0 + types.Height(c.completedCommits()),
		deadCh:      make(chan struct{}), haltCh: make(chan struct{}), exited: make(chan struct{}), notify: make(chan struct{}, 1),
		replaying: true,
	}
	c.incs = append(c.incs, inc)
	store, err := walstore.NewTendermintWALStore[V, H, A](pathDB{p: c.root})
	if err != nil {
		inc.status = stOpenErr
		inc.runErr = err
		close(inc.exited)
		return inc
	}
	inc.real = store
	vv := vals{cfg, inc}
	inc.inner = tendermint.New[V, H, A](log.NewNopZapLogger(), cfg.Addrs[cfg.Me], app{cfg, inc}, vv, inc.startHeight)
	br := p2p.Broadcasters[V, H, A]{
		ProposalBroadcaster:  bcast[*starknet.Proposal]{inc.onProposal},
		PrevoteBroadcaster:   bcast[*starknet.Prevote]{func(p *starknet.Prevote) { inc.onVote("prevote", p.Height, p.Round, p.ID) }},
		PrecommitBroadcaster: bcast[*starknet.Precommit]{func(p *starknet.Precommit) { inc.onVote("precommit", p.Height, p.Round, p.ID) }},
	}
	propCh, pvCh, pcCh := make(chan *starknet.Proposal), make(chan *starknet.Prevote), make(chan *starknet.Precommit)
	ls := p2p.Listeners[V, H, A]{
		ProposalListener: lst[*starknet.Proposal]{propCh}, PrevoteListener: lst[*starknet.Prevote]{pvCh},
		PrecommitListener: lst[*starknet.Precommit]{pcCh},
	}
	timeoutFn := func(step types.Step, round types.Round) time.Duration {
		if _, die := inc.pre("timeout", fmt.Sprintf("schedule-timeout %s r=%d", step, round)); die {
			inc.die()
			panic(killSentinel{})
		}
		c.mu.Lock()
		defer c.mu.Unlock()
		if len(inc.tq) == 0 || inc.tq[0].Step != step || inc.tq[0].Round != round {
			inc.harnessErr = "timeout queue out of step with the driver"
			return time.Hour
		}
		tm := inc.tq[0]
		inc.tq = inc.tq[1:]
		if cfg.Family == famTimeouts && cfg.fires(tm) {
			inc.armed++
			c.cnt["timeouts_armed_to_fire"]++
			return 0
		}
		return time.Hour
	}
	d := driver.New[V, H, A](log.NewNopZapLogger(), walWrap{inc}, smWrap{inc}, commitL{inc}, br, ls, nil, nil, timeoutFn)
	ctx, cancel := context.WithCancel(context.Background())
	go func() {
		defer close(inc.exited)
		defer func() {
			if p := recover(); p != nil {
				if _, ok := p.(killSentinel); ok {
					return
				}
				buf := make([]byte, 6000)
				buf = buf[:runtime.Stack(buf, false)]
				c.mu.Lock()
				inc.panicVal = fmt.Sprint(p) + "\n" + string(buf)
				c.mu.Unlock()
			}
		}()
		err := d.Run(ctx)
		c.mu.Lock()
		inc.runErr = err
		c.mu.Unlock()
	}()

	// --- feeding side
	wd := time.NewTimer(watchdog)
	defer wd.Stop()
	stopped := false // dead / exited / watchdog
	send := func(do func() bool) bool {
		if stopped {
			return false
		}
		if !do() {
			stopped = true
		}
		return !stopped
	}
	barrier := func() bool {
		m := &starknet.Prevote{MessageHeader: starknet.MessageHeader{Height: 0, Round: 0, Sender: cfg.Addrs[cfg.peers()[0]]}}
		select {
		case pvCh <- m:
			return true
		case <-inc.haltCh:
		case <-inc.exited:
		case <-wd.C:
			inc.status = stWatchdog
		}
		return false
	}
	// syncPoint returns when the driver is idle in its select and no expiring timer is
	// outstanding: a barrier message (ignored by the state machine: height 0) is accepted
	// only once everything before it has been executed; the timeout counter must not have
	// moved between a read taken before sending the barrier and one taken after it.
	syncPoint := func() bool {
		for {
			c.mu.Lock()
			c0 := inc.consumed
			c.mu.Unlock()
			if !send(barrier) {
				return false
			}
			c.mu.Lock()
			c1, a1 := inc.consumed, inc.armed
			if dbg {
				inc.trace = append(inc.trace, fmt.Sprintf("sync: consumed=%d->%d armed=%d effects=%d", c0, c1, a1, len(inc.effects)))
			}
			c.mu.Unlock()
			if c1 == c0 && c1 >= a1 {
				return true
			}
			if c1 >= a1 {
				continue
			}
			select {
			case <-inc.notify:
			case <-inc.haltCh:
				stopped = true
				return false
			case <-inc.exited:
				stopped = true
				return false
			case <-wd.C:
				inc.status = stWatchdog
				stopped = true
				return false
			}
		}
	}
	if syncPoint() {
		for _, ii := range inputs {
			msg, drop := c.concrete(inc, ii)
			if drop {
				continue
			}
			ok := send(func() bool {
				switch m := msg.(type) {
				case *starknet.Proposal:
					select {
					case propCh <- m:
						return true
					case <-inc.haltCh:
					case <-inc.exited:
					case <-wd.C:
						inc.status = stWatchdog
					}
				case *starknet.Prevote:
					select {
					case pvCh <- m:
						return true
					case <-inc.haltCh:
					case <-inc.exited:
					case <-wd.C:
						inc.status = stWatchdog
					}
				case *starknet.Precommit:
					select {
					case pcCh <- m:
						return true
					case <-inc.haltCh:
					case <-inc.exited:
					case <-wd.C:
						inc.status = stWatchdog
					}
				}
				return false
			})
			if !ok {
				break
			}
			c.mu.Lock()
			c.cnt["inputs_delivered"]++
			if dbg {
				inc.trace = append(inc.trace, fmt.Sprintf("sent #%d %v effects=%d", ii.Idx, msgString(msg), len(inc.effects)))
			}
			c.mu.Unlock()
			if !syncPoint() {
				break
			}
		}
	}
	// --- stop (graceful when alive) and wait for the driver goroutine: never two drivers at once
	cancel()
	select {
	case <-inc.exited:
	case <-time.After(watchdog):
		inc.status = stWatchdog
		return inc
	}
	c.mu.Lock()
	defer c.mu.Unlock()
	inc.finalHeight = inc.inner.Height()
	switch {
	case inc.status == stWatchdog:
	case inc.panicVal != "":
		inc.status = stPanic
	case inc.dead:
		inc.status = stKilled
	case inc.commitFailed:
		inc.status = stEnd // Run returned (with the listener's failure or nil); Close has run
	case inc.runErr != nil && !errors.Is(inc.runErr, context.Canceled):
		inc.status = stDriverErr
	default:
		inc.status = stEnd
	}
	if inc.dead {
		// release the dead process' file handles; whatever this writes goes to the old directory, not to the image
		c.mu.Unlock()
		_ = inc.real.Close()
		c.mu.Lock()
		if inc.image != "" {
			c.tmp = append(c.tmp, inc.image)
			c.root = inc.image
		}
	}
	c.expectAt = append(c.expectAt, c.model.expected())
	c.specAt = append(c.specAt, c.spec.expected())
	return inc
}

type idxInput struct {
	Idx int
	In  input
}

// concrete resolves a script input into a message (memoised per input index so that a
// re-delivery after the crash is the identical message), and applies the one dynamic
// guard of the harness: a third identical non-nil precommit for a height the node has
// not reached is withheld, because it would make the driver start the block fetcher,
// which this harness does not provide.
func (c *caseRun) concrete(inc *incarnation, ii idxInput) (any, bool) {
	cfg := c.cfg
	c.mu.Lock()
	defer c.mu.Unlock()
	in, ok := c.resolved[ii.Idx]
	if !ok {
		in = ii.In
		if in.Val.Own {
			if id, seen := c.ownProp[hr{in.Val.OwnH, in.Val.OwnR}]; seen {
				in.Val = valRef{Fixed: (*felt.Felt)(&id).Uint64()}
			} else {
				in.Val = valRef{Fixed: in.Val.Fixed}
			}
		}
		c.resolved[ii.Idx] = in
	}
	hdr := starknet.MessageHeader{Height: in.H, Round: in.R, Sender: cfg.Addrs[in.From]}
	var id *H
	if !in.Val.Nil {
		h := mkVal(in.Val.Fixed).Hash()
		id = &h
	}
	switch in.Kind {
	case kProposal:
		v := mkVal(in.Val.Fixed)
		return &starknet.Proposal{MessageHeader: hdr, ValidRound: in.VR, Value: &v}, false
	case kPrevote:
		return &starknet.Prevote{MessageHeader: hdr, ID: id}, false
	default:
		// a message the peers withheld stays withheld: re-delivery after a restart must not hand
		// the recovered node an input the never-crashed twin was never given
		if c.withheld[ii.Idx] {
			return nil, true
		}
		nodeH := inc.startHeight + types.Height(inc.commitsSeen)
		if id != nil && in.H > nodeH {
			key := fmt.Sprintf("%d/%d/%s", in.H, in.R, hs(id))
			set := c.futPC[key]
			if set == nil {
				set = map[int]bool{}
				c.futPC[key] = set
			}
			if !set[in.From] && len(set) >= 2 {
				c.dropped++
				c.withheld[ii.Idx] = true
				return nil, true
			}
			set[in.From] = true
		}
		return &starknet.Precommit{MessageHeader: hdr, ID: id}, false
	}
}

func msgString(m any) string {
	switch x := m.(type) {
	case *starknet.Proposal:
		return entryKey((*starknet.WALProposal)(x))
	case *starknet.Prevote:
		return entryKey((*starknet.WALPrevote)(x))
	case *starknet.Precommit:
		return entryKey((*starknet.WALPrecommit)(x))
	}
	return "?"
}

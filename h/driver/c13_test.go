package vdriver

import (
	"fmt"
	"os"
	"sort"
	"strings"
	"sync"
	"testing"

	"github.com/NethermindEth/juno/consensus/types"
	"github.com/NethermindEth/juno/verifh/lib"
)

const (
	modeSame  = "same-inputs-redelivered"
	modeOther = "different-continuation"
)

type plan struct {
	Kills []kill `json:"kills"`
	Mode  string `json:"mode"`
	Cont  uint64 `json:"continuation_seed,omitempty"`
}

func (p plan) String() string {
	var s []string
	for _, k := range p.Kills {
		t := ""
		if k.Torn {
			t = "(torn)"
		}
		if k.Graceful {
			s = append(s, fmt.Sprintf("graceful-stop-after-input-%d", k.AfterInput))
			continue
		}
		if k.FailCommit > 0 {
			s = append(s, fmt.Sprintf("commit#%d-%s+stop", k.FailCommit, k.FailMode))
			continue
		}
		s = append(s, fmt.Sprintf("%d%s", k.At, t))
	}
	return fmt.Sprintf("kill-before-effect=[%s] mode=%s", strings.Join(s, ","), p.Mode)
}

// runPlan executes the script from scratch with the given kills: incarnation i is
// killed in front of its Kills[i].At-th effect, the next incarnation starts on the
// crash image; the last incarnation runs to the end of the script.
func runPlan(cfg *config, script []input, p plan, idx int) (*caseRun, string) {
	c, err := newCaseRun(cfg)
	if err != nil {
		return nil, "harness: " + err.Error()
	}
	all := make([]idxInput, len(script))
	for i, in := range script {
		all[i] = idxInput{i, in}
	}
	for i := 0; i <= len(p.Kills); i++ {
		var k kill
		if i < len(p.Kills) {
			k = p.Kills[i]
		}
		inputs := all
		if k.Graceful {
			inputs = all[:min(k.AfterInput, len(all))]
			k = kill{}
		}
		if i == len(p.Kills) && i > 0 && p.Mode == modeOther {
			h := cfg.H0 + types.Height(c.completedCommits())
			rng := lib.Rng("C13/continuation", uint64(idx)<<20^p.Cont)
			alt := genScript(rng, cfg, h, 1+rng.IntN(2), false)
			inputs = make([]idxInput, len(alt))
			for j, in := range alt {
				inputs[j] = idxInput{1<<20 + j, in}
			}
		}
		inc := c.incarnate(inputs, k)
		switch inc.status {
		case stWatchdog:
			return c, "watchdog"
		case stOpenErr, stPanic, stDriverErr:
			return c, "" // evaluated as violations
		case stKilled:
			if k.At == 0 {
				return c, "harness: killed without a kill request"
			}
			if inc.harnessErr != "" && !strings.HasPrefix(inc.harnessErr, "torn flush") {
				return c, "harness: " + inc.harnessErr
			}
		case stEnd:
			if k.At != 0 {
				return c, "kill-point-not-reached"
			}
			if k.FailCommit > 0 && !inc.commitFailed {
				return c, "failing-commit-not-reached"
			}
			if i < len(p.Kills) {
				c.cnt["graceful_stops"]++
			}
			if inc.harnessErr != "" {
				return c, "harness: " + inc.harnessErr
			}
		}
	}
	return c, ""
}

// ------------------------------------------------------------------ oracles

type finding struct {
	Class string
	Brief string
	Data  any
}

func effectKeys(es []effect) []string {
	out := make([]string, len(es))
	for i, e := range es {
		out[i] = e.Kind + ": " + e.Key
		if e.Replay {
			out[i] += " [replay]"
		}
	}
	return out
}

func itemKeys(it []walItem) []string {
	out := make([]string, len(it))
	for i, x := range it {
		out[i] = x.Key
	}
	return out
}

func tail(s []string, n int) []string {
	if len(s) > n {
		return append([]string{fmt.Sprintf("... (%d earlier)", len(s)-n)}, s[len(s)-n:]...)
	}
	return s
}

// checkRun applies oracles (a), (b), (c) to one plan execution.
func checkRun(c *caseRun, expectedAtStart [][]walItem) []finding {
	cfg := c.cfg
	var out []finding
	for _, inc := range c.incs {
		switch inc.status {
		case stOpenErr:
			out = append(out, finding{"wal-reopen-failed", fmt.Sprintf("incarnation %d: NewTendermintWALStore on the crash image: %v", inc.idx, inc.runErr), nil})
		case stPanic:
			out = append(out, finding{"panic:driver", fmt.Sprintf("incarnation %d: panic in the driver goroutine: %.300s", inc.idx, inc.panicVal), inc.panicVal})
		case stDriverErr:
			out = append(out, finding{"driver-error", fmt.Sprintf("incarnation %d: Driver.Run returned %v", inc.idx, inc.runErr), nil})
		}
		// (a) durability order
		for _, e := range inc.durViol {
			out = append(out, finding{"visible-before-durable:" + e.Kind,
				fmt.Sprintf("incarnation %d effect %d (%s) was performed while %d logged input(s) were not flushed", inc.idx, e.N, e.Key, e.Dirty),
				map[string]any{"effects": tail(effectKeys(inc.effects), 12)}})
			break
		}
		for _, e := range inc.unlogged {
			if e.Kind == "height-start-logged-under-later-height" {
				out = append(out, finding{"height-start-logged-under-later-height",
					fmt.Sprintf("incarnation %d effect %d (%s)", inc.idx, e.N, e.Key),
					map[string]any{"effects": tail(effectKeys(inc.effects), 14)}})
				break
			}
			if strings.HasPrefix(e.Kind, "unlogged-stale-timeout-triggers:") {
				out = append(out, finding{e.Kind,
					fmt.Sprintf("incarnation %d effect %d (%s): the state machine treated the timeout as stale (no log record) yet produced this effect while handling it", inc.idx, e.N, e.Key),
					map[string]any{"effects": tail(effectKeys(inc.effects), 14)}})
				break
			}
			out = append(out, finding{"visible-effect-of-unlogged-input:" + e.Kind,
				fmt.Sprintf("incarnation %d effect %d (%s): that input is not in the flushed log", inc.idx, e.N, e.Key),
				map[string]any{"effects": tail(effectKeys(inc.effects), 12)}})
			break
		}
		// (c2) content of the log after the crash
		if inc.idx > 0 && inc.status != stOpenErr && inc.idx-1 < len(expectedAtStart) {
			want, got := itemKeys(expectedAtStart[inc.idx-1]), itemKeys(inc.loaded)
			if d := diffSeq(want, got); d != "" {
				torn := ""
				if c.incs[inc.idx-1].tornApplied {
					torn = ":torn-flush"
				}
				out = append(out, finding{"wal-content-after-crash:" + d + torn,
					fmt.Sprintf("incarnation %d: LoadAllEntries yields %d entries, the flushes that had returned before the kill hold %d (%s)", inc.idx, len(got), len(want), d),
					map[string]any{"want": want, "got": got}})
			}
		}
		// (c2') the flushed log of an uncommitted height survives any stop
		for _, w := range inc.prunedUncommitted {
			out = append(out, finding{"wal-pruned-for-uncommitted-height",
				fmt.Sprintf("incarnation %d: %s", inc.idx, w), map[string]any{"effects": tail(effectKeys(inc.effects), 14)}})
			break
		}
		if inc.idx > 0 && inc.status != stOpenErr && inc.idx-1 < len(c.specAt) {
			var want, got []string
			for _, it := range c.specAt[inc.idx-1] {
				if it.H >= inc.startHeight {
					want = append(want, it.Key)
				}
			}
			for _, it := range inc.loaded {
				if it.H >= inc.startHeight {
					got = append(got, it.Key)
				}
			}
			mirrorOK := inc.idx-1 < len(expectedAtStart) && diffSeq(itemKeys(expectedAtStart[inc.idx-1]), itemKeys(inc.loaded)) == ""
			if d := diffSeq(want, got); d != "" && mirrorOK {
				cl := "wal-content-of-uncommitted-height:" + d
				if d == "missing" {
					cl = "wal-pruned-for-uncommitted-height"
				}
				out = append(out, finding{cl,
					fmt.Sprintf("incarnation %d restarts at height %d: the log holds %d entries of heights >= %d, %d had been flushed and their commit has not completed (%s)",
						inc.idx, inc.startHeight, len(got), inc.startHeight, len(want), d),
					map[string]any{"want": want, "got": got}})
			}
		}
		// (c3) replay feeds exactly the recorded inputs of the heights not yet committed
		if inc.status != stOpenErr {
			cur := inc.startHeight
			var want []string
			ri := 0
			for _, it := range inc.loaded {
				if it.H < cur {
					continue
				}
				want = append(want, it.Key)
				if ri < len(inc.replayed) && inc.replayed[ri].Key == it.Key && inc.replayed[ri].Commit {
					cur++
				}
				ri++
			}
			var got []string
			for _, x := range inc.replayed {
				got = append(got, x.Key)
			}
			// a kill during replay cuts the replay short, and so does a commit re-derived during
			// replay whose listener does not complete (Run returns): compare the common prefix only
			if (inc.status == stKilled || inc.commitFailed) && len(got) < len(want) {
				want = want[:len(got)]
			}
			if d := diffSeq(want, got); d != "" {
				out = append(out, finding{"replay-input-mismatch:" + d,
					fmt.Sprintf("incarnation %d (start height %d): state machine was fed %d logged entries, expected %d (%s)", inc.idx, inc.startHeight, len(got), len(want), d),
					map[string]any{"want": want, "got": got}})
			}
		}
	}
	// (c1) completed commits: contiguous heights, none twice
	for i, cm := range c.commits {
		if cm.H != cfg.H0+types.Height(i) {
			kind := "gap"
			if cm.H < cfg.H0+types.Height(i) {
				kind = "height-committed-twice"
			}
			out = append(out, finding{"commit-sequence:" + kind,
				fmt.Sprintf("completed commit #%d (incarnation %d) is for height %d, expected %d", i, cm.Inc, cm.H, cfg.H0+types.Height(i)), c.commits})
			break
		}
	}
	// (b) no conflicting prevote / precommit for any (h, r)
	type vk struct {
		kind string
		h    types.Height
		r    types.Round
	}
	first := map[vk]voteRec{}
	ownProps := map[hr]map[string]bool{}
	for _, v := range c.votes {
		if v.Kind == "proposal" {
			k := hr{v.H, v.R}
			if ownProps[k] == nil {
				ownProps[k] = map[string]bool{}
			}
			ownProps[k][v.ID] = true
		}
	}
	reported := map[string]bool{}
	for _, v := range c.votes {
		if v.Kind == "proposal" {
			continue
		}
		k := vk{v.Kind, v.H, v.R}
		f, ok := first[k]
		if !ok {
			first[k] = v
			continue
		}
		if f.ID == v.ID {
			continue
		}
		var class string
		switch {
		case f.Inc == v.Inc:
			class = fmt.Sprintf("conflicting-%s-within-one-run:%s:%s", v.Kind, cfg.Role, cfg.App)
		default:
			rederived := false
			for k2, ids := range ownProps {
				if k2.H == v.H && len(ids) > 1 {
					rederived = true
				}
			}
			switch {
			case cfg.Role == roleProposer && cfg.App == appFresh && rederived:
				// the documented design-level defect: own proposals are not logged, replay of the
				// logged Start asks the application again
				class = "conflicting-vote-after-replay:proposer-fresh-value"
			case cfg.Role == roleProposer && cfg.App == appFresh:
				class = fmt.Sprintf("conflicting-%s-after-replay:proposer:fresh-value:no-proposal-rederived", v.Kind)
			default:
				class = fmt.Sprintf("conflicting-%s-after-replay:%s:%s", v.Kind, cfg.Role, cfg.App)
			}
		}
		if reported[class] {
			continue
		}
		reported[class] = true
		var props []voteRec
		for _, p := range c.votes {
			if p.Kind == "proposal" && p.H == v.H {
				props = append(props, p)
			}
		}
		out = append(out, finding{class,
			fmt.Sprintf("%s for (h=%d, r=%d): id=%s in incarnation %d (effect %d), id=%s in incarnation %d (effect %d, replay=%v)",
				v.Kind, v.H, v.R, f.ID, f.Inc, f.N, v.ID, v.Inc, v.N, v.Replay),
			map[string]any{"before": f, "after": v, "own_proposals_at_height": props}})
	}
	return out
}

func diffSeq(want, got []string) string {
	if len(want) == len(got) {
		same := true
		for i := range want {
			if want[i] != got[i] {
				same = false
				break
			}
		}
		if same {
			return ""
		}
	}
	cw, cg := map[string]int{}, map[string]int{}
	for _, s := range want {
		cw[s]++
	}
	for _, s := range got {
		cg[s]++
	}
	missing, extra := 0, 0
	for s, n := range cw {
		if cg[s] < n {
			missing += n - cg[s]
		}
	}
	for s, n := range cg {
		if cw[s] < n {
			extra += n - cw[s]
		}
	}
	switch {
	case missing > 0 && extra > 0:
		return "missing-and-extra"
	case missing > 0:
		return "missing"
	case extra > 0:
		return "extra-or-duplicated"
	}
	return "order"
}

func dedupStarts(in []string) []string {
	seen := map[string]bool{}
	var out []string
	for _, k := range in {
		if strings.HasPrefix(k, "start h=") {
			if seen[k] {
				continue
			}
			seen[k] = true
		}
		out = append(out, k)
	}
	return out
}

type summary struct {
	Broadcasts map[string]bool
	Commits    []string
	Height     types.Height
	WAL        []string
}

func summarise(c *caseRun) (summary, error) {
	s := summary{Broadcasts: map[string]bool{}}
	for _, v := range c.votes {
		s.Broadcasts[fmt.Sprintf("%s h=%d r=%d id=%s vr=%d", v.Kind, v.H, v.R, v.ID, v.VR)] = true
	}
	for _, cm := range c.commits {
		s.Commits = append(s.Commits, fmt.Sprintf("h=%d v=%s", cm.H, cm.Val))
	}
	last := c.incs[len(c.incs)-1]
	s.Height = last.finalHeight
	// what a further restart would find (real store, fresh open of the final directory)
	items, err := loadFinal(c.root)
	if err != nil {
		return s, err
	}
	for _, it := range items {
		if it.H >= s.Height {
			s.WAL = append(s.WAL, it.Key)
		}
	}
	return s, nil
}

// compareTwin is oracle (d).
func compareTwin(twin, got summary) []finding {
	var out []finding
	var missing, extra []string
	for k := range twin.Broadcasts {
		if !got.Broadcasts[k] {
			missing = append(missing, k)
		}
	}
	for k := range got.Broadcasts {
		if !twin.Broadcasts[k] {
			extra = append(extra, k)
		}
	}
	sort.Strings(missing)
	sort.Strings(extra)
	if len(missing)+len(extra) > 0 {
		kind := "broadcast-missing"
		if len(extra) > 0 {
			kind = "broadcast-extra"
		}
		out = append(out, finding{"final-state-differs:" + kind,
			fmt.Sprintf("distinct broadcasts differ from the never-crashed twin: missing %v extra %v", missing, extra),
			map[string]any{"missing": missing, "extra": extra}})
	}
	if strings.Join(twin.Commits, ";") != strings.Join(got.Commits, ";") {
		out = append(out, finding{"final-state-differs:commits",
			fmt.Sprintf("commit sequence %v, twin %v", got.Commits, twin.Commits), nil})
	}
	if twin.Height != got.Height {
		out = append(out, finding{"final-state-differs:height", fmt.Sprintf("final height %d, twin %d", got.Height, twin.Height), nil})
	}
	// a repeated height-start record is idempotent for the state machine (ProcessStart of a
	// started height does nothing), so repeated start records are collapsed before comparing
	if d := diffSeq(dedupStarts(twin.WAL), dedupStarts(got.WAL)); d != "" {
		out = append(out, finding{"final-state-differs:log-" + d,
			fmt.Sprintf("log content at the final height differs from the twin's (%s)", d),
			map[string]any{"twin": twin.WAL, "got": got.WAL}})
	}
	return out
}

// ------------------------------------------------------------------ the case

func makeConfig(idx int) *config {
	rng := lib.Rng("C13/config", uint64(idx))
	cfg := &config{
		Role:     []string{roleProposer, roleNonProposer}[idx%2],
		App:      []string{appDet, appFresh}[(idx/2)%2],
		Family:   []string{famMessages, famTimeouts}[(idx/4)%2],
		H0:       types.Height(1 + rng.IntN(4)),
		Me:       rng.IntN(4),
		PropSeed: rng.Uint64(), FireSeed: rng.Uint64(),
	}
	if rng.IntN(4) == 0 {
		cfg.MeRound = 1
	}
	for i := uint64(1); i <= 4; i++ {
		cfg.Addrs = append(cfg.Addrs, mkAddr(i))
	}
	return cfg
}

// (d) needs a run whose values do not depend on how often the application was asked
func twinComparable(cfg *config) bool { return cfg.App == appDet || cfg.Role == roleNonProposer }

func runCase(t *testing.T, r *lib.Run, idx int) {
	cfg := makeConfig(idx)
	rng := lib.Rng("C13/script", uint64(idx))
	script := genScript(rng, cfg, cfg.H0, pick(rng, 1, 2, 2, 3), true)
	combo := fmt.Sprintf("%s/%s/%s", cfg.Role, cfg.App, cfg.Family)

	var repMu sync.Mutex
	reported := map[string]bool{}
	report := func(p plan, fs []finding, c *caseRun) {
		for _, f := range fs {
			r.Count("violations_seen:"+f.Class, 1)
			repMu.Lock()
			dup := reported[f.Class]
			reported[f.Class] = true
			repMu.Unlock()
			if dup {
				continue // one witness per class and case
			}
			w := map[string]any{"config": cfg.String(), "script": scriptString(script), "plan": p, "detail": f.Data}
			if c != nil {
				var incs []any
				for _, inc := range c.incs {
					incs = append(incs, map[string]any{"incarnation": inc.idx, "start_height": inc.startHeight,
						"effects": tail(effectKeys(inc.effects), 40), "loaded": itemKeys(inc.loaded)})
				}
				w["incarnations"] = incs
			}
			r.Violation(f.Class, idx, fmt.Sprintf("[%s; %s] %s", cfg, p, f.Brief), w)
		}
	}

	// ---- never-crashed twin (also the dry run that counts the effects)
	twin, why := runPlan(cfg, script, plan{Mode: modeSame}, idx)
	if twin == nil {
		t.Fatalf("C13 harness: %s", why)
	}
	defer twin.cleanup()
	if why != "" {
		r.Inconclusive("twin:" + why)
		return
	}
	r.Eval(1)
	fs := checkRun(twin, nil)
	report(plan{Mode: "no-crash"}, fs, twin)
	twinSum, err := summarise(twin)
	if err != nil {
		report(plan{Mode: "no-crash"}, []finding{{"wal-reopen-failed", "reopening the log of the never-crashed run: " + err.Error(), nil}}, twin)
		return
	}
	E := twin.incs[0].effects
	K := twin.incs[0].n
	kinds := map[string]int{}
	for _, e := range E {
		kinds[e.Kind]++
	}
	for k, n := range kinds {
		r.Count("twin_effects:"+k, n)
	}
	r.Count("scripts", 1)
	r.Count("scripts:"+combo, 1)
	r.Count("script_inputs", len(script))
	r.Count("twin_commits", len(twin.commits))
	for k, n := range twin.cnt {
		r.Count("twin_"+k, n)
	}
	if twin.dropped > 0 {
		r.Count("twin_precommits_withheld(sync guard)", twin.dropped)
	}
	if idx < 4 {
		r.Sample(map[string]any{"case": idx, "config": cfg.String(), "script": scriptString(script),
			"effects_without_crash": effectKeys(E), "commits": twinSum.Commits, "final_height": twinSum.Height, "crash_points": K})
	}

	// ---- the plans: every effect as a kill point
	var plans []plan
	killable := []effect{}
	for _, e := range E {
		if e.Kind != "close" && e.Kind != "load" {
			killable = append(killable, e)
		}
	}
	for k := 1; k <= K; k++ {
		plans = append(plans, plan{Kills: []kill{{At: k}}, Mode: modeSame})
		plans = append(plans, plan{Kills: []kill{{At: k}}, Mode: modeOther, Cont: uint64(k)})
		if e := killable[k-1]; e.Kind == "flush" && !strings.HasPrefix(e.Key, "flush(0 ") {
			plans = append(plans, plan{Kills: []kill{{At: k, Torn: true, Cut: rng.Uint64()}}, Mode: modeSame})
		}
	}
	// graceful stop + restart at input boundaries (Close flushes what is pending)
	nGr := 4
	if !r.Quick() {
		nGr = 10
	}
	for i := 0; i < nGr && len(script) > 0; i++ {
		j := rng.IntN(len(script) + 1)
		plans = append(plans, plan{Kills: []kill{{Graceful: true, AfterInput: j}}, Mode: modeSame})
		plans = append(plans, plan{Kills: []kill{{Graceful: true, AfterInput: j}}, Mode: modeOther, Cont: uint64(1000 + j)})
	}
	// the commit listener does not complete (returns false / node shut down while it waits):
	// Run returns, Close flushes, restart at the height whose commit did not complete
	nc, ck := 0, []int{}
	for i, e := range killable {
		if e.Kind == "commit" {
			nc++
			ck = append(ck, i+1)
		}
	}
	for j := 1; j <= nc; j++ {
		for _, fm := range []string{failFalse, failCancel} {
			plans = append(plans, plan{Kills: []kill{{FailCommit: j, FailMode: fm}}, Mode: modeSame})
			plans = append(plans, plan{Kills: []kill{{FailCommit: j, FailMode: fm}}, Mode: modeOther, Cont: uint64(2000 + j)})
		}
		// ... and the same when the commit is re-derived during replay after a kill in front of it
		fm := []string{failFalse, failCancel}[j%2]
		plans = append(plans, plan{Kills: []kill{{At: ck[j-1]}, {FailCommit: 1, FailMode: fm}}, Mode: modeSame})
		plans = append(plans, plan{Kills: []kill{{At: ck[j-1]}, {FailCommit: 1, FailMode: fm}}, Mode: modeOther, Cont: uint64(3000 + j)})
	}
	// double crashes: second kill inside the recovery run
	nDouble := 6
	if !r.Quick() {
		nDouble = 20
	}
	type dbl struct{ k1 int }
	var doubles []dbl
	for i := 0; i < nDouble && K > 0; i++ {
		doubles = append(doubles, dbl{1 + rng.IntN(K)})
	}
	dblSeeds := make([]uint64, len(doubles))
	for i := range dblSeeds {
		dblSeeds[i] = rng.Uint64()
	}

	exec := func(p plan) *caseRun {
		c, why := runPlan(cfg, script, p, idx)
		if c == nil {
			r.Inconclusive("harness-tempdir")
			return nil
		}
		if why != "" {
			c.cleanup()
			r.Inconclusive(why)
			r.Note(fmt.Sprintf("case %d %s: %s", idx, p, why))
			return nil
		}
		return c
	}

	evaluate := func(p plan, c *caseRun) {
		defer c.cleanup()
		// determinism of the prefix: the killed first run must have done exactly what the twin did
		first := c.incs[0]
		for i, e := range first.effects {
			if e.Kind == "close" || e.Kind == "commit-failed" {
				break
			}
			if i >= len(E) || E[i].Kind != e.Kind || E[i].Key != e.Key {
				r.Inconclusive("prefix-differs-from-dry-run")
				if os.Getenv("C13_DEBUG") != "" {
					fmt.Printf("PREFIX DIFF case %d %s at %d\n dry: %s\n got: %s\n", idx, p, i, strings.Join(twin.incs[0].trace, "\n   "), strings.Join(first.trace, "\n   "))
				}
				r.Note(fmt.Sprintf("case %d %s: effect %d is %q, dry run had %q", idx, p, i, e.Key, func() string {
					if i < len(E) {
						return E[i].Key
					}
					return "<none>"
				}()))
				return
			}
		}
		// expected log content at each restart = model after the flushes that returned
		// (the model lives in c and was advanced online; recompute per restart from snapshots)
		r.Eval(1)
		fs := checkRun(c, c.expectAt)
		r.Case(fmt.Sprintf("%d/%s/%v", idx, p.String(), len(p.Kills)))
		if kk := p.Kills[0].At; kk > 0 {
			r.Count("crash_points_evaluated", 1)
			r.Count("crash_before:"+killable[kk-1].Kind, 1)
		} else if p.Kills[0].FailCommit > 0 {
			r.Count("failed_commit_stops_evaluated:"+p.Kills[0].FailMode, 1)
		} else {
			r.Count("graceful_restarts_evaluated", 1)
		}
		if len(p.Kills) > 1 && p.Kills[1].FailCommit > 0 {
			r.Count("failed_commit_during_replay_evaluated", 1)
		}
		if len(p.Kills) > 1 && p.Kills[1].At > 0 {
			r.Count("double_crash_runs", 1)
			if c.incs[1].replaying {
				r.Count("second_crash_during_replay", 1)
			}
		}
		if first.tornApplied {
			r.Count("torn_flush_images", 1)
		}
		r.Count("mode:"+p.Mode, 1)
		last := c.incs[len(c.incs)-1]
		r.Count("entries_replayed_after_crash", len(last.replayed))
		if len(last.replayed) > 0 {
			r.Count("recoveries_with_nonempty_log", 1)
		}
		if last.startHeight > cfg.H0 {
			r.Count("recoveries_at_later_height", 1)
		}
		nb := 0
		for _, v := range c.votes {
			if v.Inc > 0 && v.Kind != "proposal" {
				nb++
			}
		}
		r.Count("votes_broadcast_after_recovery", nb)
		if c.dropped > 0 {
			r.Count("precommits_withheld(sync guard)", c.dropped)
		}
		if p.Mode == modeSame && twinComparable(cfg) {
			if c.dropped != twin.dropped {
				r.Count("twin_comparison_skipped(sync guard differed)", 1)
			} else if sum, err := summarise(c); err != nil {
				fs = append(fs, finding{"wal-reopen-failed", "reopening the final log: " + err.Error(), nil})
			} else {
				r.Count("twin_comparisons", 1)
				if diffSeq(twinSum.WAL, sum.WAL) != "" && diffSeq(dedupStarts(twinSum.WAL), dedupStarts(sum.WAL)) == "" {
					r.Count("twin_comparisons_where_logs_differ_only_by_a_repeated_start_record", 1)
				}
				fs = append(fs, compareTwin(twinSum, sum)...)
			}
		}
		report(p, fs, c)
	}

	// inner pool: the runs of one case are independent
	var wg sync.WaitGroup
	ch := make(chan func())
	for w := 0; w < 4; w++ {
		wg.Add(1)
		go func() {
			defer wg.Done()
			for f := range ch {
				func() {
					defer func() {
						if p := recover(); p != nil {
							r.Violation("panic", idx, fmt.Sprintf("panic in harness worker: %v", p), nil)
						}
					}()
					f()
				}()
			}
		}()
	}
	for _, p := range plans {
		ch <- func() {
			if c := exec(p); c != nil {
				evaluate(p, c)
			}
		}
	}
	for i, d := range doubles {
		ch <- func() {
			p1 := plan{Kills: []kill{{At: d.k1}}, Mode: modeSame}
			c := exec(p1)
			if c == nil {
				return
			}
			k2n := c.incs[1].n
			c.cleanup()
			if k2n == 0 {
				return
			}
			p2 := plan{Kills: []kill{{At: d.k1}, {At: 1 + int(dblSeeds[i]%uint64(k2n))}}, Mode: modeSame}
			if c2 := exec(p2); c2 != nil {
				evaluate(p2, c2)
			}
		}
	}
	close(ch)
	wg.Wait()
}

func loadFinal(root string) ([]walItem, error) {
	store, err := openStore(root)
	if err != nil {
		return nil, err
	}
	var out []walItem
	for e, err := range store.LoadAllEntries() {
		if err != nil {
			store.Close()
			return nil, err
		}
		out = append(out, walItem{e.GetHeight(), entryKey(e)})
	}
	return out, store.Close()
}

func TestC13(t *testing.T) {
	r := lib.Start("C13", "fault_enumeration")
	n := r.N(48, 900)
	if d, err := os.MkdirTemp("", "c13-probe-"); err != nil {
		t.Fatalf("no scratch space: %v", err)
	} else {
		os.RemoveAll(d)
	}
	r.Cases(n, 0, func(idx int) { runCase(t, r, idx) })
	r.Assume("the harness plays the three peers, the commit listener (commit completed = OnCommit returned) and picks the restart height = first height + completed commits, as consensus.Init does from the chain height")
	r.Assume("a kill is simulated inside the process: the effect wrapper panics before performing the effect, Close of the dead store is a no-op, the log directory is copied at that instant; nothing is written to the log files outside Flush, so the copy is what a SIGKILL would leave (power-loss reordering of completed fsyncs is not modelled; a torn last batch is)")
	r.Assume("the block fetcher (sync on a future precommit quorum) is not part of the harness: a third identical non-nil precommit for a height the node has not reached is withheld by the peers")
	r.Assume("state-machine pass-through wrapper only observes (ProcessWAL calls, returned actions); Validators/Application are harness objects: 4 validators of power 1")
	r.Finish("case = generated peer script (1-3 heights, failing rounds then a deciding round, early/duplicate/hostile messages) x role {proposer, non-proposer} x application {f(h,r), fresh value per call} x family {1 h timeouts, per-round expiring timeout}; "+
		"dry run numbers the driver's effects (log append/flush/prune, each broadcast, timeout scheduling, commit callback); for EVERY effect k the run is repeated and killed in front of effect k (plus torn-last-batch images for flushes and sampled second kills inside recovery), "+
		"a new driver + state machine start on the crash image and the script continues (same inputs re-delivered / a different continuation); also graceful stop+restart at input boundaries. Oracles: (a) no broadcast/commit while a logged input is unflushed, "+
		"and the input whose processing produced a broadcast/commit is in the flushed log at that moment, "+
		"(b) no two different prevote/precommit ids for one (h,r) across incarnations, (c) log content after restart == entries of flushes that had returned, replay feeds exactly those of uncommitted heights, completed commits contiguous, "+
		"(d) deterministic configurations: distinct broadcasts, commits, height and final log equal a never-crashed twin; distinct = (script, kill plan)", 100)
}

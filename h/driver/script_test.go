package vdriver

import (
	"fmt"
	"math/rand/v2"
	"strings"

	"github.com/NethermindEth/juno/consensus/types"
)

const (
	roleProposer    = "proposer"
	roleNonProposer = "non-proposer"
	appDet          = "deterministic"
	appFresh        = "fresh-value"
	famMessages     = "messages"
	famTimeouts     = "timeouts"

	kProposal  = "proposal"
	kPrevote   = "prevote"
	kPrecommit = "precommit"
)

func splitmix(x uint64) uint64 {
	x += 0x9e3779b97f4a7c15
	x = (x ^ (x >> 30)) * 0xbf58476d1ce4e5b9
	x = (x ^ (x >> 27)) * 0x94d049bb133111eb
	return x ^ (x >> 31)
}

type config struct {
	Role     string
	App      string
	Family   string
	H0       types.Height
	Me       int
	MeRound  types.Round // proposer role: the node proposes at (H0, MeRound)
	PropSeed uint64
	FireSeed uint64
	Addrs    []A `json:"-"`
	// Force overrides fires() for single (height, round)s: the step whose timer expires (255 = none)
	Force map[hr]types.Step `json:"-"`
}

func (c *config) String() string {
	return fmt.Sprintf("role=%s app=%s family=%s h0=%d me=v%d", c.Role, c.App, c.Family, c.H0, c.Me+1)
}

func (c *config) peers() []int {
	var p []int
	for i := 0; i < 4; i++ {
		if i != c.Me {
			p = append(p, i)
		}
	}
	return p
}

func (c *config) proposerIdx(h types.Height, r types.Round) int {
	x := splitmix(c.PropSeed ^ uint64(h)*0x9e3779b1 ^ uint64(r+7)*0x85ebca77)
	if c.Role == roleNonProposer {
		return c.peers()[x%3]
	}
	if h == c.H0 && r == c.MeRound {
		return c.Me
	}
	return int(x % 4)
}

// fires: in the timeouts family at most one step per (height, round) has a timer that
// expires (immediately); every other timer is 1 h. With one expiring step per round the
// outcome does not depend on the order in which simultaneously expired timers reach
// the driver (a timeout only acts in its own height and round).
func (c *config) fires(tm types.Timeout) bool {
	if st, ok := c.Force[hr{tm.Height, tm.Round}]; ok {
		return st == tm.Step
	}
	x := splitmix(c.FireSeed ^ uint64(tm.Height)*0x9e3779b1 ^ uint64(tm.Round+3)*0xc2b2ae35)
	switch x % 4 {
	case 0:
		return false
	case 1:
		return tm.Step == types.StepPropose
	case 2:
		return tm.Step == types.StepPrevote
	default:
		return tm.Step == types.StepPrecommit
	}
}

func peerVal(h types.Height, r types.Round, variant int, invalid bool) uint64 {
	base := uint64(5_000_000)
	if invalid {
		base = 9_000_000
	}
	return base + uint64(h)*1000 + uint64(r)*10 + uint64(variant)
}

func ownDetVal(h types.Height, r types.Round) uint64 { return 7_000_000 + uint64(h)*1000 + uint64(r) }

type valRef struct {
	Nil   bool
	Own   bool // the id of the node's own proposal for (OwnH, OwnR) as first seen on the wire, else Fixed
	OwnH  types.Height
	OwnR  types.Round
	Fixed uint64
}

func (v valRef) String() string {
	switch {
	case v.Nil:
		return "nil"
	case v.Own:
		return fmt.Sprintf("own(%d,%d)", v.OwnH, v.OwnR)
	}
	return fmt.Sprint(v.Fixed)
}

type input struct {
	Kind string
	H    types.Height
	R    types.Round
	From int
	VR   types.Round
	Val  valRef
}

func (in input) String() string {
	if in.Kind == kProposal {
		return fmt.Sprintf("P(h%d r%d v%d vr%d %s)", in.H, in.R, in.From+1, in.VR, in.Val)
	}
	k := "pv"
	if in.Kind == kPrecommit {
		k = "pc"
	}
	return fmt.Sprintf("%s(h%d r%d v%d %s)", k, in.H, in.R, in.From+1, in.Val)
}

func scriptString(s []input) string {
	var b strings.Builder
	for i, in := range s {
		if i > 0 {
			b.WriteByte(' ')
		}
		b.WriteString(in.String())
	}
	return b.String()
}

func pick[T any](rng *rand.Rand, xs ...T) T { return xs[rng.IntN(len(xs))] }

// randomNoise: arbitrary messages around height h (wrong proposers, odd ids, other
// rounds and the next height) - the hostile part of the workload.
func randomNoise(rng *rand.Rand, cfg *config, h types.Height, n int) []input {
	peers := cfg.peers()
	var out []input
	for i := 0; i < n; i++ {
		hh := h
		if rng.IntN(5) == 0 {
			hh = h + 1
		}
		r := types.Round(rng.IntN(3))
		var v valRef
		switch rng.IntN(4) {
		case 0:
			v = valRef{Nil: true}
		case 1:
			v = valRef{Fixed: peerVal(hh, r, 1, false)}
		case 2:
			v = valRef{Own: true, OwnH: hh, OwnR: r, Fixed: peerVal(hh, r, 0, false)}
		default:
			v = valRef{Fixed: peerVal(hh, r, 0, rng.IntN(6) == 0)}
		}
		switch rng.IntN(5) {
		case 0:
			from := cfg.proposerIdx(hh, r)
			if from == cfg.Me || rng.IntN(5) == 0 {
				from = pick(rng, peers...)
			}
			if v.Nil {
				v = valRef{Fixed: peerVal(hh, r, 0, false)}
			}
			out = append(out, input{Kind: kProposal, H: hh, R: r, From: from, VR: types.Round(rng.IntN(int(r)+1) - 1), Val: v})
		case 1, 2:
			out = append(out, input{Kind: kPrevote, H: hh, R: r, From: pick(rng, peers...), Val: v})
		default:
			out = append(out, input{Kind: kPrecommit, H: hh, R: r, From: pick(rng, peers...), Val: v})
		}
	}
	return out
}

// genScript writes the peers' side of nH heights starting at h0 as a "story" (rounds
// that fail in different ways, then a round that decides), shuffled, with early and
// duplicated messages; round changes are forced by the next round's messages (f+1
// rule) so that the story also advances when no timer ever fires.
func genScript(rng *rand.Rand, cfg *config, h0 types.Height, nH int, templates bool) []input {
	peers := cfg.peers()
	var perHeight [][]input
	for hi := 0; hi < nH; hi++ {
		h := h0 + types.Height(hi)
		if templates && rng.IntN(8) == 0 && cfg.proposerIdx(h, 0) != cfg.Me && cfg.proposerIdx(h, 1) != cfg.Me {
			perHeight = append(perHeight, latePolka(cfg, h))
			continue
		}
		nR := pick(rng, 1, 1, 1, 2, 2, 3)
		undecided := hi == nH-1 && rng.IntN(3) == 0
		var polka *valRef
		polkaR := types.Round(-1)
		var rounds [][]input
		for ri := 0; ri < nR; ri++ {
			r := types.Round(ri)
			decide := ri == nR-1 && !undecided
			p := cfg.proposerIdx(h, r)
			var val valRef
			vr := types.Round(-1)
			var msgs []input
			if p == cfg.Me {
				val = valRef{Own: true, OwnH: h, OwnR: r, Fixed: peerVal(h, r, 0, false)}
			} else {
				invalid := !decide && rng.IntN(5) == 0
				if polka != nil && rng.IntN(3) != 0 {
					val, vr = *polka, polkaR
					if rng.IntN(6) == 0 {
						vr = types.Round(rng.IntN(int(r) + 1)) // forged / unsupported valid round
					}
				} else {
					val = valRef{Fixed: peerVal(h, r, 0, invalid)}
				}
				if decide || rng.IntN(5) != 0 {
					msgs = append(msgs, input{Kind: kProposal, H: h, R: r, From: p, VR: vr, Val: val})
				}
			}
			kind := 0
			if !decide {
				kind = 1 + rng.IntN(3)
			}
			other := valRef{Fixed: peerVal(h, r, 1, false)}
			nilv := valRef{Nil: true}
			for pi, pe := range peers {
				var pv valRef
				switch kind {
				case 0:
					pv = val
					if pi == 2 && rng.IntN(6) == 0 {
						pv = nilv
					}
				case 1:
					pv = nilv
				case 2:
					pv = val
				default:
					pv = pick(rng, val, nilv, nilv, other)
				}
				if kind == 0 || rng.IntN(8) != 0 {
					msgs = append(msgs, input{Kind: kPrevote, H: h, R: r, From: pe, Val: pv})
				}
			}
			valPCs := 0
			for _, pe := range peers {
				var pc valRef
				switch kind {
				case 0:
					pc = val
				case 1:
					pc = nilv
				case 2:
					pc = nilv
					if valPCs == 0 && rng.IntN(3) == 0 {
						pc = val
						valPCs++
					}
				default:
					pc = pick(rng, nilv, nilv, val, other)
					if !pc.Nil {
						if valPCs >= 2 {
							pc = nilv
						} else {
							valPCs++
						}
					}
				}
				if kind == 0 || rng.IntN(8) != 0 {
					msgs = append(msgs, input{Kind: kPrecommit, H: h, R: r, From: pe, Val: pc})
				}
			}
			if kind == 2 {
				v := val
				polka, polkaR = &v, r
			}
			// local disorder
			for i := range msgs {
				if rng.IntN(10) < 3 {
					j := i + rng.IntN(len(msgs)-i)
					msgs[i], msgs[j] = msgs[j], msgs[i]
				}
			}
			rounds = append(rounds, msgs)
		}
		// messages of the next round arriving early
		for ri := 1; ri < len(rounds); ri++ {
			for n := rng.IntN(3); n > 0 && len(rounds[ri]) > 1; n-- {
				m := rounds[ri][0]
				rounds[ri] = rounds[ri][1:]
				pos := rng.IntN(len(rounds[ri-1]) + 1)
				rounds[ri-1] = append(rounds[ri-1][:pos], append([]input{m}, rounds[ri-1][pos:]...)...)
			}
		}
		var flat []input
		for _, ms := range rounds {
			flat = append(flat, ms...)
		}
		if rng.IntN(5) == 0 {
			noise := randomNoise(rng, cfg, h, 3+rng.IntN(8))
			for _, m := range noise {
				pos := rng.IntN(len(flat) + 1)
				flat = append(flat[:pos], append([]input{m}, flat[pos:]...)...)
			}
		}
		// duplicates / late re-deliveries
		for n := len(flat) / 8; n > 0; n-- {
			i := rng.IntN(len(flat))
			pos := i + rng.IntN(len(flat)-i) + 1
			flat = append(flat[:pos], append([]input{flat[i]}, flat[pos:]...)...)
		}
		perHeight = append(perHeight, flat)
	}
	// messages of the next height arriving before the node got there (never three
	// precommits: see caseRun.concrete)
	for hi := 1; hi < len(perHeight); hi++ {
		pcs := 0
		for n := rng.IntN(4); n > 0 && len(perHeight[hi]) > 2; n-- {
			i := rng.IntN(min(5, len(perHeight[hi])))
			m := perHeight[hi][i]
			if m.Kind == kPrecommit {
				if pcs >= 2 {
					continue
				}
				pcs++
			}
			perHeight[hi] = append(perHeight[hi][:i:i], perHeight[hi][i+1:]...)
			prev := perHeight[hi-1]
			lo := len(prev) * 2 / 3
			pos := lo + rng.IntN(len(prev)-lo+1)
			perHeight[hi-1] = append(prev[:pos:pos], append([]input{m}, prev[pos:]...)...)
		}
	}
	// the whole deciding material of the next height (proposal, prevotes, two precommits)
	// arriving before the current height is decided: the node then decides the next
	// height inside the very batch that starts it
	for hi := 1; hi < len(perHeight); hi++ {
		if rng.IntN(3) != 0 {
			continue
		}
		h := h0 + types.Height(hi)
		p := cfg.proposerIdx(h, 0)
		if p == cfg.Me {
			continue
		}
		val := valRef{Fixed: peerVal(h, 0, 0, false)}
		early := []input{{Kind: kProposal, H: h, R: 0, From: p, VR: -1, Val: val}}
		for i, pe := range peers {
			early = append(early, input{Kind: kPrevote, H: h, R: 0, From: pe, Val: val})
			if i < 2 {
				early = append(early, input{Kind: kPrecommit, H: h, R: 0, From: pe, Val: val})
			}
		}
		rng.Shuffle(len(early), func(i, j int) { early[i], early[j] = early[j], early[i] })
		prev := perHeight[hi-1]
		pos := 0
		if len(prev) > 0 {
			pos = rng.IntN(len(prev)) // before the last message of the previous height
		}
		perHeight[hi-1] = append(prev[:pos:pos], append(early, prev[pos:]...)...)
	}
	var out []input
	for _, f := range perHeight {
		out = append(out, f...)
	}
	return out
}

// latePolka: round 0 fails with only two prevotes for v (the node's and one peer's);
// round 1 re-proposes v with valid round 0 and gathers two prevotes and two precommits;
// then the third round-0 prevote arrives late. That single round-0 message makes the
// node prevote and precommit v in round 1 - which completes the precommit quorum of
// round 1 while the state machine only looks for a decision in the round of the message
// it just received.
func latePolka(cfg *config, h types.Height) []input {
	pe := cfg.peers()
	a, b, c := pe[0], pe[1], pe[2]
	val := valRef{Fixed: peerVal(h, 0, 0, false)}
	nilv := valRef{Nil: true}
	if cfg.Force == nil {
		cfg.Force = map[hr]types.Step{}
	}
	cfg.Force[hr{h, 0}] = 255
	cfg.Force[hr{h, 1}] = types.StepPrevote
	return []input{
		{Kind: kProposal, H: h, R: 0, From: cfg.proposerIdx(h, 0), VR: -1, Val: val},
		{Kind: kPrevote, H: h, R: 0, From: a, Val: val},
		{Kind: kPrecommit, H: h, R: 0, From: a, Val: nilv},
		{Kind: kPrecommit, H: h, R: 0, From: b, Val: nilv},
		{Kind: kPrecommit, H: h, R: 0, From: c, Val: nilv},
		{Kind: kProposal, H: h, R: 1, From: cfg.proposerIdx(h, 1), VR: 0, Val: val},
		{Kind: kPrevote, H: h, R: 1, From: a, Val: val},
		{Kind: kPrevote, H: h, R: 1, From: b, Val: val},
		{Kind: kPrecommit, H: h, R: 1, From: a, Val: val},
		{Kind: kPrecommit, H: h, R: 1, From: b, Val: val},
		{Kind: kPrevote, H: h, R: 0, From: b, Val: val}, // late
		{Kind: kPrecommit, H: h, R: 1, From: c, Val: val},
		{Kind: kPrevote, H: h, R: 1, From: c, Val: val},
	}
}

package vcrash

import (
	"encoding/json"
	"fmt"
	"hash/fnv"
	"os"
	"os/exec"
	"path/filepath"
	"strings"
	"testing"
	"time"

	"github.com/NethermindEth/juno/db/pebblev2"
	"github.com/NethermindEth/juno/verifh/lib"
	"github.com/NethermindEth/juno/verifh/lib/chain"
)

// The Pebble half of C05: the script is executed by a CHILD PROCESS on a real on-disk
// pebblev2 store and the process really dies (os.Exit(137) from inside the commit hook,
// i.e. right after the k-th committed write has returned - no deferred Close, no flush
// of anything still in memory). The parent then opens the directory with a fresh node
// and applies the same absolute consistency oracle as for the in-memory images.

type pebbleJob struct {
	Idx    int    `json:"idx"`
	Dir    string `json:"dir"`
	KillAt int    `json:"kill_at"` // global index of the committed write after which the process dies; 0 = run to the end
	Out    string `json:"out"`     // the child writes the number of commits it saw here when it runs to the end
}

type prepared struct {
	s        *script
	newState bool
	backend  string
	prefix   int
}

func prepareShort(idx int) (*prepared, error) {
	rng := lib.Rng("C05/script", uint64(idx))
	newState := idx%2 == 1
	nops := 10 + rng.IntN(8)
	s, err := genScript(rng, newState, 0, nops, idx%5 == 2, false)
	if err != nil {
		return nil, err
	}
	return &prepared{s: s, newState: newState, backend: map[bool]string{false: "legacy", true: "new"}[newState]}, nil
}

func TestC05Child(t *testing.T) {
	jp := os.Getenv("VERIF_C05_JOB")
	if jp == "" {
		t.Skip("child only")
	}
	var job pebbleJob
	if err := json.Unmarshal([]byte(jp), &job); err != nil {
		os.Exit(3)
	}
	p, err := prepareShort(job.Idx)
	if err != nil {
		os.Exit(4)
	}
	pdb, err := pebblev2.New(job.Dir)
	if err != nil {
		os.Exit(5)
	}
	rec := chain.NewRecDB(pdb)
	rec.OnCommit = func(i int, _ chain.WriteSet) {
		if job.KillAt > 0 && i == job.KillAt {
			os.Exit(137) // the process dies: nothing after the commit's return is executed
		}
	}
	N := chain.NewNode(rec, p.newState)
	for _, o := range p.s.Ops {
		if err := apply(N, o); err != nil {
			os.Exit(6)
		}
	}
	_ = os.WriteFile(job.Out, []byte(fmt.Sprintf("%d %s", rec.LogLen(), scriptDigest(p.s))), 0o644)
	os.Exit(0) // also without Close: an ungraceful end
}

// scriptDigest identifies the generated script (ops and every block hash): parent and child
// generate it independently from the seed and must arrive at the same one.
func scriptDigest(s *script) string {
	h := fnv.New64a()
	h.Write([]byte(s.opsString()))
	for _, b := range s.All {
		h.Write([]byte(b.Block.Hash.String()))
	}
	return fmt.Sprintf("%016x", h.Sum64())
}

func copyDir(src, dst string) error {
	return filepath.Walk(src, func(p string, info os.FileInfo, err error) error {
		if err != nil {
			return err
		}
		rel, _ := filepath.Rel(src, p)
		if info.IsDir() {
			return os.MkdirAll(filepath.Join(dst, rel), 0o755)
		}
		b, err := os.ReadFile(p)
		if err != nil {
			return err
		}
		return os.WriteFile(filepath.Join(dst, rel), b, 0o644)
	})
}

func runChild(job pebbleJob) (int, error) {
	jb, _ := json.Marshal(job)
	cmd := exec.Command(os.Getenv("VERIF_SELF"), "-test.run", "^TestC05Child$", "-test.timeout", "0")
	cmd.Env = append(os.Environ(), "VERIF_C05_JOB="+string(jb), "GORACE=")
	done := make(chan error, 1)
	if err := cmd.Start(); err != nil {
		return -1, err
	}
	go func() { done <- cmd.Wait() }()
	select {
	case err := <-done:
		if ee, ok := err.(*exec.ExitError); ok {
			return ee.ExitCode(), nil
		}
		if err != nil {
			return -1, err
		}
		return 0, nil
	case <-time.After(10 * time.Minute):
		_ = cmd.Process.Kill()
		return -1, fmt.Errorf("watchdog")
	}
}

// pebblePhase: real process deaths on a real pebble store. base/bound/total are the
// commit-log positions of the reference run (identical code path, in-memory store).
func pebblePhase(r *lib.Run, idx int, p *prepared, bound []int, total int) {
	s := p.s
	root, err := os.MkdirTemp("", "verif-c05-pebble-")
	if err != nil {
		r.Inconclusive("pebble:no-scratch-dir")
		return
	}
	defer os.RemoveAll(root)
	// a full run first: the child must see the same number of commits as the reference run
	full := pebbleJob{Idx: idx, Dir: filepath.Join(root, "full"), Out: filepath.Join(root, "full.out")}
	rc, err := runChild(full)
	if err != nil || rc != 0 {
		r.Inconclusive(fmt.Sprintf("pebble:child-full-run:rc=%d", rc))
		return
	}
	if b, _ := os.ReadFile(full.Out); strings.TrimSpace(string(b)) != fmt.Sprintf("%d %s", total, scriptDigest(s)) {
		r.Inconclusive("pebble:child-script-or-commit-count-differs-from-reference-run")
		r.Note(fmt.Sprintf("case %d: pebble child reports %q, in-memory reference %d %s", idx, string(b), total, scriptDigest(s)))
		return
	}
	// the store the full run left behind (process ended without Close) must describe the final chain
	check := func(dir string, k int, label string) {
		j := -1
		for i := range bound {
			if bound[i] <= k {
				j = i
			}
		}
		chainAt := func(i int) ([]*chain.Blk, *chain.State) {
			if i < 0 {
				return nil, chain.NewState()
			}
			return s.Chains[i], s.States[i]
		}
		midOp := !(j >= 0 && bound[j] == k) && !(j < 0 && k == 0)
		type cand struct {
			c  []*chain.Blk
			st *chain.State
		}
		c0, s0 := chainAt(j)
		cands := []cand{{c0, s0}}
		if midOp && j+1 < len(s.Ops) {
			c1, s1 := chainAt(j + 1)
			cands = append(cands, cand{c1, s1})
		}
		var first []string
		ok := false
		for ci, c := range cands {
			d := dir
			if ci+1 < len(cands) {
				d = dir + ".copy"
				if err := copyDir(dir, d); err != nil {
					r.Inconclusive("pebble:copy-failed")
					return
				}
			}
			pdb, err := pebblev2.New(d)
			if err != nil {
				first = []string{"pebble store does not open after the process died: " + err.Error()}
				break
			}
			F := chain.NewNode(pdb, p.newState)
			bad := consistent(F, c.c, c.st, s.All, lib.Rng("C05/ext", uint64(idx*1000+k)))
			pdb.Close()
			r.Eval(1)
			if len(bad) == 0 {
				ok = true
				break
			}
			if ci == 0 {
				first = bad
			}
		}
		r.Count("pebble."+label, 1)
		if midOp {
			r.Count("pebble.process_deaths_inside_an_operation", 1)
		}
		if !ok {
			opName := "end"
			if j+1 < len(s.Ops) {
				opName = s.Ops[j+1].Kind
			}
			r.Violation(fmt.Sprintf("%s:pebble:crash-image-inconsistent:%s", p.backend, category(first)), idx,
				fmt.Sprintf("%s on pebble: process died right after committed write %d (next op %s); a fresh node on the directory: %s", p.backend, k, opName, first[0]),
				map[string]any{"script": s.opsString(), "k": k, "after_op_index": j, "mid_op": midOp, "discrepancies": first})
		}
	}
	check(full.Dir, total, "stores_checked_after_unclean_exit_at_end")
	// sampled kill points (all of them in the thorough tier)
	rng := lib.Rng("C05/pebble-kill", uint64(idx))
	var ks []int
	for k := 1; k < total; k++ {
		ks = append(ks, k)
	}
	if r.Quick() && len(ks) > 5 {
		rng.Shuffle(len(ks), func(i, j int) { ks[i], ks[j] = ks[j], ks[i] })
		ks = ks[:5]
	}
	for _, k := range ks {
		job := pebbleJob{Idx: idx, Dir: filepath.Join(root, fmt.Sprintf("k%d", k)), KillAt: k}
		rc, err := runChild(job)
		if err != nil || rc != 137 {
			r.Inconclusive(fmt.Sprintf("pebble:child-killed-run:rc=%d", rc))
			continue
		}
		check(job.Dir, k, "process_deaths_checked")
		os.RemoveAll(job.Dir)
		os.RemoveAll(job.Dir + ".copy")
	}
	r.Count("pebble.scripts", 1)
}

package vcrash

import (
	"fmt"
	"math/rand/v2"
	"os"
	"strings"
	"testing"

	"github.com/NethermindEth/juno/core"
	"github.com/NethermindEth/juno/core/crypto"
	"github.com/NethermindEth/juno/core/felt"
	"github.com/NethermindEth/juno/db"
	"github.com/NethermindEth/juno/db/memory"
	"github.com/NethermindEth/juno/db/pebblev2"
	"github.com/NethermindEth/juno/verifh/lib"
	"github.com/NethermindEth/juno/verifh/lib/chain"
)

// addresses events are emitted from (the generator's default contract pool)
var eventAddrs = []uint64{0x100, 0x101, 0x200, 0x201, 0x7fff0, 0x7fff1}

// sop is one scripted operation.
type sop struct {
	Kind string // S store, R revert, L set L1 head, W write filter snapshot, G graceful restart, U ungraceful restart
	Blk  *chain.Blk
	L1   *core.L1Head
	// Fin: the block is appended through the block-producer path (Blockchain.Finalise, as the
	// sequencer / builder does) instead of SanityCheckNewHeight + Store. Finalise is deterministic:
	// given a copy of the block it re-derives roots, commitments and hash and must arrive at the
	// same block.
	Fin bool
}

func (o sop) String() string {
	switch o.Kind {
	case "S":
		if o.Fin {
			return fmt.Sprintf("F%d", o.Blk.Number())
		}
		return fmt.Sprintf("S%d", o.Blk.Number())
	case "L":
		return fmt.Sprintf("L%d", o.L1.BlockNumber)
	}
	return o.Kind
}

type script struct {
	NewState bool
	Prefix   int // blocks stored before the scripted ops (long variant: up to the bloom window edge)
	Ops      []sop
	// canonical chain (and its abstract state) after op i
	Chains [][]*chain.Blk
	States []*chain.State
	All    []*chain.Blk // every block ever generated
}

func (s *script) opsString() string {
	var b []string
	for _, o := range s.Ops {
		b = append(b, o.String())
	}
	return fmt.Sprintf("newState=%v prefix=%d ops=%s", s.NewState, s.Prefix, strings.Join(b, " "))
}

func apply(n *chain.Node, o sop) error {
	switch o.Kind {
	case "S":
		if o.Fin {
			c := chain.CloneBlk(o.Blk)
			if err := n.BC.Finalise(c.Block, c.SU, c.Classes, nil); err != nil {
				return err
			}
			if !c.Block.Hash.Equal(o.Blk.Block.Hash) {
				return fmt.Errorf("harness: Finalise of a copy of block %d produced hash %s, the builder produced %s", o.Blk.Number(), c.Block.Hash, o.Blk.Block.Hash)
			}
			return nil
		}
		return n.StoreBlk(o.Blk)
	case "R":
		return n.BC.RevertHead()
	case "L":
		return n.BC.SetL1Head(o.L1)
	case "W":
		return n.BC.WriteRunningEventFilter()
	case "G":
		return n.Restart(true)
	case "U":
		return n.Restart(false)
	}
	panic("unknown op")
}

// genScript builds a concrete script. prefixLen blocks (empty ones when long) are
// part of Chains[*] but are stored before the scripted ops start.
func genScript(rng *rand.Rand, newState bool, prefixLen, nops int, template, edgeFin bool) (*script, error) {
	opts := chain.Opts{EventRich: true, NoNoopZero: lib.Avoid("noop-zero-write"), SystemOneIn: 3}
	if prefixLen > 0 {
		opts.Versions = []string{"0.14.0", "0.14.1"}
	}
	g := chain.NewGen(rng, opts)
	s := &script{NewState: newState, Prefix: prefixLen}
	cur := &chain.Chain{}
	b := chain.NewBuilder(newState)
	if prefixLen > 0 {
		pg := chain.NewGen(rng, chain.Opts{EmptyProb: 0.995, Versions: []string{"0.14.0"}, MaxTxs: 2})
		if err := pg.Extend(cur, b, prefixLen); err != nil {
			return nil, err
		}
		s.All = append(s.All, cur.Blocks...)
	}
	stale := false
	stash := map[uint64]*chain.Blk{}
	// template (every fifth short script): grow, graceful stop + restart (the running event filter
	// is persisted), a reorg of k blocks right after the restart, regrowth on the other fork to
	// exactly the old height, process death + restart; random operations follow. The fault phase
	// then puts commit / put / read errors into these operations.
	var forced []string
	if template {
		for i := 3 + rng.IntN(3); i > 0; i-- {
			forced = append(forced, "S!")
		}
		forced = append(forced, "G")
		k := 1 + rng.IntN(3)
		for i := 0; i < k; i++ {
			forced = append(forced, "R")
		}
		for i := 0; i < k; i++ {
			forced = append(forced, "S!")
		}
		forced = append(forced, "U")
		nops = max(nops, len(forced)+2)
	}
	for len(s.Ops) < nops {
		var o sop
		x := rng.IntN(100)
		fresh := false
		if len(forced) > 0 {
			switch forced[0] {
			case "S!":
				x, fresh = 0, true
			case "R":
				x = 60
			case "G":
				x = 90
			default:
				x = 99
			}
			forced = forced[1:]
		}
		switch {
		case cur.Len() == prefixLen && prefixLen == 0 || x < 50:
			o.Kind = "S"
			h := uint64(cur.Len())
			if st, ok := stash[h]; ok && !fresh && rng.IntN(3) == 0 && (cur.Len() == 0 || st.Block.ParentHash.Equal(cur.Tip().Block.Hash)) {
				// store again the very block that was reverted
				o.Blk = st
				ns := cur.TipState().Clone()
				ns.Apply(st.Number(), st.Block.ProtocolVersion, st.SU.StateDiff, st.Classes)
				cur.Blocks = append(cur.Blocks, st)
				cur.States = append(cur.States, ns)
				stale = true
			} else {
				if stale {
					var err error
					if b, err = chain.BuilderAt(cur, cur.Len(), newState); err != nil {
						return nil, err
					}
					stale = false
				}
				if err := g.Extend(cur, b, 1); err != nil {
					return nil, err
				}
				o.Blk = cur.Tip()
				s.All = append(s.All, o.Blk)
			}
		case x < 72:
			if cur.Len() <= prefixLen-3 || cur.Len() == 0 {
				continue
			}
			o.Kind = "R"
			stash[uint64(cur.Len()-1)] = cur.Tip()
			cur = cur.Prefix(cur.Len() - 1)
			stale = true
		case x < 80:
			if cur.Len() == 0 {
				continue
			}
			bn := uint64(rng.IntN(cur.Len()))
			o.Kind = "L"
			o.L1 = &core.L1Head{BlockNumber: bn, BlockHash: cur.Blocks[bn].Block.Hash, StateRoot: cur.Blocks[bn].Block.GlobalStateRoot}
		case x < 86:
			o.Kind = "W"
		case x < 93:
			o.Kind = "G"
		default:
			o.Kind = "U"
		}
		if o.Kind == "S" {
			// a quarter of the stores go through the block-producer path (a function of the block, not
			// of the random stream)
			hb := o.Blk.Block.Hash.Bytes()
			o.Fin = hb[31]%4 == 0
			if edgeFin && o.Blk.Number()%core.NumBlocksPerFilter == core.NumBlocksPerFilter-1 {
				o.Fin = true // the block that completes a bloom window, through the block-producer path
			}
		}
		s.Ops = append(s.Ops, o)
		s.Chains = append(s.Chains, append([]*chain.Blk{}, cur.Blocks...))
		s.States = append(s.States, cur.TipState())
	}
	return s, nil
}

// ---------------------------------------------------------------- absolute consistency of one node

// consistent checks that node F describes exactly the chain `want` (state after it:
// st): every block/tx/receipt/lookup of want present, nothing of the other generated
// blocks visible, event index == naive scan, tries commit to the head's state root,
// and the node can take another block. Returns the list of discrepancies.
func consistent(F *chain.Node, want []*chain.Blk, st *chain.State, all []*chain.Blk, extRng *rand.Rand) []string {
	var bad []string
	add := func(f string, a ...any) {
		if len(bad) < 12 {
			bad = append(bad, fmt.Sprintf(f, a...))
		}
	}
	h, err := F.BC.Height()
	if len(want) == 0 {
		if err == nil {
			add("height %d on an empty chain", h)
		}
	} else if err != nil || h != uint64(len(want)-1) {
		add("height=%d err=%v, want %d", h, err, len(want)-1)
		return bad
	}
	canonTx := map[felt.Felt]bool{}
	canonBlk := map[felt.Felt]bool{}
	lo := 0
	if len(want) > 40 {
		lo = len(want) - 40 // long chains: the scripted suffix is what can be damaged
	}
	for _, b := range want {
		canonBlk[*b.Block.Hash] = true
		for _, tx := range b.Block.Transactions {
			canonTx[*tx.Hash()] = true
		}
	}
	for _, b := range want[lo:] {
		n := b.Number()
		got, err := F.BC.BlockByNumber(n)
		if err != nil {
			add("block %d: %v", n, err)
			continue
		}
		if !got.Hash.Equal(b.Block.Hash) {
			add("block %d has hash %s, want %s", n, got.Hash, b.Block.Hash)
			continue
		}
		if len(got.Transactions) != len(b.Block.Transactions) || len(got.Receipts) != len(b.Block.Receipts) {
			add("block %d has %d txs / %d receipts, want %d", n, len(got.Transactions), len(got.Receipts), len(b.Block.Transactions))
		}
		if _, err := F.BC.BlockByHash(b.Block.Hash); err != nil {
			add("block %d by hash: %v", n, err)
		}
		if su, err := F.BC.StateUpdateByNumber(n); err != nil || !su.NewRoot.Equal(b.SU.NewRoot) {
			add("state update %d: %v", n, err)
		}
		if _, err := F.BC.BlockCommitmentsByNumber(n); err != nil {
			add("commitments %d: %v", n, err)
		}
		for i, tx := range b.Block.Transactions {
			if t, err := F.BC.TransactionByHash(tx.Hash()); err != nil || !t.Hash().Equal(tx.Hash()) {
				add("tx %s of block %d by hash: %v", tx.Hash(), n, err)
			}
			bn, ix, err := F.BC.BlockNumberAndIndexByTxHash((*felt.TransactionHash)(tx.Hash()))
			if err != nil || bn != n || ix != uint64(i) {
				add("tx %s locator = (%d,%d,%v), want (%d,%d)", tx.Hash(), bn, ix, err, n, i)
			}
			if rc, _, rbn, err := F.BC.Receipt(tx.Hash()); err != nil || rbn != n || len(rc.Events) != len(b.Block.Receipts[i].Events) {
				add("receipt of %s: %v", tx.Hash(), err)
			}
		}
	}
	for _, b := range all {
		if canonBlk[*b.Block.Hash] {
			continue
		}
		if _, err := F.BC.BlockByHash(b.Block.Hash); err == nil {
			add("non-canonical block %d (%s) is found by hash", b.Number(), b.Block.Hash)
		}
		for _, tx := range b.Block.Transactions {
			if canonTx[*tx.Hash()] {
				continue
			}
			if _, err := F.BC.TransactionByHash(tx.Hash()); err == nil {
				add("transaction %s of non-canonical block %d is found", tx.Hash(), b.Number())
			}
		}
	}
	if got, wantD := chain.EventsDigest(F.BC, nil, nil), chain.NaiveEventsDigest(want); got != wantD && len(want) > 0 {
		add("event query over the chain returns %q, naive scan of the canonical receipts gives %q", got, wantD)
	}
	// address-filtered queries go through the bloom index (an unfiltered query does not)
	if len(want) > 0 {
		for _, a := range eventAddrs {
			a := a
			got := chain.EventsDigest(F.BC, []felt.Address{felt.Address(*chain.F(a))}, nil)
			if wantD := chain.NaiveEventsDigestFrom(want, chain.F(a)); got != wantD {
				add("event query for address 0x%x returns %q, naive scan of the canonical receipts gives %q", a, got, wantD)
			}
		}
	}
	if len(want) > 0 {
		head := want[len(want)-1]
		sr, closer, err := F.BC.HeadState()
		if err != nil {
			add("head state: %v", err)
		} else {
			ct, e1 := sr.ContractTrie()
			clt, e2 := sr.ClassTrie()
			if e1 != nil || e2 != nil {
				add("tries: %v %v", e1, e2)
			} else {
				cr, _ := ct.Hash()
				clr, _ := clt.Hash()
				var root felt.Felt
				switch {
				case cr.IsZero() && clr.IsZero():
				case clr.IsZero() && !chain.VersionAtLeast(head.Block.ProtocolVersion, "0.14.0"):
					root = cr
				default:
					root = crypto.PoseidonElems(felt.NewFromBytes[felt.Felt]([]byte(`STARKNET_STATE_V0`)), &cr, &clr)
				}
				if !root.Equal(head.Block.GlobalStateRoot) {
					add("state tries commit to %s but the head header says %s", &root, head.Block.GlobalStateRoot)
				}
			}
			for a, c := range st.Contracts {
				a := a
				if c.System {
					continue
				}
				if ch, err := sr.ContractClassHash(&a); err != nil || !ch.Equal(&c.Class) {
					add("head class hash of %s = %s/%v, want %s", &a, &ch, err, &c.Class)
				}
				if nv, err := sr.ContractNonce(&a); err != nil || !nv.Equal(&c.Nonce) {
					add("head nonce of %s = %s/%v, want %s", &a, &nv, err, &c.Nonce)
				}
				for k, v := range c.Storage {
					k, v := k, v
					if sv, err := sr.ContractStorage(&a, &k); err != nil || !sv.Equal(&v) {
						add("head storage %s[%s] = %s/%v, want %s", &a, &k, &sv, err, &v)
					}
				}
			}
			closer()
		}
	}
	// the node must be able to take another block (exercises the event index insert path)
	if extRng != nil && len(bad) == 0 {
		g := chain.NewGen(extRng, chain.Opts{EventRich: true, Versions: []string{"0.14.1"}, NoClasses: true, NoMigration: true})
		var tip *chain.Blk
		if len(want) > 0 {
			tip = want[len(want)-1]
		}
		d := g.Next(tip, st)
		if err := F.BC.Finalise(d.Block, d.SU, d.Classes, nil); err != nil {
			add("cannot extend the chain after restart: %v", err)
		} else {
			ext := append(append([]*chain.Blk{}, want...), &chain.Blk{Block: d.Block, SU: d.SU})
			if got, wantD := chain.EventsDigest(F.BC, nil, nil), chain.NaiveEventsDigest(ext); got != wantD {
				add("after one more block the event query returns %q, naive scan gives %q", got, wantD)
			}
			for _, a := range eventAddrs {
				got := chain.EventsDigest(F.BC, []felt.Address{felt.Address(*chain.F(a))}, nil)
				if wantD := chain.NaiveEventsDigestFrom(ext, chain.F(a)); got != wantD {
					add("after one more block the event query for address 0x%x returns %q, naive scan gives %q", a, got, wantD)
				}
			}
		}
	}
	return bad
}

func category(msgs []string) string {
	if len(msgs) == 0 {
		return ""
	}
	m := msgs[0]
	switch {
	case strings.Contains(m, "event query"):
		return "event-index"
	case strings.Contains(m, "cannot extend"):
		return "cannot-extend"
	case strings.Contains(m, "non-canonical"):
		return "stale-lookup"
	case strings.Contains(m, "state tries") || strings.HasPrefix(m, "head "):
		return "state"
	case strings.HasPrefix(m, "height"):
		return "height"
	}
	return "block-data"
}

// ---------------------------------------------------------------- one case

func runCase(r *lib.Run, idx int, long bool) {
	stream := "C05/script"
	if long {
		stream = "C05/long"
	}
	rng := lib.Rng(stream, uint64(idx))
	newState := idx%2 == 1
	backend := map[bool]string{false: "legacy", true: "new"}[newState]
	prefix, nops := 0, 10+rng.IntN(8)
	if long {
		prefix = int(core.NumBlocksPerFilter) - 1 - rng.IntN(3) // 8189..8191 blocks: ops straddle the window edge
		nops = 14
	}
	s, err := genScript(rng, newState, prefix, nops, !long && idx%5 == 2, long && idx%4 >= 2)
	if err != nil {
		r.Violation("generator:"+backend, idx, err.Error(), nil)
		return
	}
	prefixBlocks := s.All[:prefix]

	// ---- phase 0: reference run on a recording store, no faults
	rec0 := chain.NewRecDB(memory.New())
	N0 := chain.NewNode(rec0, newState)
	for _, b := range prefixBlocks {
		if err := N0.StoreBlk(b); err != nil {
			r.Violation("generator:"+backend, idx, "prefix: "+err.Error(), nil)
			return
		}
	}
	base := rec0.LogLen()
	bound := make([]int, len(s.Ops))
	type cnt struct{ commits, puts, reads int }
	counts := make([]cnt, len(s.Ops))
	for i, o := range s.Ops {
		rec0.Arm(0, 0, 0)
		if err := apply(N0, o); err != nil {
			r.Violation(backend+":op-fails-without-fault:"+o.Kind, idx, fmt.Sprintf("%s fails with no fault injected: %v", o, err), s.opsString())
			return
		}
		c, p, rd := rec0.Counters()
		counts[i] = cnt{c, p, rd}
		bound[i] = rec0.LogLen()
		r.Count("ops:"+o.Kind, 1)
	}

	// ---- phase 1: crash after every committed write
	total := rec0.LogLen()
	for k := base; k <= total; k++ {
		j := -1 // last op whose commits are all <= k
		for i := range bound {
			if bound[i] <= k {
				j = i
			}
		}
		cands := [][2]any{}
		chainAt := func(i int) ([]*chain.Blk, *chain.State) {
			if i < 0 {
				st := chain.NewState()
				if prefix > 0 {
					st = stateOfPrefix(prefixBlocks)
				}
				return prefixBlocks, st
			}
			return s.Chains[i], s.States[i]
		}
		midOp := !(j >= 0 && bound[j] == k) && !(j < 0 && k == base)
		c0, s0 := chainAt(j)
		cands = append(cands, [2]any{c0, s0})
		if midOp && j+1 < len(s.Ops) {
			c1, s1 := chainAt(j + 1)
			cands = append(cands, [2]any{c1, s1})
		}
		var first []string
		ok := false
		for ci, c := range cands {
			F := chain.NewNode(rec0.Image(k), newState)
			bad := consistent(F, c[0].([]*chain.Blk), c[1].(*chain.State), s.All[prefix:], lib.Rng("C05/ext", uint64(idx*1000+k)))
			r.Eval(1)
			if len(bad) == 0 {
				ok = true
				break
			}
			if ci == 0 {
				first = bad
			}
		}
		r.Count("crash_images_checked", 1)
		if midOp {
			r.Count("crash_images_inside_an_operation", 1)
		}
		if !ok {
			opName := "start"
			if j+1 < len(s.Ops) {
				opName = s.Ops[min(j+1, len(s.Ops)-1)].Kind
			}
			lastKinds := ""
			for i := max(0, j-3); i <= j && i >= 0; i++ {
				lastKinds += s.Ops[i].Kind
			}
			r.Violation(fmt.Sprintf("%s:crash-image-inconsistent:%s", backend, category(first)), idx,
				fmt.Sprintf("%s: restart on the image after committed write %d (after ops ..%s, next %s): %s", backend, k, lastKinds, opName, first[0]),
				map[string]any{"script": s.opsString(), "k": k, "after_op_index": j, "mid_op": midOp, "discrepancies": first})
			break
		}
	}

	// ---- phase 1c: EVERY fault position of single operations (every k-th point read, batch put and
	// commit of an operation started on a fresh node over the image before it). An operation that
	// reports failure must have left the database as it was, byte for byte; one that tolerates the
	// fault must leave what the fault-free run leaves - judged by the probes when the bytes differ.
	if !long && (idx%4 == 0 || idx%4 == 3 || !r.Quick()) && !r.Race { // both backends (odd idx: new state)
		enumerateFaults(r, idx, s, rec0, base, bound, newState, backend)
	}

	// ---- phase 1b: the same on a real pebble store with real process deaths (every 4th short script)
	onPebble := !long && idx%4 == 2 && !r.Race
	if onPebble {
		pebblePhase(r, idx, &prepared{s: s, newState: newState, backend: backend}, bound, total)
	}

	// ---- phase 2: injected write/commit/read errors on a live node vs a live twin
	var inner db.KeyValueStore = memory.New()
	if onPebble {
		dir, err := os.MkdirTemp("", "verif-c05-live-")
		if err != nil {
			r.Inconclusive("pebble:no-scratch-dir")
			return
		}
		defer os.RemoveAll(dir)
		pdb, err := pebblev2.New(dir)
		if err != nil {
			r.Inconclusive("pebble:open")
			return
		}
		defer pdb.Close()
		inner = pdb
		r.Count("pebble.live_fault_scripts", 1)
	}
	rec := chain.NewRecDB(inner)
	N := chain.NewNode(rec, newState)
	T := chain.NewMemNode(newState)
	ps := chain.NewProbeSet()
	for _, b := range s.All[max(0, prefix-6):] {
		ps.AddBlock(b)
	}
	if long {
		ps.MinNumber = uint64(max(0, prefix-6))
		ps.SkipState = true // historical state over 8k blocks is C03's business; keep the long case fast
	}
	for _, b := range prefixBlocks {
		if N.StoreBlk(b) != nil || T.StoreBlk(b) != nil {
			return
		}
	}
	probeEq := func(when string, i int, fault string) bool {
		on, ot := chain.Probe(N.BC, ps), chain.Probe(T.BC, ps)
		r.Eval(len(on))
		d := chain.Diff(on, ot, 8)
		if len(d) == 0 {
			return true
		}
		cat := "other"
		switch {
		case strings.HasPrefix(d[0], "events/"):
			cat = "event-query"
		case strings.HasPrefix(d[0], "state/"):
			cat = "state"
		case strings.HasPrefix(d[0], "height") || strings.HasPrefix(d[0], "head"):
			cat = "head"
		}
		r.Violation(fmt.Sprintf("%s:live-node-diverges:%s:%s:%s:%s", backend, when, s.Ops[i].Kind, fault, cat), idx,
			fmt.Sprintf("%s: %s of %s (%s fault): live node answers differently from the twin that never saw the fault: %s", backend, when, s.Ops[i], fault, d[0]),
			map[string]any{"script": s.opsString(), "op_index": i, "fault": fault, "differences(node vs twin)": d})
		return false
	}
	faultedBefore := false
	for i, o := range s.Ops {
		fault, fc, fp, fr := "none", 0, 0, 0
		c := counts[i]
		if i > 0 && o.Kind == "R" && s.Ops[i-1].Kind == "G" && c.commits > 0 && rng.IntN(2) == 0 {
			// the first revert after a graceful restart does not commit
			fault, fc = "commit", 1+rng.IntN(c.commits)
		} else if o.Kind != "U" && rng.IntN(10) < 7 {
			switch x := rng.IntN(10); {
			case x < 5 && c.commits > 0:
				fault, fc = "commit", 1+rng.IntN(c.commits)
			case x < 8 && c.puts > 0:
				fault, fp = "put", 1+rng.IntN(c.puts)
			case c.reads > 0:
				fault, fr = "read", 1+rng.IntN(c.reads)
			}
		}
		rec.Arm(fc, fp, fr)
		err := apply(N, o)
		fired := rec.Fired
		rec.Arm(0, 0, 0)
		if !fired {
			if err != nil {
				r.Violation(backend+":op-fails-without-fault:"+o.Kind, idx, fmt.Sprintf("%s fails although no fault fired: %v", o, err), s.opsString())
				return
			}
			if e := apply(T, o); e != nil {
				return
			}
			// a restart re-derives every in-memory structure from disk: whatever an earlier failed
			// and retried operation left behind on disk shows now
			if (o.Kind == "G" || o.Kind == "U") && faultedBefore {
				r.Count("restarts_probed_after_an_earlier_fault", 1)
				if !probeEq("after-restart-following-an-earlier-fault", i, "none") {
					return
				}
			}
			continue
		}
		faultedBefore = true
		r.Count("faults_fired:"+o.Kind+":"+fault, 1)
		if err == nil {
			// the operation tolerated the fault: it must then have taken full effect
			r.Count("faults_tolerated:"+o.Kind+":"+fault, 1)
			if e := apply(T, o); e != nil {
				return
			}
			if !probeEq("after-tolerated-fault", i, fault) {
				return
			}
			continue
		}
		// the operation reported failure: the live node must look as if it was never attempted
		if !probeEq("after-failed-op", i, fault) {
			return
		}
		// A refused block is not the only possible successor: before the retry, half of the failed
		// stores of short scripts are followed by a DIFFERENT valid block at the same height (another
		// fork's block, different content touching the same small set of contracts), stored and
		// reverted again on both nodes - whatever the failed attempt left in memory must not leak
		// into it.
		if o.Kind == "S" && !long && rng.IntN(2) == 0 {
			var parent []*chain.Blk
			pst := chain.NewState()
			if i > 0 {
				parent, pst = s.Chains[i-1], s.States[i-1]
			} else if len(prefixBlocks) > 0 {
				parent, pst = prefixBlocks, stateOfPrefix(prefixBlocks)
			}
			if uint64(len(parent)) == o.Blk.Number() {
				pc := &chain.Chain{Blocks: append([]*chain.Blk{}, parent...)}
				for range parent {
					pc.States = append(pc.States, pst)
				}
				if sb, err := chain.BuilderAt(pc, len(parent), newState); err == nil {
					sg := chain.NewGen(lib.Rng("C05/sibling", uint64(idx)*1000+uint64(i)), chain.Opts{EventRich: true, NoNoopZero: lib.Avoid("noop-zero-write"), SystemOneIn: 3,
						Versions: []string{o.Blk.Block.ProtocolVersion}})
					if sg.Extend(pc, sb, 1) == nil {
						sib := pc.Tip()
						ps.AddBlock(sib)
						r.Count("sibling_blocks_stored_after_a_failed_store", 1)
						if err := N.StoreBlk(sib); err != nil {
							r.Violation(fmt.Sprintf("%s:other-valid-block-refused-after-failed-store:%s", backend, fault), idx,
								fmt.Sprintf("%s: %s failed once with an injected %s error; a different valid block at the same height is then refused: %v", backend, o, fault, err),
								map[string]any{"script": s.opsString(), "op_index": i, "fault": fault, "error": err.Error()})
							return
						}
						if T.StoreBlk(sib) != nil {
							return
						}
						if !probeEq("after-a-different-block-followed-a-failed-store", i, fault) {
							return
						}
						if err := N.BC.RevertHead(); err != nil {
							r.Violation(fmt.Sprintf("%s:revert-fails-after-failed-store-and-other-block:%s", backend, fault), idx, err.Error(), map[string]any{"script": s.opsString(), "op_index": i})
							return
						}
						if T.BC.RevertHead() != nil {
							return
						}
					}
				}
			}
		}
		// ... and the same operation must then succeed
		if err := apply(N, o); err != nil {
			r.Violation(fmt.Sprintf("%s:retry-fails-after-failed-op:%s:%s", backend, o.Kind, fault), idx,
				fmt.Sprintf("%s: %s failed once with an injected %s error; the retry is refused: %v", backend, o, fault, err),
				map[string]any{"script": s.opsString(), "op_index": i, "fault": fault, "retry_error": err.Error()})
			return
		}
		if e := apply(T, o); e != nil {
			return
		}
		if !probeEq("after-retry", i, fault) {
			return
		}
	}
	// ... and once more at the end of the script, after an ungraceful restart of both nodes
	if faultedBefore {
		if N.Restart(false) == nil && T.Restart(false) == nil {
			r.Count("restarts_probed_after_an_earlier_fault", 1)
			if !probeEq("after-final-ungraceful-restart", len(s.Ops)-1, "none") {
				return
			}
		}
	}
	r.Count("scripts", 1)
	finalTip := "empty"
	if fc := s.Chains[len(s.Chains)-1]; len(fc) > 0 {
		finalTip = fc[len(fc)-1].Block.Hash.String()
	}
	r.Case(fmt.Sprintf("%s-%s", s.opsString(), finalTip))
	if idx < 2 || long {
		r.Sample(map[string]any{"case": idx, "long": long, "script": s.opsString(), "commits_logged": total - base, "crash_images": total - base + 1})
	}
}

func enumerateFaults(r *lib.Run, idx int, s *script, rec0 *chain.RecDB, base int, bound []int, newState bool, backend string) {
	ps := chain.NewProbeSet()
	for _, b := range s.All {
		ps.AddBlock(b)
	}
	for i, o := range s.Ops {
		if o.Kind != "S" && o.Kind != "R" {
			continue
		}
		k0 := base
		if i > 0 {
			k0 = bound[i-1]
		}
		preDump := chain.Dump(rec0.Image(k0))
		afterImg := rec0.Image(bound[i])
		afterDump := chain.Dump(afterImg)
		var afterObs chain.Obs
		// positions: counted on a fresh node over the pre-image (a live node has warm caches)
		dry := chain.NewRecDB(rec0.Image(k0))
		dn := chain.NewNode(dry, newState)
		dry.Arm(0, 0, 0)
		if err := apply(dn, o); err != nil {
			r.Violation(backend+":op-fails-on-restarted-node-without-fault:"+o.Kind, idx, fmt.Sprintf("%s on a node restarted before it: %v", o, err), s.opsString())
			return
		}
		nc, np, nr := dry.Counters()
		for _, f := range []struct {
			name string
			n    int
		}{{"commit", nc}, {"put", np}, {"read", nr}} {
			for k := 1; k <= f.n; k++ {
				img := rec0.Image(k0)
				rk := chain.NewRecDB(img)
				node := chain.NewNode(rk, newState)
				switch f.name {
				case "commit":
					rk.Arm(k, 0, 0)
				case "put":
					rk.Arm(0, k, 0)
				default:
					rk.Arm(0, 0, k)
				}
				err := apply(node, o)
				fired := rk.Fired
				rk.Arm(0, 0, 0)
				r.Eval(1)
				if !fired {
					r.Count("enumerated.fault_position_not_reached", 1)
					continue
				}
				r.Count("enumerated.faults:"+o.Kind+":"+f.name, 1)
				got := chain.Dump(img)
				wit := func(extra map[string]any) map[string]any {
					m := map[string]any{"script": s.opsString(), "op_index": i, "op": o.String(), "fault": f.name, "position": k, "positions": f.n, "op_error": fmt.Sprint(err)}
					for a, b := range extra {
						m[a] = b
					}
					return m
				}
				if err != nil {
					r.Count("enumerated.failed_ops_checked_for_leftovers", 1)
					if !chain.DumpEqual(got, preDump) {
						r.Violation(fmt.Sprintf("%s:failed-op-left-something-behind:%s:%s", backend, o.Kind, f.name), idx,
							fmt.Sprintf("%s: %s failed with an injected %s error at position %d of %d (%v) but the database is not what it was before: %s", backend, o, f.name, k, f.n, err, dumpDiff(preDump, got)),
							wit(map[string]any{"database_difference(before vs after the failed op)": dumpDiff(preDump, got)}))
						return
					}
					continue
				}
				r.Count("enumerated.tolerated_faults", 1)
				if chain.DumpEqual(got, afterDump) {
					continue
				}
				// bytes differ: is it observable?
				if afterObs == nil {
					afterObs = chain.Probe(chain.NewNode(afterImg, newState).BC, ps)
				}
				d := chain.Diff(chain.Probe(chain.NewNode(img, newState).BC, ps), afterObs, 8)
				if len(d) == 0 {
					r.Count("enumerated.tolerated_faults_with_different_bytes_but_same_answers", 1)
					continue
				}
				r.Violation(fmt.Sprintf("%s:op-tolerates-fault-with-wrong-result:%s:%s", backend, o.Kind, f.name), idx,
					fmt.Sprintf("%s: %s reported success although an injected %s error hit position %d of %d; the node then answers differently from one that never saw the fault: %s", backend, o, f.name, k, f.n, d[0]),
					wit(map[string]any{"differences(node vs fault-free)": d, "database_difference": dumpDiff(afterDump, got)}))
				return
			}
		}
	}
	r.Count("enumerated.scripts", 1)
}

// dumpDiff: first differing key of two sorted dumps.
func dumpDiff(a, b []chain.KVPair) string {
	am := map[string]string{}
	for _, kv := range a {
		am[string(kv.K)] = string(kv.V)
	}
	for _, kv := range b {
		v, ok := am[string(kv.K)]
		switch {
		case !ok:
			return fmt.Sprintf("key %x (bucket %d, %d bytes) is new", kv.K, kv.K[0], len(kv.V))
		case v != string(kv.V):
			return fmt.Sprintf("key %x (bucket %d) changed", kv.K, kv.K[0])
		}
		delete(am, string(kv.K))
	}
	for k := range am {
		return fmt.Sprintf("key %x (bucket %d) is gone", []byte(k), k[0])
	}
	return "none"
}

func stateOfPrefix(blocks []*chain.Blk) *chain.State {
	st := chain.NewState()
	for _, b := range blocks {
		st.Apply(b.Number(), b.Block.ProtocolVersion, b.SU.StateDiff, b.Classes)
	}
	return st
}

func TestC05(t *testing.T) {
	r := lib.Start("C05", "fault_enumeration")
	n := r.N(32, 800)
	r.Cases(n, 0, func(idx int) { runCase(r, idx, false) })
	nl := 4 // legacy / new state x window-completing block through Store / through Finalise
	if !r.Quick() {
		nl = 12
	}
	if r.Race {
		nl = 0
	}
	if nl > 0 {
		r.Cases(nl, 0, func(idx int) { runCase(r, idx, true) })
	}
	r.Assume("crash = the durable state is exactly the first k committed write-sets (batch commit is atomic; this is the contract of db.Batch, checked for the backends by C15)")
	r.Assume("in-memory backend for the exhaustive enumeration; every 4th short script additionally runs on an on-disk pebblev2 store: a child process executes it and dies (os.Exit inside the commit hook, no Close) after sampled committed writes (all of them in the thorough tier), the parent reopens the directory; the live-fault phase of those scripts also runs on pebble. A process death leaves the page cache intact: loss of unsynced data on power failure is not observable this way")
	r.Assume("pruning interruptions are enumerated by C16 with its own oracle")
	r.Finish("case = script of 10-18 ops over {store, revert, re-store a reverted block, set L1 head, persist event-filter snapshot, graceful / ungraceful restart} on each state backend (plus long scripts that straddle the 8192-block bloom-window edge); "+
		"phase 1 enumerates EVERY committed write k: a fresh node on the image after k must describe exactly the chain before or after the in-flight op (blocks, txs, receipts, lookups, no stale lookups of other blocks, event query == naive scan, tries commit to the head root, model state) and accept another block; "+
		"phase 2 injects a failing commit / batch put / read into ops of a live node: a failed op must leave the live node observationally equal (exhaustive probe incl. event queries) to a twin that never attempted it, and the retry must succeed; distinct = distinct (script, final hash)", 15)
}

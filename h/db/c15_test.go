package vdb

import (
	"os"
	"path/filepath"
	"testing"
	"time"

	"github.com/NethermindEth/juno/verifh/lib"
)

const ruleText = "sequential: case = generated call sequence (25-65 calls + wind-down) over keys from bytes {00,01,7f,fe,ff} of length 0-4 (pool with extensions/prefixes/siblings), applied call by call to db/memory, db/pebblev2, db/pebble and a map model: " +
	"store Put/Delete/DeleteRange/Get/Has/iterators/snapshots, Batch and IndexedBatch (incl. WithSize, db.SyncBatch, db.BufferBatch wrappers), Update/Write helpers with failing callbacks, failing Get callbacks, use after Write/Close, pebble memtable flushes; " +
	"every return value (found/value/error class, iterator Valid/Key/Value/UncopiedValue after every positioning call, batch Size) compared; a backend is dropped from a sequence at its first divergence; divergences are classed by which known deviation model reproduces the observed result. " +
	"concurrent: per backend 1 writer (direct writes, batches, helpers, aborted batches) + 3 readers (Get/Has/indexed-batch Get/snapshots/iterators), per-key porcupine register check + admissible-write check + whole-batch-or-nothing check of every snapshot/iterator view + db.SyncBatch shared by 3 goroutines; race binary runs the same. " +
	"distinct = distinct call-kind sequences with at least one write and one compared read, plus concurrent histories in which readers saw >= 5 distinct values"

// sweepStale removes scratch stores left behind by an earlier run of this check that was
// killed or died with a runtime fatal error (housekeeping only; age-based so that a
// concurrently running instance is not disturbed).
func sweepStale() {
	for _, base := range []string{"/dev/shm", os.TempDir()} {
		dirs, _ := filepath.Glob(filepath.Join(base, "verif-c15-*"))
		for _, d := range dirs {
			if fi, err := os.Stat(d); err == nil && time.Since(fi.ModTime()) > 3*time.Hour {
				os.RemoveAll(d)
			}
		}
	}
}

func TestC15(t *testing.T) {
	sweepStale()
	r := lib.Start("C15", "exploration")
	col := newCollector()
	raceBuild = r.Race

	nSeq := r.N(3000, 100000)
	r.Cases(nSeq, 0, func(idx int) {
		runSequence(r, col, idx)
	})

	// Phase 1 result is written out before the concurrent phase starts: a backend that
	// breaks its locking can die with a Go runtime fatal error ("concurrent map read and
	// map write"), which no recover() can turn into a violation; the run is then reported
	// as broken, but with everything the sequential phase found.
	col.report(r)
	finish := func() {
		r.Assume("the reference model (Go map; batch = ordered op list applied at Write; snapshot/iterator = copy at creation; NewIterator(prefix, withUpperBound) = lower bound prefix, upper bound = successor prefix only when requested) is the intended contract; where Juno's backends disagree with each other the model follows Pebble, the production backend")
		r.Assume("iterator calls outside the documented contract are not generated: Next/Prev on an iterator invalidated by Prev-at-first, Prev after Next was called on an exhausted iterator, Key/Value on an invalid iterator, any use after Close; stores are not used after Close except to check that calls fail")
		r.Assume("concurrent part: one writer; the logical clock is an atomic counter read before and after every call; iterators and snapshots are treated as point-in-time views taken during NewIterator/NewSnapshot")
		r.Assume("pebble memtable flushes are forced through Impl() in a third of the sequences of the plain binary only, and those sequences never use the empty key (pebble v2.1.6 panics on a background goroutine when flushing a memtable whose only user key is empty; under the race build tag pebble v2 runs in its internal invariants test mode, where forced flushes gave wrong reads)")
		r.Finish(ruleText, 100)
	}
	finish()

	// concurrent histories use case indices above the sequences' (one index space for --replay)
	nConc := r.N(96, 1600)
	r.Cases(nSeq+nConc, 5, func(idx int) {
		if idx < nSeq {
			return
		}
		for _, b := range backendNames {
			runConcurrent(r, col, idx, b)
		}
	})

	col.report(r)
	finish()
}

package vdb

import (
	"errors"
	"fmt"
	"math/rand/v2"
	"os"
	"regexp"
	"runtime/debug"
	"sort"
	"strconv"
	"strings"
	"sync"

	"github.com/NethermindEth/juno/db"
	"github.com/NethermindEth/juno/db/memory"
	"github.com/NethermindEth/juno/db/pebble"
	"github.com/NethermindEth/juno/db/pebblev2"
	"github.com/NethermindEth/juno/verifh/lib"
	pebblelib1 "github.com/cockroachdb/pebble"
	pebblelib2 "github.com/cockroachdb/pebble/v2"
)

// ---------------------------------------------------------------- operations

type op struct {
	Obj  string // store | batch | snap | iter
	ID   int    // object index (creation order)
	Kind string
	K    string // key / prefix / range start (raw bytes)
	V    string // value
	E    string // range end
	UB   bool   // withUpperBound
	N    int    // batch constructor 0..3 / size hint
	Wrap int    // 0 none, 1 SyncBatch, 2 BufferBatch
	Fail bool   // helper callback returns an error
	Boom bool   // helper callback panics after its writes (the caller recovers): nothing may be applied
	Sub  []op   // operations done inside the Update/Write callback
}

func (o op) String() string {
	tgt := o.Obj
	if o.Obj != "store" {
		tgt += strconv.Itoa(o.ID)
	}
	switch o.Kind {
	case "put":
		return fmt.Sprintf("%s.Put(%x,%x)", tgt, o.K, o.V)
	case "del":
		return fmt.Sprintf("%s.Delete(%x)", tgt, o.K)
	case "delrange":
		return fmt.Sprintf("%s.DeleteRange(%x,%x)", tgt, o.K, o.E)
	case "get":
		return fmt.Sprintf("%s.Get(%x)", tgt, o.K)
	case "getcberr":
		return fmt.Sprintf("%s.Get(%x, failing callback)", tgt, o.K)
	case "has":
		return fmt.Sprintf("%s.Has(%x)", tgt, o.K)
	case "iter":
		return fmt.Sprintf("%s.NewIterator(%x,%v)", tgt, o.K, o.UB)
	case "scan":
		return fmt.Sprintf("%s.NewIterator(%x,%v) First/Next.. to end", tgt, o.K, o.UB)
	case "rscan":
		return fmt.Sprintf("%s.NewIterator(%x,%v) Seek(ffffffffff)/Prev.. to start", tgt, o.K, o.UB)
	case "seek":
		return fmt.Sprintf("%s.Seek(%x)", tgt, o.K)
	case "batch":
		ctor := []string{"NewBatch()", "NewBatchWithSize(" + strconv.Itoa(o.N*16) + ")", "NewIndexedBatch()", "NewIndexedBatchWithSize(" + strconv.Itoa(o.N*16) + ")"}[o.N]
		return []string{"", "db.NewSyncBatch ", "db.NewBufferBatch "}[o.Wrap] + tgt + "." + ctor
	case "update", "write":
		if o.Obj != "store" {
			break
		}
		var subs []string
		for _, s := range o.Sub {
			subs = append(subs, s.String())
		}
		name := map[string]string{"update": "Update", "write": "Write"}[o.Kind]
		return fmt.Sprintf("%s.%s(func{%s; return fail=%v panic=%v})", tgt, name, strings.Join(subs, "; "), o.Fail, o.Boom)
	}
	return tgt + "." + o.Kind + "()"
}

// ---------------------------------------------------------------- generator

var alphabet = []byte{0x00, 0x01, 0x7f, 0xfe, 0xff}

type gen struct {
	rng   *rand.Rand
	pool  []string
	nval  int
	steer map[string]bool // shapes this sequence steers around (open known findings)
	// flushy sequences force pebble memtable flushes (through Impl(), not part of Juno's
	// interface) and in exchange never use the empty key: pebble v2.1.6 panics on a
	// background goroutine when it flushes a memtable whose only user key is empty.
	// Not done in the race binary: the race build tag switches pebble v2 into its internal
	// "invariants" test mode, in which reads after a forced flush were seen to resurrect
	// range-deleted keys (gone when that mode is compiled out, race detector still on).
	flushy bool
}

func (g *gen) abyte() byte {
	if g.rng.IntN(10) < 3 {
		return 0xff
	}
	return alphabet[g.rng.IntN(len(alphabet))]
}

func (g *gen) rawKey(maxLen int) string {
	var l int
	switch x := g.rng.IntN(100); {
	case x < 6:
		l = 0
	case x < 30:
		l = 1
	case x < 65:
		l = 2
	case x < 90:
		l = 3
	default:
		l = 4
	}
	l = min(l, maxLen)
	if g.flushy && l == 0 {
		l = 1
	}
	b := make([]byte, l)
	for i := range b {
		b[i] = g.abyte()
	}
	return string(b)
}

func (g *gen) mkPool() {
	n := 5 + g.rng.IntN(7)
	for len(g.pool) < n {
		var k string
		if len(g.pool) > 0 && g.rng.IntN(10) < 6 {
			base := g.pool[g.rng.IntN(len(g.pool))]
			switch g.rng.IntN(3) {
			case 0: // a key extending another key
				if len(base) < 4 {
					k = base + string([]byte{g.abyte()})
				} else {
					k = base[:3]
				}
			case 1: // a proper prefix of another key
				if len(base) > 0 {
					k = base[:g.rng.IntN(len(base))]
				}
				if g.flushy && k == "" {
					continue
				}
			default: // sibling: same prefix, different last byte
				if len(base) > 0 {
					k = base[:len(base)-1] + string([]byte{g.abyte()})
				} else {
					k = string([]byte{g.abyte()})
				}
			}
		} else {
			k = g.rawKey(4)
		}
		g.pool = append(g.pool, k)
	}
}

func (g *gen) key() string {
	if g.rng.IntN(10) < 8 {
		return g.pool[g.rng.IntN(len(g.pool))]
	}
	return g.rawKey(4)
}

func (g *gen) val() string {
	g.nval++
	if g.rng.IntN(12) == 0 {
		return ""
	}
	v := []byte{0xa0 + byte(g.nval>>8), byte(g.nval)}
	if g.rng.IntN(4) == 0 {
		v = append(v, g.abyte())
	}
	return string(v)
}

func (g *gen) prefix() string {
	switch x := g.rng.IntN(100); {
	case x < 12:
		return ""
	case x < 24:
		return strings.Repeat("\xff", 1+g.rng.IntN(2))
	case x < 75:
		k := g.pool[g.rng.IntN(len(g.pool))]
		return k[:g.rng.IntN(len(k)+1)]
	default:
		return g.rawKey(2)
	}
}

// iterator parameters, honouring the steering tags
func (g *gen) iterParams() (string, bool) {
	p := g.prefix()
	ub := g.rng.IntN(3) != 0
	if !ub && p != "" && g.steer["iter-no-upper-bound"] {
		ub = true
	}
	if _, has := modelUpper(p); ub && !has && g.steer["iter-unbounded-prefix"] {
		ub = false
	}
	return p, ub
}

func (g *gen) rangeBounds() (string, string) {
	x := g.rng.IntN(100)
	switch {
	case x < 45: // exactly the keys under a prefix
		p := g.prefix()
		if u, ok := modelUpper(p); ok {
			return p, u
		}
		return p, "\xff\xff\xff\xff\xff"
	case x < 85:
		a, b := g.key(), g.key()
		if a > b {
			a, b = b, a
		}
		if g.rng.IntN(4) == 0 {
			b += "\x00" // make the end key itself part of the range
		}
		return a, b
	case x < 90:
		k := g.key()
		return k, k // empty range
	case x < 95:
		return g.key(), "" // empty end
	default:
		a, b := g.key(), g.key()
		if a < b {
			a, b = b, a
		}
		return a, b // inverted: deletes nothing
	}
}

func (g *gen) subOps(indexed bool) []op {
	n := 1 + g.rng.IntN(5)
	var out []op
	for i := 0; i < n; i++ {
		x := g.rng.IntN(100)
		switch {
		case x < 40:
			out = append(out, op{Obj: "cb", Kind: "put", K: g.key(), V: g.val()})
		case x < 55:
			out = append(out, op{Obj: "cb", Kind: "del", K: g.key()})
		case x < 65:
			s, e := g.rangeBounds()
			out = append(out, op{Obj: "cb", Kind: "delrange", K: s, E: e})
		case x < 70:
			out = append(out, op{Obj: "cb", Kind: "size"})
		default:
			if !indexed {
				out = append(out, op{Obj: "cb", Kind: "put", K: g.key(), V: g.val()})
				continue
			}
			switch g.rng.IntN(4) {
			case 0:
				out = append(out, op{Obj: "cb", Kind: "get", K: g.key()})
			case 1:
				out = append(out, op{Obj: "cb", Kind: "has", K: g.key()})
			case 2:
				out = append(out, op{Obj: "cb", Kind: "getcberr", K: g.key()})
			default:
				p, ub := g.iterParams()
				out = append(out, op{Obj: "cb", Kind: "scan", K: p, UB: ub})
			}
		}
	}
	return out
}

const (
	maxBatches = 3
	maxSnaps   = 2
	maxIters   = 3
)

func liveBatches(m *mdl) (live, finished []int) {
	for i, b := range m.batches {
		if b.done {
			if b.wrap != 2 {
				finished = append(finished, i)
			}
		} else {
			live = append(live, i)
		}
	}
	return
}

func liveSnaps(m *mdl) (live []int) {
	for i, s := range m.snaps {
		if !s.done {
			live = append(live, i)
		}
	}
	return
}

func liveIters(m *mdl) (live []int) {
	for i, it := range m.iters {
		if !it.done {
			live = append(live, i)
		}
	}
	return
}

func childIters(m *mdl, parent string, id int) (out []int) {
	for i, it := range m.iters {
		if !it.done && it.parent == parent && it.parentID == id {
			out = append(out, i)
		}
	}
	return
}

// pendingRangeBatch: is there an open batch (other than `except`) holding a DeleteRange?
func pendingRangeBatch(m *mdl, except int) bool {
	for i, b := range m.batches {
		if i != except && !b.done && b.hasRange {
			return true
		}
	}
	return false
}

// next returns the next operations (usually one; closing an object first closes the
// iterators that depend on it). Decisions only look at the reference model.
func (g *gen) next(m *mdl) []op {
	rng := g.rng
	lb, fb := liveBatches(m)
	ls := liveSnaps(m)
	li := liveIters(m)
	readKind := func() string {
		switch x := rng.IntN(10); {
		case x < 5:
			return "get"
		case x < 9:
			return "has"
		default:
			return "getcberr"
		}
	}
	for {
		switch x := rng.IntN(100); {
		case x < 30: // store, direct
			noWrite := g.steer["batch-deleterange-then-store-write"] && pendingRangeBatch(m, -1)
			y := rng.IntN(100)
			switch {
			case y < 30:
				if noWrite {
					continue
				}
				return []op{{Obj: "store", Kind: "put", K: g.key(), V: g.val()}}
			case y < 42:
				if noWrite {
					continue
				}
				return []op{{Obj: "store", Kind: "del", K: g.key()}}
			case y < 52:
				if noWrite {
					continue
				}
				s, e := g.rangeBounds()
				return []op{{Obj: "store", Kind: "delrange", K: s, E: e}}
			case y < 74:
				return []op{{Obj: "store", Kind: readKind(), K: g.key()}}
			case y < 82:
				p, ub := g.iterParams()
				return []op{{Obj: "store", Kind: []string{"scan", "rscan"}[rng.IntN(2)], K: p, UB: ub}}
			case y < 90:
				if noWrite {
					continue
				}
				indexed := rng.IntN(2) == 0
				kind := "write"
				if indexed {
					kind = "update"
				}
				o := op{Obj: "store", Kind: kind, Sub: g.subOps(indexed), Fail: rng.IntN(3) == 0}
				if !o.Fail && rng.IntN(6) == 0 {
					o.Boom = true
				}
				return []op{o}
			case y < 96:
				if !g.flushy {
					continue
				}
				return []op{{Obj: "store", Kind: "flush"}}
			default:
				continue
			}
		case x < 62: // batches
			if len(lb) == 0 || (len(lb) < maxBatches && rng.IntN(6) == 0) {
				n := rng.IntN(4)
				wrap := 0
				if n >= 2 {
					switch rng.IntN(6) {
					case 0:
						wrap = 1
					case 1:
						wrap = 2
					}
				}
				return []op{{Obj: "store", Kind: "batch", N: n, Wrap: wrap}}
			}
			if len(fb) > 0 && rng.IntN(25) == 0 { // use after Write/Close must fail
				id := fb[rng.IntN(len(fb))]
				kinds := []string{"put", "del", "delrange", "write", "close"}
				if m.batches[id].indexed() {
					kinds = append(kinds, "get", "has")
				}
				return []op{{Obj: "batch", ID: id, Kind: kinds[rng.IntN(len(kinds))], K: g.key(), V: "x", E: "\xff"}}
			}
			id := lb[rng.IntN(len(lb))]
			b := m.batches[id]
			y := rng.IntN(100)
			// steering: no commit and no second range delete while another open batch holds a DeleteRange
			otherRange := g.steer["batch-deleterange-then-store-write"] && pendingRangeBatch(m, id)
			if b.wrap == 2 { // BufferBatch: Put, Delete, Get, Flush, Write, Close
				switch {
				case y < 40:
					v := g.val()
					if v == "" && g.steer["bufferbatch-put-empty-value"] {
						v = "\xa0"
					}
					return []op{{Obj: "batch", ID: id, Kind: "put", K: g.key(), V: v}}
				case y < 55:
					return []op{{Obj: "batch", ID: id, Kind: "del", K: g.key()}}
				case y < 78:
					return []op{{Obj: "batch", ID: id, Kind: []string{"get", "get", "getcberr"}[rng.IntN(3)], K: g.key()}}
				case y < 85:
					return []op{{Obj: "batch", ID: id, Kind: "bufflush"}}
				case y < 96:
					if otherRange {
						continue
					}
					return []op{{Obj: "batch", ID: id, Kind: "write"}}
				default:
					return []op{{Obj: "batch", ID: id, Kind: "close"}}
				}
			}
			switch {
			case y < 34:
				return []op{{Obj: "batch", ID: id, Kind: "put", K: g.key(), V: g.val()}}
			case y < 46:
				return []op{{Obj: "batch", ID: id, Kind: "del", K: g.key()}}
			case y < 56:
				if otherRange {
					continue
				}
				s, e := g.rangeBounds()
				return []op{{Obj: "batch", ID: id, Kind: "delrange", K: s, E: e}}
			case y < 61:
				return []op{{Obj: "batch", ID: id, Kind: "size"}}
			case y < 88:
				if !b.indexed() {
					continue
				}
				switch z := rng.IntN(10); {
				case z < 6:
					return []op{{Obj: "batch", ID: id, Kind: readKind(), K: g.key()}}
				case z < 8:
					p, ub := g.iterParams()
					return []op{{Obj: "batch", ID: id, Kind: []string{"scan", "rscan"}[rng.IntN(2)], K: p, UB: ub}}
				default:
					if len(li) >= maxIters {
						continue
					}
					p, ub := g.iterParams()
					return []op{{Obj: "batch", ID: id, Kind: "iter", K: p, UB: ub}}
				}
			default:
				var ops []op
				for _, it := range childIters(m, "batch", id) {
					ops = append(ops, op{Obj: "iter", ID: it, Kind: "close"})
				}
				kind := "write"
				if rng.IntN(5) == 0 || otherRange {
					kind = "close"
				}
				return append(ops, op{Obj: "batch", ID: id, Kind: kind})
			}
		case x < 77: // snapshots
			if len(ls) == 0 || (len(ls) < maxSnaps && rng.IntN(5) == 0) {
				return []op{{Obj: "store", Kind: "snap"}}
			}
			id := ls[rng.IntN(len(ls))]
			y := rng.IntN(100)
			switch {
			case y < 55:
				k := g.key()
				kind := readKind()
				_, present := m.snaps[id].data[k]
				if kind == "has" && !present && g.steer["snapshot-has-missing-key"] {
					kind = "get"
				}
				if kind == "getcberr" && present && g.steer["snapshot-get-failing-callback"] {
					kind = "get"
				}
				return []op{{Obj: "snap", ID: id, Kind: kind, K: k}}
			case y < 70:
				p, ub := g.iterParams()
				return []op{{Obj: "snap", ID: id, Kind: []string{"scan", "rscan"}[rng.IntN(2)], K: p, UB: ub}}
			case y < 85:
				if len(li) >= maxIters {
					continue
				}
				p, ub := g.iterParams()
				return []op{{Obj: "snap", ID: id, Kind: "iter", K: p, UB: ub}}
			default:
				var ops []op
				for _, it := range childIters(m, "snap", id) {
					ops = append(ops, op{Obj: "iter", ID: it, Kind: "close"})
				}
				return append(ops, op{Obj: "snap", ID: id, Kind: "close"})
			}
		default: // iterators
			if len(li) == 0 || (len(li) < maxIters && rng.IntN(8) == 0) {
				p, ub := g.iterParams()
				return []op{{Obj: "store", Kind: "iter", K: p, UB: ub}}
			}
			id := li[rng.IntN(len(li))]
			it := m.iters[id]
			if rng.IntN(12) == 0 {
				return []op{{Obj: "iter", ID: id, Kind: "close"}}
			}
			allowed := it.inContract()
			// bias towards stepping once positioned
			kind := allowed[rng.IntN(len(allowed))]
			if it.st == stAt && rng.IntN(2) == 0 {
				kind = []string{"next", "prev"}[rng.IntN(2)]
			}
			o := op{Obj: "iter", ID: id, Kind: kind}
			if kind == "seek" {
				switch rng.IntN(4) {
				case 0:
					o.K = g.rawKey(4)
				case 1:
					o.K = "\xff\xff\xff\xff\xff"
				default:
					o.K = g.key()
				}
			}
			return []op{o}
		}
	}
}

// ---------------------------------------------------------------- the real backends

var errCb = errors.New("harness callback error")

var errBoom = errors.New("harness callback panic")

// guardBoom runs a helper call whose callback may panic with errBoom (an aborted caller: the
// helper must not have applied anything); any other panic is passed on.
func guardBoom(f func() error) (err error, boom bool) {
	defer func() {
		if p := recover(); p != nil {
			if p == error(errBoom) {
				boom = true
				return
			}
			panic(p)
		}
	}()
	return f(), false
}

func errClass(err error) string {
	switch {
	case err == nil:
		return "ok"
	case errors.Is(err, db.ErrKeyNotFound):
		return "notfound"
	case errors.Is(err, errCb):
		return "cberr"
	default:
		return "err"
	}
}

type rBatch struct {
	w        db.Batch
	r        db.KeyValueReader // nil for write-only batches
	buf      *db.BufferBatch
	done     bool
	lastSize int
}

type real struct {
	name    string
	dir     string
	store   db.KeyValueStore
	closed  bool
	batches []*rBatch
	snaps   []db.Snapshot
	iters   []db.Iterator
	lastErr string // text of the last unexpected error, for the witness
	nilEmpty bool  // pass empty keys / prefixes as nil instead of []byte{}
}

type nopLogger struct{}

func (nopLogger) Infof(string, ...any)  {}
func (nopLogger) Errorf(string, ...any) {}
func (nopLogger) Fatalf(f string, a ...any) {
	panic(fmt.Sprintf("pebble fatal: "+f, a...))
}

var backendNames = []string{"memory", "pebblev2", "pebble"}

func openBackend(name string) (*real, error) {
	r := &real{name: name}
	if name == "memory" {
		r.store = memory.New()
		return r, nil
	}
	// pebble commits with Sync=true; on the shared disk thousands of tiny fsyncs make the
	// wall time depend on what the other checks are doing, so the scratch stores go to
	// tmpfs when there is one (TMPDIR, if set, wins).
	base := ""
	if os.Getenv("TMPDIR") == "" {
		if fi, err := os.Stat("/dev/shm"); err == nil && fi.IsDir() {
			base = "/dev/shm"
		}
	}
	dir, err := os.MkdirTemp(base, "verif-c15-"+name+"-")
	if err != nil && base != "" {
		dir, err = os.MkdirTemp("", "verif-c15-"+name+"-")
	}
	if err != nil {
		return nil, err
	}
	r.dir = dir
	if name == "pebblev2" {
		r.store, err = pebblev2.New(dir, func(o *pebblelib2.Options) error { o.Logger = nopLogger{}; return nil })
	} else {
		r.store, err = pebble.New(dir, func(o *pebblelib1.Options) error { o.Logger = nopLogger{}; return nil })
	}
	if err != nil {
		os.RemoveAll(dir)
		return nil, err
	}
	return r, nil
}

// raceBuild is set by TestC15. Under the race build tag pebble v2 enables its internal
// test invariants, one of which (testingDisableSeekOpt) indexes key[0] of a non-nil empty
// key and panics; that is test-only code of the library, so the race binary passes empty
// keys/prefixes as nil. The plain binary uses nil in even cases and []byte{} in odd ones.
var raceBuild bool

func (r *real) bs(s string) []byte {
	if s == "" && (raceBuild || r.nilEmpty) {
		return nil
	}
	return []byte(s)
}

func quiet(f func()) {
	defer func() { _ = recover() }()
	f()
}

// cleanup closes whatever is still open (also after a divergence) and removes the dir.
func (r *real) cleanup() {
	for _, it := range r.iters {
		if it != nil {
			quiet(func() { it.Close() })
		}
	}
	for _, b := range r.batches {
		if b != nil && !b.done {
			quiet(func() {
				if b.buf != nil {
					b.buf.Close()
				} else {
					b.w.Close()
				}
			})
		}
	}
	for _, s := range r.snaps {
		if s != nil {
			quiet(func() { s.Close() })
		}
	}
	if !r.closed {
		quiet(func() { r.store.Close() })
	}
	if r.dir != "" {
		os.RemoveAll(r.dir)
	}
}

func (r *real) note(err error) {
	if err != nil {
		r.lastErr = err.Error()
	}
}

// heldIter keeps every slice Key() and Value() handed out, together with a copy taken at
// that moment. Only UncopiedValue is documented as invalidated by the next positioning call;
// keys and values a caller keeps (as db/typed/prefix and others do) must stay what they were.
type heldIter struct {
	db.Iterator
	held []heldSlice
}

type heldSlice struct {
	what      string
	got, copy []byte
}

func (h *heldIter) Key() []byte {
	k := h.Iterator.Key()
	if k != nil {
		h.held = append(h.held, heldSlice{"Key", k, append([]byte{}, k...)})
	}
	return k
}

func (h *heldIter) Value() ([]byte, error) {
	v, err := h.Iterator.Value()
	if err == nil && v != nil {
		h.held = append(h.held, heldSlice{"Value", v, append([]byte{}, v...)})
	}
	return v, err
}

// stale reports the first retained slice whose bytes have changed since it was returned.
func (h *heldIter) stale() string {
	for _, s := range h.held {
		if string(s.got) != string(s.copy) {
			return fmt.Sprintf("slice-returned-by-%s-changed-after-later-positioning(%x->%x)", s.what, s.copy, s.got)
		}
	}
	if len(h.held) > 64 {
		h.held = h.held[len(h.held)-64:]
	}
	return ""
}

func iterRes(it db.Iterator, ret bool) string {
	if h, ok := it.(*heldIter); ok {
		if s := h.stale(); s != "" {
			return s
		}
	}
	valid := it.Valid()
	if ret != valid {
		return fmt.Sprintf("inconsistent: call returned %v but Valid()=%v", ret, valid)
	}
	if !valid {
		return "invalid"
	}
	k := it.Key()
	v, err := it.Value()
	if err != nil {
		return "at " + fmt.Sprintf("%x", k) + " value-error"
	}
	u, err := it.UncopiedValue()
	if err != nil || string(u) != string(v) {
		return "at " + fmt.Sprintf("%x=%x", k, v) + " but UncopiedValue differs"
	}
	return fmt.Sprintf("at %x=%x", k, v)
}

func realGet(r *real, rd db.KeyValueReader, k string, fail bool) string {
	note := r.note
	calls := 0
	var got []byte
	err := rd.Get(r.bs(k), func(v []byte) error {
		calls++
		got = append([]byte{}, v...)
		if fail {
			return errCb
		}
		return nil
	})
	c := errClass(err)
	if c == "err" {
		note(err)
	}
	if c == "ok" {
		if calls != 1 {
			return fmt.Sprintf("ok-but-callback-called-%d-times", calls)
		}
		return fmt.Sprintf("val=%x", got)
	}
	if c == "notfound" && calls != 0 {
		return "notfound-but-callback-called"
	}
	return c
}

func realHas(r *real, rd db.KeyValueReader, k string) string {
	note := r.note
	ok, err := rd.Has(r.bs(k))
	if err != nil {
		note(err)
		return "err"
	}
	return fmt.Sprintf("has=%v", ok)
}

func realScan(r *real, rd db.KeyValueReader, prefix string, ub, reverse bool) string {
	note := r.note
	it0, err := rd.NewIterator(r.bs(prefix), ub)
	if err != nil {
		note(err)
		return "err"
	}
	it := &heldIter{Iterator: it0}
	var sb strings.Builder
	sb.WriteString("[")
	emit := func() {
		v, err := it.Value()
		if err != nil {
			sb.WriteString(fmt.Sprintf("%x=value-error ", it.Key()))
			return
		}
		sb.WriteString(fmt.Sprintf("%x=%x ", it.Key(), v))
	}
	steps := 0
	if !reverse {
		for ok := it.First(); ok; ok = it.Next() {
			emit()
			if steps++; steps > 5000 {
				sb.WriteString("...does-not-terminate")
				break
			}
		}
	} else {
		ok := it.Seek([]byte("\xff\xff\xff\xff\xff"))
		if !ok {
			ok = it.Prev()
		}
		for ; ok; ok = it.Prev() {
			emit()
			if steps++; steps > 5000 {
				sb.WriteString("...does-not-terminate")
				break
			}
		}
	}
	sb.WriteString("]")
	if st := it.stale(); st != "" {
		sb.WriteString(" " + st)
	}
	if err := it.Close(); err != nil {
		note(err)
		return sb.String() + " close-error"
	}
	return sb.String()
}

func (r *real) batchOp(b *rBatch, o *op) string {
	if b.buf != nil {
		switch o.Kind {
		case "put":
			return errClass(b.buf.Put(r.bs(o.K), r.bs(o.V)))
		case "del":
			return errClass(b.buf.Delete(r.bs(o.K)))
		case "get", "getcberr":
			return realGet(r, b.buf, o.K, o.Kind == "getcberr")
		case "bufflush":
			return errClass(b.buf.Flush())
		case "write":
			b.done = true
			return errClass(b.buf.Write())
		case "close":
			b.done = true
			return errClass(b.buf.Close())
		}
		panic("harness: bad BufferBatch op " + o.Kind)
	}
	ec := func(err error) string {
		c := errClass(err)
		if c == "err" {
			r.note(err)
		}
		return c
	}
	switch o.Kind {
	case "put":
		return ec(b.w.Put(r.bs(o.K), r.bs(o.V)))
	case "del":
		return ec(b.w.Delete(r.bs(o.K)))
	case "delrange":
		return ec(b.w.DeleteRange(r.bs(o.K), r.bs(o.E)))
	case "size":
		s := b.w.Size()
		if s < b.lastSize {
			return fmt.Sprintf("size-decreased-from-%d-to-%d", b.lastSize, s)
		}
		b.lastSize = s
		return "size=" + strconv.Itoa(s)
	case "get", "getcberr":
		return realGet(r, b.r, o.K, o.Kind == "getcberr")
	case "has":
		return realHas(r, b.r, o.K)
	case "scan", "rscan":
		return realScan(r, b.r, o.K, o.UB, o.Kind == "rscan")
	case "write":
		b.done = true
		return ec(b.w.Write())
	case "close":
		b.done = true
		return ec(b.w.Close())
	}
	panic("harness: bad batch op " + o.Kind)
}

func (r *real) do(o *op) (res string) {
	defer func() {
		if p := recover(); p != nil {
			res = fmt.Sprintf("panic: %v", p)
			r.lastErr = string(debug.Stack())
		}
	}()
	st := r.store
	ec := func(err error) string {
		c := errClass(err)
		if c == "err" {
			r.note(err)
		}
		return c
	}
	switch o.Obj {
	case "store":
		switch o.Kind {
		case "put":
			return ec(st.Put(r.bs(o.K), r.bs(o.V)))
		case "del":
			return ec(st.Delete(r.bs(o.K)))
		case "delrange":
			return ec(st.DeleteRange(r.bs(o.K), r.bs(o.E)))
		case "get", "getcberr":
			return realGet(r, st, o.K, o.Kind == "getcberr")
		case "has":
			return realHas(r, st, o.K)
		case "scan", "rscan":
			return realScan(r, st, o.K, o.UB, o.Kind == "rscan")
		case "flush":
			if f, ok := st.Impl().(interface{ Flush() error }); ok {
				return ec(f.Flush())
			}
			return "ok"
		case "iter":
			it, err := st.NewIterator(r.bs(o.K), o.UB)
			if err != nil {
				r.iters = append(r.iters, nil)
				return ec(err)
			}
			r.iters = append(r.iters, &heldIter{Iterator: it})
			return "ok"
		case "snap":
			r.snaps = append(r.snaps, st.NewSnapshot())
			return "ok"
		case "batch":
			b := &rBatch{}
			switch o.N {
			case 0:
				b.w = st.NewBatch()
			case 1:
				b.w = st.NewBatchWithSize(o.N * 16)
			case 2, 3:
				var ib db.IndexedBatch
				if o.N == 2 {
					ib = st.NewIndexedBatch()
				} else {
					ib = st.NewIndexedBatchWithSize(o.N * 16)
				}
				switch o.Wrap {
				case 1:
					ib = db.NewSyncBatch(ib)
				case 2:
					b.buf = db.NewBufferBatch(ib)
				}
				b.w, b.r = ib, ib
			}
			r.batches = append(r.batches, b)
			return "ok"
		case "update":
			var sb strings.Builder
			err, boom := guardBoom(func() error {
				return st.Update(func(ib db.IndexedBatch) error {
					b := &rBatch{w: ib, r: ib}
					for i := range o.Sub {
						sb.WriteString(r.batchOp(b, &o.Sub[i]) + ";")
					}
					if o.Boom {
						panic(errBoom)
					}
					if o.Fail {
						return errCb
					}
					return nil
				})
			})
			if boom {
				return sb.String() + "ret=panic"
			}
			return sb.String() + "ret=" + ec(err)
		case "write":
			var sb strings.Builder
			err, boom := guardBoom(func() error {
				return st.Write(func(wb db.Batch) error {
					b := &rBatch{w: wb}
					for i := range o.Sub {
						sb.WriteString(r.batchOp(b, &o.Sub[i]) + ";")
					}
					if o.Boom {
						panic(errBoom)
					}
					if o.Fail {
						return errCb
					}
					return nil
				})
			})
			if boom {
				return sb.String() + "ret=panic"
			}
			return sb.String() + "ret=" + ec(err)
		case "close":
			r.closed = true
			return ec(st.Close())
		}
	case "batch":
		b := r.batches[o.ID]
		if o.Kind == "iter" {
			it, err := b.r.NewIterator(r.bs(o.K), o.UB)
			if err != nil {
				r.iters = append(r.iters, nil)
				return ec(err)
			}
			r.iters = append(r.iters, &heldIter{Iterator: it})
			return "ok"
		}
		return r.batchOp(b, o)
	case "snap":
		s := r.snaps[o.ID]
		switch o.Kind {
		case "get", "getcberr":
			return realGet(r, s, o.K, o.Kind == "getcberr")
		case "has":
			return realHas(r, s, o.K)
		case "scan", "rscan":
			return realScan(r, s, o.K, o.UB, o.Kind == "rscan")
		case "iter":
			it, err := s.NewIterator(r.bs(o.K), o.UB)
			if err != nil {
				r.iters = append(r.iters, nil)
				return ec(err)
			}
			r.iters = append(r.iters, &heldIter{Iterator: it})
			return "ok"
		case "close":
			r.snaps[o.ID] = nil
			return ec(s.Close())
		}
	case "iter":
		it := r.iters[o.ID]
		switch o.Kind {
		case "first":
			return iterRes(it, it.First())
		case "seek":
			return iterRes(it, it.Seek(r.bs(o.K)))
		case "next":
			return iterRes(it, it.Next())
		case "prev":
			return iterRes(it, it.Prev())
		case "close":
			r.iters[o.ID] = nil
			return ec(it.Close())
		}
	}
	panic("harness: bad op " + o.Obj + "." + o.Kind)
}

// ---------------------------------------------------------------- comparison

func match(want, got string) bool {
	if want == got {
		return true
	}
	// helper results: compare part by part (sizes may be lower bounds)
	if strings.Contains(want, ";") || strings.HasPrefix(want, "size>=") {
		wp, gp := strings.Split(want, ";"), strings.Split(got, ";")
		if len(wp) != len(gp) {
			return false
		}
		for i := range wp {
			if wp[i] == gp[i] {
				continue
			}
			if strings.HasPrefix(wp[i], "size>=") && strings.HasPrefix(gp[i], "size=") {
				w, _ := strconv.Atoi(wp[i][6:])
				g, err := strconv.Atoi(gp[i][5:])
				if err == nil && g >= w {
					continue
				}
			}
			return false
		}
		return true
	}
	return false
}

var hexRun = regexp.MustCompile(`[0-9a-f]*=[0-9a-f]*`)

// shape strips the concrete bytes out of a result so that it can be part of a class.
func shape(res string) string {
	switch {
	case strings.HasPrefix(res, "has="):
		return res[4:]
	case strings.HasPrefix(res, "val="):
		return "value"
	case strings.HasPrefix(res, "at ") && !strings.Contains(res, " but ") && !strings.Contains(res, "value-error"):
		return "entry"
	case strings.HasPrefix(res, "["):
		return "list"
	case strings.HasPrefix(res, "panic"):
		return "panic"
	case strings.HasPrefix(res, "size=") || strings.HasPrefix(res, "size>="):
		return "size"
	case strings.Contains(res, ";"):
		parts := strings.Split(res, ";")
		return "helper-" + parts[len(parts)-1]
	}
	if len(res) > 40 {
		res = res[:40]
	}
	return strings.ReplaceAll(hexRun.ReplaceAllString(res, "kv"), " ", "-")
}

type divergence struct {
	Class    string   `json:"class"`
	Backend  string   `json:"backend"`
	Case     int      `json:"case"`
	Step     int      `json:"step"`
	Call     string   `json:"call"`
	Expected string   `json:"expected_by_model"`
	Observed string   `json:"observed"`
	ErrText  string   `json:"error_text,omitempty"`
	Others   []string `json:"other_backends_at_this_call"`
	Script   []string `json:"calls_so_far"`
}

type collector struct {
	mu   sync.Mutex
	divs map[string][]divergence
	cnt  map[string]int
}

func newCollector() *collector {
	return &collector{divs: map[string][]divergence{}, cnt: map[string]int{}}
}

const keepPerClass = 3

func (c *collector) add(d divergence) {
	c.mu.Lock()
	defer c.mu.Unlock()
	c.cnt[d.Class]++
	l := append(c.divs[d.Class], d)
	sort.Slice(l, func(i, j int) bool { return l[i].Case < l[j].Case })
	if len(l) > keepPerClass {
		l = l[:keepPerClass]
	}
	c.divs[d.Class] = l
}

// report turns the collected divergences into violations: the keepPerClass lowest
// case indices of every class (deterministic), the rest only counted.
func (c *collector) report(r *lib.Run) {
	c.mu.Lock()
	defer func() { // reporting is done per phase
		c.divs, c.cnt = map[string][]divergence{}, map[string]int{}
		c.mu.Unlock()
	}()
	classes := make([]string, 0, len(c.divs))
	for k := range c.divs {
		classes = append(classes, k)
	}
	sort.Strings(classes)
	for _, cl := range classes {
		r.Count("divergent_sequences["+cl+"]", c.cnt[cl])
		for _, d := range c.divs[cl] {
			r.Violation(cl, d.Case, fmt.Sprintf("%s: call #%d %s: model expects %q, %s returned %q (%d sequences of this run diverge this way)",
				d.Backend, d.Step, d.Call, d.Expected, d.Backend, d.Observed, c.cnt[cl]), d)
		}
	}
}

func classify(o *op, backend, want, got string, variantRes map[int]string, snapCbErr bool) string {
	if o.Obj == "snap" && o.Kind == "has" && want == "has=false" && got == "err" {
		return "snapshot-has-missing-key:" + backend
	}
	if o.Obj == "store" && o.Kind == "close" && want == "ok" && snapCbErr {
		// the only thing left open when the store is closed is whatever a Snapshot.Get
		// whose callback returned an error did not release
		return "store-close-fails-after-snapshot-get-with-failing-callback:" + backend
	}
	order := variantOrder
	if backend != "memory" {
		// db.BufferBatch is the only deviation model that is backend independent; when
		// several single deviations reproduce the observation, it names a pebble divergence
		order = append([]int{fBufNilPut}, variantOrder...)
	}
	for _, f := range order {
		if vr, ok := variantRes[f]; ok && match(vr, got) {
			return variantName(f) + ":" + backend
		}
	}
	if strings.HasPrefix(want, "[") && strings.HasPrefix(got, "[") && strings.HasSuffix(got, "]") {
		ws, gs := map[string]bool{}, map[string]bool{}
		for _, e := range strings.Fields(strings.Trim(want, "[]")) {
			ws[e] = true
		}
		missing, extra := 0, 0
		for _, e := range strings.Fields(strings.Trim(got, "[]")) {
			gs[e] = true
			if !ws[e] {
				extra++
			}
		}
		for e := range ws {
			if !gs[e] {
				missing++
			}
		}
		how := "wrong-order"
		switch {
		case missing > 0 && extra > 0:
			how = "different-entries"
		case missing > 0:
			how = "entries-missing"
		case extra > 0:
			how = "extra-entries"
		}
		return fmt.Sprintf("%s.%s:%s:%s", o.Obj, o.Kind, how, backend)
	}
	if len(o.Sub) > 0 { // helper: name the first part that differs
		wp, gp := strings.Split(want, ";"), strings.Split(got, ";")
		for i := 0; i < len(wp) && i < len(gp); i++ {
			if !match(wp[i], gp[i]) {
				sub := "return"
				if i < len(o.Sub) {
					sub = "callback-" + o.Sub[i].Kind
				}
				return fmt.Sprintf("%s.%s/%s:expected-%s-got-%s:%s", o.Obj, o.Kind, sub, shape(strings.TrimPrefix(wp[i], "ret=")), shape(strings.TrimPrefix(gp[i], "ret=")), backend)
			}
		}
	}
	return fmt.Sprintf("%s.%s:expected-%s-got-%s:%s", o.Obj, o.Kind, shape(want), shape(got), backend)
}

// runSequence generates one operation sequence and applies it call by call to the
// model and to every backend, comparing every result.
func runSequence(r *lib.Run, col *collector, idx int) {
	rng := lib.Rng("C15/seq", uint64(idx))
	g := &gen{rng: rng, steer: map[string]bool{}, flushy: idx%3 == 0 && !raceBuild}
	if idx%4 != 0 { // three quarters of the sequences steer around shapes listed as open findings
		for _, tag := range []string{"snapshot-has-missing-key", "snapshot-get-failing-callback", "iter-no-upper-bound", "iter-unbounded-prefix",
			"batch-deleterange-then-store-write", "bufferbatch-put-empty-value"} {
			if lib.Avoid("C15:" + tag) {
				g.steer[tag] = true
				r.Count("sequences_steering_around["+tag+"]", 1)
			}
		}
	}
	g.mkPool()
	nilEmpty := raceBuild || idx%2 == 0
	spec := newModel(0, nilEmpty)
	variants := map[int]*mdl{}
	for _, f := range variantOrder {
		variants[f] = newModel(f, nilEmpty)
	}
	var backs []*real
	for _, n := range backendNames {
		b, err := openBackend(n)
		if err != nil {
			for _, x := range backs {
				x.cleanup()
			}
			r.Inconclusive("cannot-open-" + n)
			r.Note("open " + n + ": " + err.Error())
			return
		}
		b.nilEmpty = nilEmpty
		backs = append(backs, b)
	}
	alive := map[string]bool{}
	for _, b := range backs {
		alive[b.name] = true
	}
	defer func() {
		for _, b := range backs {
			b.cleanup()
		}
	}()

	var script []string
	var kinds []string
	compared := 0
	writes, reads := 0, 0
	snapCbErr := false
	step := 0
	exec := func(o *op) {
		step++
		want := spec.do(o)
		vres := map[int]string{}
		for f, vm := range variants {
			vr := vm.do(o)
			if match(want, vr) {
				continue
			}
			vres[f] = vr
			delete(variants, f) // a variant only explains the *first* deviation from the contract
		}
		if o.Obj == "snap" && o.Kind == "getcberr" && want == "cberr" {
			snapCbErr = true
		}
		line := fmt.Sprintf("#%d %s -> %s", step, o.String(), want)
		script = append(script, line)
		kinds = append(kinds, o.Obj[:1]+o.Kind)
		r.Count("calls:"+o.Obj+"."+o.Kind, 1)
		switch o.Kind {
		case "put", "del", "delrange", "write", "update":
			writes++
		case "get", "has", "getcberr", "scan", "rscan", "first", "seek", "next", "prev":
			reads++
		}
		if o.Obj == "iter" && o.Kind != "close" {
			r.Count("iterator_positioning_calls", 1)
		}
		got := map[string]string{}
		for _, b := range backs {
			if alive[b.name] {
				b.lastErr = ""
				got[b.name] = b.do(o)
			}
		}
		for _, b := range backs {
			if !alive[b.name] {
				continue
			}
			compared++
			if match(want, got[b.name]) {
				continue
			}
			// first divergence of this backend in this sequence: report, then stop
			// comparing (and driving) this backend so that nothing cascades
			alive[b.name] = false
			var others []string
			for _, x := range backs {
				if x.name != b.name {
					if v, ok := got[x.name]; ok {
						others = append(others, x.name+": "+v)
					} else {
						others = append(others, x.name+": (dropped earlier in this sequence)")
					}
				}
			}
			cl := classify(o, b.name, want, got[b.name], vres, snapCbErr)
			col.add(divergence{Class: cl, Backend: b.name, Case: idx, Step: step, Call: o.String(), Expected: want,
				Observed: got[b.name], ErrText: b.lastErr, Others: others, Script: append([]string{}, script...)})
		}
	}

	nops := 25 + rng.IntN(40)
	for step < nops {
		for _, o := range g.next(spec) {
			exec(&o)
		}
	}
	// wind down: close iterators, batches, snapshots; compare the final content both ways
	for _, id := range liveIters(spec) {
		exec(&op{Obj: "iter", ID: id, Kind: "close"})
	}
	lb, _ := liveBatches(spec)
	sort.SliceStable(lb, func(i, j int) bool { return spec.batches[lb[i]].hasRange && !spec.batches[lb[j]].hasRange })
	for _, id := range lb {
		kind := "write"
		if rng.IntN(3) == 0 {
			kind = "close"
		}
		exec(&op{Obj: "batch", ID: id, Kind: kind})
	}
	for _, id := range liveSnaps(spec) {
		exec(&op{Obj: "snap", ID: id, Kind: "scan"})
		exec(&op{Obj: "snap", ID: id, Kind: "close"})
	}
	exec(&op{Obj: "store", Kind: "scan"})
	exec(&op{Obj: "store", Kind: "rscan"})
	exec(&op{Obj: "store", Kind: "close"})
	for _, k := range []string{"get", "has", "put", "del", "delrange", "iter"} {
		exec(&op{Obj: "store", Kind: k, K: g.key(), V: "x", E: "\xff"})
	}

	r.Eval(compared)
	r.Count("sequences", 1)
	r.Count("calls_total", step)
	full := 0
	for _, b := range backs {
		if alive[b.name] {
			full++
		}
	}
	r.Count(fmt.Sprintf("sequences_with_%d_backends_compared_to_the_end", full), 1)
	if writes > 0 && reads > 0 {
		r.Case(strings.Join(kinds, ","))
	}
	if idx < 2 {
		n := min(len(script), 30)
		r.Sample(map[string]any{"case": idx, "pool": hexList(g.pool), "first_calls_with_expected_results": script[:n], "calls": len(script)})
	}
}

func hexList(l []string) []string {
	out := make([]string, len(l))
	for i, s := range l {
		out[i] = fmt.Sprintf("%x", s)
	}
	return out
}

package vdb

// The reference model of the storage contract (property C15): a Go map, batches as
// ordered op lists applied at Write time, snapshots and iterators as copies taken at
// creation. Shares no code with Juno's db packages (not even dbutils.UpperBound).
//
// The same model can be instantiated with "deviation flags"; those variants are never
// used as the oracle, only to *name* a divergence precisely (a backend whose results
// equal the variant's results gets the variant's class string).

import (
	"fmt"
	"sort"
	"strconv"
	"strings"
)

const (
	fPrefixFilter  = 1 << iota // NewIterator(prefix, withUpperBound=false) keeps only keys that have the prefix
	fNilUpperEmpty             // NewIterator(prefix, true) with no successor prefix (empty / all-0xff) yields nothing
	fEagerRange                // batch.DeleteRange is expanded at call time into deletes of the keys visible then
	fBufNilPut                 // db.BufferBatch.Put(k, nil) behaves as Delete(k)
	nFlags         = 4
)

var flagNames = map[int]string{
	fPrefixFilter:  "iterator-without-upper-bound-filters-by-prefix",
	fNilUpperEmpty: "iterator-upper-bound-of-unbounded-prefix-yields-nothing",
	fEagerRange:    "batch-deleterange-applied-at-call-time-not-at-commit",
	fBufNilPut:     "bufferbatch-put-of-nil-value-acts-as-delete",
}

// variant order: fewest flags first, so the most specific explanation names the class
var variantOrder = func() []int {
	var out []int
	for bits := 1; bits <= nFlags; bits++ {
		for f := 1; f < 1<<nFlags; f++ {
			n := 0
			for x := f; x != 0; x &= x - 1 {
				n++
			}
			if n == bits {
				out = append(out, f)
			}
		}
	}
	return out
}()

func variantName(flags int) string {
	var parts []string
	for f := 1; f < 1<<nFlags; f <<= 1 {
		if flags&f != 0 {
			parts = append(parts, flagNames[f])
		}
	}
	return strings.Join(parts, "+")
}

// modelUpper: smallest string greater than every string having the prefix; ok=false
// when there is none (empty prefix or all bytes 0xff).
func modelUpper(prefix string) (string, bool) {
	p := []byte(prefix)
	for len(p) > 0 && p[len(p)-1] == 0xff {
		p = p[:len(p)-1]
	}
	if len(p) == 0 {
		return "", false
	}
	p[len(p)-1]++
	return string(p), true
}

type mop struct {
	kind byte // 'p' put a=b, 'd' delete a, 'r' delete range [a,b)
	a, b string
}

func applyOps(m map[string]string, ops []mop) {
	for _, o := range ops {
		switch o.kind {
		case 'p':
			m[o.a] = o.b
		case 'd':
			delete(m, o.a)
		case 'r':
			for k := range m {
				if k >= o.a && k < o.b {
					delete(m, k)
				}
			}
		}
	}
}

func cloneMap(m map[string]string) map[string]string {
	c := make(map[string]string, len(m))
	for k, v := range m {
		c[k] = v
	}
	return c
}

type mBatch struct {
	kind     int // 0 NewBatch, 1 NewBatchWithSize, 2 NewIndexedBatch, 3 NewIndexedBatchWithSize
	wrap     int // 0 none, 1 db.SyncBatch, 2 db.BufferBatch
	ops      []mop
	buf      map[string]*string // BufferBatch pending updates (nil = delete)
	done     bool
	size     int
	hasRange bool
	iters    int // open iterators created from this batch
}

func (b *mBatch) indexed() bool { return b.kind >= 2 }

type mSnap struct {
	data  map[string]string
	done  bool
	iters int
}

const (
	stUnpos  = iota // never positioned
	stAt            // on entry pos
	stAfter         // past the last entry (Seek found nothing, or Next from the last entry)
	stBefore        // Prev from the first entry
	stDead          // invalid and only First/Seek are inside the documented contract
)

type mIter struct {
	keys, vals []string
	st, pos    int
	done       bool
	parent     string // "store", "batch", "snap"
	parentID   int
	prefix     string
	ub         bool
}

func (it *mIter) res() string {
	if it.st == stAt {
		return "at " + hx(it.keys[it.pos]) + "=" + hx(it.vals[it.pos])
	}
	return "invalid"
}

func (it *mIter) first() {
	if len(it.keys) == 0 {
		it.st = stDead
		return
	}
	it.st, it.pos = stAt, 0
}

func (it *mIter) step(kind, key string) string {
	n := len(it.keys)
	switch kind {
	case "first":
		it.first()
	case "seek":
		i := sort.SearchStrings(it.keys, key)
		if i == n {
			it.st = stAfter
		} else {
			it.st, it.pos = stAt, i
		}
	case "next":
		switch it.st {
		case stUnpos:
			it.first()
		case stAt:
			if it.pos+1 == n {
				it.st = stAfter
			} else {
				it.pos++
			}
		default:
			it.st = stDead
		}
	case "prev":
		switch it.st {
		case stUnpos:
			it.first()
		case stAt:
			if it.pos == 0 {
				it.st = stBefore
			} else {
				it.pos--
			}
		case stAfter:
			if n == 0 {
				it.st = stDead
			} else {
				it.st, it.pos = stAt, n-1
			}
		default:
			it.st = stDead
		}
	}
	return it.res()
}

// inContract lists the positioning calls whose outcome the documentation fixes in
// the iterator's current state (db/iterator.go, comments in db/memory/iterator.go,
// db/testutil.go "IteratorReverseIteration").
func (it *mIter) inContract() []string {
	switch it.st {
	case stUnpos, stAt:
		return []string{"first", "seek", "next", "prev"}
	case stAfter:
		return []string{"first", "seek", "prev", "next"} // next: "once invalid, remains invalid"
	default:
		return []string{"first", "seek"}
	}
}

type mdl struct {
	flags    int
	nilEmpty bool // the harness passes empty values as nil (only matters for fBufNilPut)
	store   map[string]string
	closed  bool
	batches []*mBatch
	snaps   []*mSnap
	iters   []*mIter
}

func newModel(flags int, nilEmpty bool) *mdl {
	return &mdl{flags: flags, nilEmpty: nilEmpty, store: map[string]string{}}
}

func (m *mdl) batchView(b *mBatch) map[string]string {
	c := cloneMap(m.store)
	applyOps(c, b.ops)
	return c
}

func (m *mdl) mkIter(src map[string]string, prefix string, ub bool) *mIter {
	upper, hasUpper := "", false
	if ub {
		upper, hasUpper = modelUpper(prefix)
	}
	it := &mIter{prefix: prefix, ub: ub}
	if m.flags&fNilUpperEmpty != 0 && ub && !hasUpper {
		return it
	}
	for k := range src {
		if k < prefix || (hasUpper && k >= upper) {
			continue
		}
		if m.flags&fPrefixFilter != 0 && !ub && !strings.HasPrefix(k, prefix) {
			continue
		}
		it.keys = append(it.keys, k)
	}
	sort.Strings(it.keys)
	for _, k := range it.keys {
		it.vals = append(it.vals, src[k])
	}
	return it
}

func scanRes(it *mIter, reverse bool) string {
	var sb strings.Builder
	sb.WriteString("[")
	n := len(it.keys)
	for i := 0; i < n; i++ {
		j := i
		if reverse {
			j = n - 1 - i
		}
		sb.WriteString(hx(it.keys[j]) + "=" + hx(it.vals[j]) + " ")
	}
	sb.WriteString("]")
	return sb.String()
}

func getRes(src map[string]string, k string, cbFails bool) string {
	v, ok := src[k]
	if !ok {
		return "notfound"
	}
	if cbFails {
		return "cberr"
	}
	return "val=" + hx(v)
}

// batchOp: operations on a batch object (also used for the batch handed to the
// Update/Write helpers).
func (m *mdl) batchOp(b *mBatch, o *op) string {
	if b.done {
		return "err" // any use after Write/Close
	}
	if b.wrap == 2 {
		switch o.Kind {
		case "put":
			v := o.V
			b.buf[o.K] = &v
			if m.flags&fBufNilPut != 0 && m.nilEmpty && v == "" {
				b.buf[o.K] = nil
			}
			return "ok"
		case "del":
			b.buf[o.K] = nil
			return "ok"
		case "get", "getcberr":
			if v, ok := b.buf[o.K]; ok {
				if v == nil {
					return "notfound"
				}
				if o.Kind == "getcberr" {
					return "cberr"
				}
				return "val=" + hx(*v)
			}
			return getRes(m.batchView(b), o.K, o.Kind == "getcberr")
		case "bufflush", "write":
			for k, v := range b.buf {
				if v == nil {
					b.ops = append(b.ops, mop{'d', k, ""})
				} else {
					b.ops = append(b.ops, mop{'p', k, *v})
				}
			}
			if o.Kind == "write" {
				applyOps(m.store, b.ops)
				b.done = true
			}
			return "ok"
		case "close":
			b.done = true
			return "ok"
		}
		panic("model: bad BufferBatch op " + o.Kind)
	}
	switch o.Kind {
	case "put":
		b.ops = append(b.ops, mop{'p', o.K, o.V})
		b.size += len(o.K) + len(o.V)
		return "ok"
	case "del":
		b.ops = append(b.ops, mop{'d', o.K, ""})
		b.size += len(o.K)
		return "ok"
	case "delrange":
		b.hasRange = true
		if m.flags&fEagerRange != 0 {
			v := m.batchView(b)
			var ks []string
			for k := range v {
				if k >= o.K && k < o.E {
					ks = append(ks, k)
				}
			}
			sort.Strings(ks)
			for _, k := range ks {
				b.ops = append(b.ops, mop{'d', k, ""})
			}
			return "ok"
		}
		b.ops = append(b.ops, mop{'r', o.K, o.E})
		return "ok"
	case "size":
		if b.hasRange {
			return "size>=" + strconv.Itoa(b.size)
		}
		return "size=" + strconv.Itoa(b.size)
	case "get", "getcberr":
		return getRes(m.batchView(b), o.K, o.Kind == "getcberr")
	case "has":
		_, ok := m.batchView(b)[o.K]
		return fmt.Sprintf("has=%v", ok)
	case "scan", "rscan":
		return scanRes(m.mkIter(m.batchView(b), o.K, o.UB), o.Kind == "rscan")
	case "write":
		applyOps(m.store, b.ops)
		b.done = true
		return "ok"
	case "close":
		b.done = true
		return "ok"
	}
	panic("model: bad batch op " + o.Kind)
}

func (m *mdl) do(o *op) string {
	switch o.Obj {
	case "store":
		if m.closed {
			if o.Kind == "close" {
				return "ok"
			}
			return "err"
		}
		switch o.Kind {
		case "put":
			m.store[o.K] = o.V
			return "ok"
		case "del":
			delete(m.store, o.K)
			return "ok"
		case "delrange":
			applyOps(m.store, []mop{{'r', o.K, o.E}})
			return "ok"
		case "get", "getcberr":
			return getRes(m.store, o.K, o.Kind == "getcberr")
		case "has":
			_, ok := m.store[o.K]
			return fmt.Sprintf("has=%v", ok)
		case "scan", "rscan":
			return scanRes(m.mkIter(m.store, o.K, o.UB), o.Kind == "rscan")
		case "flush":
			return "ok"
		case "iter":
			it := m.mkIter(cloneMap(m.store), o.K, o.UB)
			it.parent = "store"
			m.iters = append(m.iters, it)
			return "ok"
		case "snap":
			m.snaps = append(m.snaps, &mSnap{data: cloneMap(m.store)})
			return "ok"
		case "batch":
			b := &mBatch{kind: o.N, wrap: o.Wrap}
			if b.wrap == 2 {
				b.buf = map[string]*string{}
			}
			m.batches = append(m.batches, b)
			return "ok"
		case "update", "write":
			b := &mBatch{kind: 2}
			if o.Kind == "write" {
				b.kind = 0
			}
			var sb strings.Builder
			for i := range o.Sub {
				sb.WriteString(m.batchOp(b, &o.Sub[i]) + ";")
			}
			if o.Boom {
				return sb.String() + "ret=panic"
			}
			if o.Fail {
				return sb.String() + "ret=cberr"
			}
			applyOps(m.store, b.ops)
			return sb.String() + "ret=ok"
		case "close":
			m.closed = true
			return "ok"
		}
	case "batch":
		b := m.batches[o.ID]
		if o.Kind == "iter" {
			if b.done {
				m.iters = append(m.iters, &mIter{done: true})
				return "err"
			}
			it := m.mkIter(m.batchView(b), o.K, o.UB)
			it.parent, it.parentID = "batch", o.ID
			b.iters++
			m.iters = append(m.iters, it)
			return "ok"
		}
		return m.batchOp(b, o)
	case "snap":
		s := m.snaps[o.ID]
		switch o.Kind {
		case "get", "getcberr":
			return getRes(s.data, o.K, o.Kind == "getcberr")
		case "has":
			_, ok := s.data[o.K]
			return fmt.Sprintf("has=%v", ok)
		case "scan", "rscan":
			return scanRes(m.mkIter(s.data, o.K, o.UB), o.Kind == "rscan")
		case "iter":
			it := m.mkIter(s.data, o.K, o.UB)
			it.parent, it.parentID = "snap", o.ID
			s.iters++
			m.iters = append(m.iters, it)
			return "ok"
		case "close":
			s.done = true
			return "ok"
		}
	case "iter":
		it := m.iters[o.ID]
		if o.Kind == "close" {
			it.done = true
			switch it.parent {
			case "batch":
				m.batches[it.parentID].iters--
			case "snap":
				m.snaps[it.parentID].iters--
			}
			return "ok"
		}
		return it.step(o.Kind, o.K)
	}
	panic("model: bad op " + o.Obj + "." + o.Kind)
}

func hx(s string) string { return fmt.Sprintf("%x", s) }

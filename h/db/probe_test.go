package vdb

import (
	"fmt"
	"os"
	"testing"
	"time"

	"github.com/NethermindEth/juno/db"
	"github.com/NethermindEth/juno/db/memory"
	"github.com/NethermindEth/juno/db/pebble"
	"github.com/NethermindEth/juno/db/pebblev2"
)

func try(name string, f func()) {
	defer func() {
		if p := recover(); p != nil {
			fmt.Println(name, "PANIC", p)
		}
	}()
	f()
}

func dump(d db.KeyValueReader) string {
	it, err := d.NewIterator(nil, false)
	if err != nil {
		return "err " + err.Error()
	}
	defer it.Close()
	s := ""
	for ok := it.First(); ok; ok = it.Next() {
		v, _ := it.Value()
		s += fmt.Sprintf("%x=%x ", it.Key(), v)
	}
	return s
}

func probe(name string, d db.KeyValueStore) {
	try(name+" emptykey", func() {
		fmt.Println(name, "put empty key:", d.Put([]byte{}, []byte("x")))
		fmt.Println(name, "put nil key nil val:", d.Put([]byte{1}, nil))
		h, err := d.Has(nil)
		fmt.Println(name, "has nil:", h, err)
		fmt.Println(name, "dump:", dump(d))
	})
	for _, k := range []string{"a", "b", "c", "d"} {
		d.Put([]byte(k), []byte("v"))
	}
	try(name+" inverted", func() {
		fmt.Println(name, "delrange c..b:", d.DeleteRange([]byte("c"), []byte("b")))
		fmt.Println(name, "dump:", dump(d))
		fmt.Println(name, "delrange b..b:", d.DeleteRange([]byte("b"), []byte("b")))
		fmt.Println(name, "delrange b..nil:", d.DeleteRange([]byte("b"), nil))
		fmt.Println(name, "dump:", dump(d))
		fmt.Println(name, "delrange nil..b:", d.DeleteRange(nil, []byte("b")))
		fmt.Println(name, "dump:", dump(d))
	})
	try(name+" batch inverted", func() {
		b := d.NewIndexedBatch()
		fmt.Println(name, "b delrange d..c:", b.DeleteRange([]byte("d"), []byte("c")))
		fmt.Println(name, "b dump:", dump(b))
		fmt.Println(name, "b write:", b.Write())
		fmt.Println(name, "dump:", dump(d))
	})
	try(name+" batch iter after mutation", func() {
		b := d.NewIndexedBatch()
		b.Put([]byte("x1"), []byte("1"))
		it, _ := b.NewIterator(nil, false)
		b.Put([]byte("x2"), []byte("2"))
		d.Put([]byte("x3"), []byte("3"))
		s := ""
		for ok := it.First(); ok; ok = it.Next() {
			s += string(it.Key()) + " "
		}
		it.Close()
		fmt.Println(name, "batch iter sees:", s)
		h, _ := b.Has([]byte("x3"))
		fmt.Println(name, "batch has x3 (put in store after batch creation):", h)
		b.Close()
	})
	try(name+" eager delrange", func() {
		b := d.NewIndexedBatch()
		b.DeleteRange([]byte("x"), []byte("y"))
		d.Put([]byte("x4"), []byte("4"))
		h, _ := b.Has([]byte("x4"))
		fmt.Println(name, "batch has x4 after delrange+store put:", h)
		b.Write()
		fmt.Println(name, "dump:", dump(d))
	})
	try(name+" iter misc", func() {
		it, _ := d.NewIterator(nil, true)
		fmt.Println(name, "NewIterator(nil,true) first:", it.First())
		it.Close()
		it, _ = d.NewIterator([]byte{0xff}, true)
		d.Put([]byte{0xff, 1}, []byte("z"))
		it2, _ := d.NewIterator([]byte{0xff}, true)
		fmt.Println(name, "NewIterator(ff,true) first:", it.First(), it2.First())
		it.Close()
		it2.Close()
	})
	try(name+" snap", func() {
		s := d.NewSnapshot()
		h, err := s.Has([]byte("nope"))
		fmt.Println(name, "snap has missing:", h, err)
		cbErr := fmt.Errorf("cb")
		err = s.Get([]byte("c"), func([]byte) error { return cbErr })
		fmt.Println(name, "snap get cb err:", err)
		s.Close()
	})
	t0 := time.Now()
	for i := 0; i < 100; i++ {
		d.Put([]byte{byte(i)}, []byte("v"))
	}
	fmt.Println(name, "100 puts:", time.Since(t0))
}

func TestProbe(t *testing.T) {
	probe("memory", memory.New())
	for _, base := range []string{"", "/dev/shm"} {
		dir, _ := os.MkdirTemp(base, "c15probe")
		t0 := time.Now()
		p, err := pebblev2.New(dir)
		if err != nil {
			t.Fatal(err)
		}
		fmt.Println("open v2", base, time.Since(t0))
		probe("pebblev2"+base, p)
		t0 = time.Now()
		p.Close()
		fmt.Println("close v2", base, time.Since(t0))
		os.RemoveAll(dir)
		dir, _ = os.MkdirTemp(base, "c15probe")
		t0 = time.Now()
		p1, err := pebble.New(dir)
		if err != nil {
			t.Fatal(err)
		}
		fmt.Println("open v1", base, time.Since(t0))
		probe("pebblev1"+base, p1)
		p1.Close()
		os.RemoveAll(dir)
	}
}

package vdb

// Concurrent part of C15: readers + one writer on one backend. Every call is recorded
// at the call boundary with one logical clock; each key's history is checked against a
// register with porcupine; every point-in-time view (snapshot, iterator) must show a
// whole batch or nothing of it.

import (
	"fmt"
	"runtime"
	"sort"
	"strings"
	"sync"
	"sync/atomic"
	"time"

	"github.com/NethermindEth/juno/db"
	"github.com/NethermindEth/juno/verifh/lib"
	"github.com/anishathalye/porcupine"
)

type hop struct {
	Call, Ret int64
	Client    int
	Key       string
	Kind      int    // 0 write, 1 delete, 2 read value, 3 has
	Val       string // written / observed value
	Found     bool
	Src       string // which API produced the observation
}

// gop is one committed write to a whole group: afterwards the group consists of exactly the
// keys with Present[i] (all carrying Tag), nothing else.
type gop struct {
	Call, Ret int64
	Group     int
	Tag       string
	Present   []bool
}

type view struct { // one point-in-time observation of a whole group
	Call, Ret int64
	Src       string
	Group     int
	Vals      []string // per group key; "" = absent
}

type regIn struct {
	kind int
	val  string
}
type regOut struct {
	val   string
	found bool
}

var registerModel = porcupine.Model{
	Init: func() any { return "" },
	Step: func(st, in, out any) (bool, any) {
		s, i := st.(string), in.(regIn)
		switch i.kind {
		case 0:
			return true, i.val
		case 1:
			return true, ""
		case 2:
			o := out.(regOut)
			if o.found {
				return s != "" && o.val == s, s
			}
			return s == "", s
		default:
			o := out.(regOut)
			return o.found == (s != ""), s
		}
	},
	DescribeOperation: func(in, out any) string { return fmt.Sprintf("%v -> %v", in, out) },
}

type groupDef struct {
	prefix string
	ub     bool // iterate with withUpperBound (false for the group that ends the key space)
	keys   []string
}

var (
	concGroups = []groupDef{
		{prefix: "\x01", ub: true},
		{prefix: "\x7f\xff", ub: true},
		{prefix: "\xff", ub: false}, // no successor prefix: lower bound only == whole group
	}
	concSolo = []string{"\x00a", "\x00b", "\x00\xff"}
)

func init() {
	for i := range concGroups {
		for _, suf := range []string{"\x00", "\x7f", "\xff"} {
			concGroups[i].keys = append(concGroups[i].keys, concGroups[i].prefix+suf)
		}
	}
}

type history struct {
	clock atomic.Int64
	mu    sync.Mutex
	hops  []hop
	views []view
	gops  []gop
}

func (h *history) add(x ...hop) {
	h.mu.Lock()
	h.hops = append(h.hops, x...)
	h.mu.Unlock()
}

type concWitness struct {
	Backend string   `json:"backend"`
	Case    int      `json:"case"`
	What    string   `json:"what"`
	Key     string   `json:"key,omitempty"`
	History []string `json:"history_of_key,omitempty"`
	View    string   `json:"view,omitempty"`
	Writes  []string `json:"writes_overlapping_or_preceding,omitempty"`
}

func hopStr(x hop) string {
	k := []string{"write", "delete", "read", "has"}[x.Kind]
	return fmt.Sprintf("[%d,%d] client%d %s(%s) %x found=%v val=%q", x.Call, x.Ret, x.Client, k, x.Src, x.Key, x.Found, x.Val)
}

// runConcurrent runs one recorded history on one backend and checks it.
func runConcurrent(r *lib.Run, col *collector, idx int, backend string) {
	b, err := openBackend(backend)
	if err != nil {
		r.Inconclusive("cannot-open-" + backend)
		return
	}
	defer b.cleanup()
	st := b.store
	h := &history{}
	aborted := map[string]bool{}
	var abortedMu sync.Mutex
	fatal := func(what string, err error) {
		col.add(divergence{Class: "concurrent-call-failed:" + what + ":" + backend, Backend: backend, Case: idx, Call: what, Observed: fmt.Sprint(err)})
	}

	const nWrites, nReaders, nReads = 70, 3, 60
	var wg sync.WaitGroup
	start := make(chan struct{})

	// ---- the writer
	wg.Add(1)
	go func() {
		defer wg.Done()
		rng := lib.Rng("C15/conc-writer", uint64(idx))
		<-start
		for n := 1; n <= nWrites; n++ {
			tag := fmt.Sprintf("t%03d", n)
			if rng.IntN(3) == 0 { // a single key, written directly
				k := concSolo[rng.IntN(len(concSolo))]
				if rng.IntN(4) == 0 {
					c := h.clock.Add(1)
					err := st.Delete([]byte(k))
					h.add(hop{Call: c, Ret: h.clock.Add(1), Key: k, Kind: 1, Src: "store.Delete"})
					if err != nil {
						fatal("store.Delete", err)
					}
				} else {
					c := h.clock.Add(1)
					err := st.Put([]byte(k), []byte(tag))
					h.add(hop{Call: c, Ret: h.clock.Add(1), Key: k, Kind: 0, Val: tag, Src: "store.Put"})
					if err != nil {
						fatal("store.Put", err)
					}
				}
				continue
			}
			gi := rng.IntN(len(concGroups))
			g := concGroups[gi]
			upper, hasUpper := modelUpper(g.prefix)
			if !hasUpper {
				upper = g.prefix + "\xff\xff"
			}
			fill := func(w db.KeyValueWriter, rd db.KeyValueRangeDeleter, clearFirst bool, val string) error {
				if clearFirst {
					if err := rd.DeleteRange([]byte(g.prefix), []byte(upper)); err != nil {
						return err
					}
				}
				for _, k := range g.keys {
					if err := w.Put([]byte(k), []byte(val)); err != nil {
						return err
					}
					if rng.IntN(3) == 0 {
						runtime.Gosched()
					}
				}
				return nil
			}
			var subset []bool // nil: the whole group
			record := func(c int64, src string, del bool) {
				ret := h.clock.Add(1)
				var hs []hop
				present := make([]bool, len(g.keys))
				for i, k := range g.keys {
					x := hop{Call: c, Ret: ret, Key: k, Kind: 0, Val: tag, Src: src}
					if del || (subset != nil && !subset[i]) {
						x.Kind, x.Val = 1, ""
					} else {
						present[i] = true
					}
					hs = append(hs, x)
				}
				h.add(hs...)
				h.mu.Lock()
				h.gops = append(h.gops, gop{Call: c, Ret: ret, Group: gi, Tag: tag, Present: present})
				h.mu.Unlock()
			}
			// replace the group by a subset of its keys in one batch: range delete + puts of the subset
			fillSubset := func(w db.KeyValueWriter, rd db.KeyValueRangeDeleter) error {
				subset = make([]bool, len(g.keys))
				subset[rng.IntN(len(g.keys))] = true
				for i := range subset {
					if rng.IntN(2) == 0 {
						subset[i] = true
					}
				}
				if err := rd.DeleteRange([]byte(g.prefix), []byte(upper)); err != nil {
					return err
				}
				for i, k := range g.keys {
					if subset[i] {
						if err := w.Put([]byte(k), []byte(tag)); err != nil {
							return err
						}
					}
				}
				return nil
			}
			switch form := rng.IntN(12); form {
			case 9, 10: // the group replaced by a subset of its keys, plain batch
				bt := st.NewBatch()
				err := fillSubset(bt, bt)
				c := h.clock.Add(1)
				if err == nil {
					err = bt.Write()
				}
				record(c, "batch.Write(subset)", false)
				if err != nil {
					fatal("batch.Write(subset)", err)
				}
			case 11: // the same through the Update helper
				c := h.clock.Add(1)
				err := st.Update(func(ib db.IndexedBatch) error { return fillSubset(ib, ib) })
				record(c, "store.Update(subset)", false)
				if err != nil {
					fatal("store.Update(subset)", err)
				}
			case 0, 1: // plain batch
				bt := st.NewBatch()
				err := fill(bt, bt, form == 1, tag)
				c := h.clock.Add(1)
				if err == nil {
					err = bt.Write()
				}
				record(c, "batch.Write", false)
				if err != nil {
					fatal("batch.Write", err)
				}
			case 2: // indexed batch, range delete then puts
				bt := st.NewIndexedBatch()
				err := fill(bt, bt, true, tag)
				c := h.clock.Add(1)
				if err == nil {
					err = bt.Write()
				}
				record(c, "indexedbatch.Write", false)
				if err != nil {
					fatal("indexedbatch.Write", err)
				}
			case 3: // Update helper
				c := h.clock.Add(1)
				err := st.Update(func(ib db.IndexedBatch) error { return fill(ib, ib, rng.IntN(2) == 0, tag) })
				record(c, "store.Update", false)
				if err != nil {
					fatal("store.Update", err)
				}
			case 4: // Write helper
				c := h.clock.Add(1)
				err := st.Write(func(wb db.Batch) error { return fill(wb, wb, false, tag) })
				record(c, "store.Write", false)
				if err != nil {
					fatal("store.Write", err)
				}
			case 5: // delete the group in one batch: range delete or single deletes
				bt := st.NewBatch()
				var err error
				if rng.IntN(2) == 0 {
					err = bt.DeleteRange([]byte(g.prefix), []byte(upper))
				} else {
					for _, k := range g.keys {
						if err == nil {
							err = bt.Delete([]byte(k))
						}
					}
				}
				c := h.clock.Add(1)
				if err == nil {
					err = bt.Write()
				}
				record(c, "batch.Write(deletes)", true)
				if err != nil {
					fatal("batch.Write(deletes)", err)
				}
			case 6: // SyncBatch wrapper
				sb := db.NewSyncBatch(st.NewIndexedBatch())
				err := fill(sb, sb, false, tag)
				c := h.clock.Add(1)
				if err == nil {
					err = sb.Write()
				}
				record(c, "syncbatch.Write", false)
				if err != nil {
					fatal("syncbatch.Write", err)
				}
			case 7: // helper whose callback fails after writing: nothing may become visible
				atag := "A" + tag
				abortedMu.Lock()
				aborted[atag] = true
				abortedMu.Unlock()
				var err error
				if rng.IntN(2) == 0 {
					err = st.Update(func(ib db.IndexedBatch) error { fill(ib, ib, true, atag); return errCb })
				} else {
					err = st.Write(func(wb db.Batch) error { fill(wb, wb, true, atag); return errCb })
				}
				if errClass(err) != "cberr" {
					fatal("helper-with-failing-callback-did-not-return-the-callback-error", err)
				}
			default: // batch filled and closed without Write
				atag := "A" + tag
				abortedMu.Lock()
				aborted[atag] = true
				abortedMu.Unlock()
				bt := st.NewIndexedBatch()
				fill(bt, bt, true, atag)
				if err := bt.Close(); err != nil {
					fatal("batch.Close", err)
				}
			}
		}
	}()

	// ---- the readers
	allKeys := append([]string{}, concSolo...)
	for _, g := range concGroups {
		allKeys = append(allKeys, g.keys...)
	}
	getVal := func(rd db.KeyValueReader, k string) (string, bool, error) {
		var v string
		err := rd.Get([]byte(k), func(b []byte) error { v = string(b); return nil })
		if errClass(err) == "notfound" {
			return "", false, nil
		}
		return v, err == nil, err
	}
	for j := 0; j < nReaders; j++ {
		wg.Add(1)
		go func(j int) {
			defer wg.Done()
			rng := lib.Rng("C15/conc-reader", uint64(idx)*16+uint64(j))
			client := j + 1
			<-start
			for n := 0; n < nReads; n++ {
				if rng.IntN(4) == 0 {
					runtime.Gosched()
				}
				switch x := rng.IntN(100); {
				case x < 30: // point read
					k := allKeys[rng.IntN(len(allKeys))]
					c := h.clock.Add(1)
					v, found, err := getVal(st, k)
					h.add(hop{Call: c, Ret: h.clock.Add(1), Client: client, Key: k, Kind: 2, Val: v, Found: found, Src: "store.Get"})
					if err != nil {
						fatal("store.Get", err)
					}
				case x < 40:
					k := allKeys[rng.IntN(len(allKeys))]
					c := h.clock.Add(1)
					found, err := st.Has([]byte(k))
					h.add(hop{Call: c, Ret: h.clock.Add(1), Client: client, Key: k, Kind: 3, Found: found, Src: "store.Has"})
					if err != nil {
						fatal("store.Has", err)
					}
				case x < 48: // read through an indexed batch (reads the live database)
					k := allKeys[rng.IntN(len(allKeys))]
					ib := st.NewIndexedBatch()
					c := h.clock.Add(1)
					v, found, err := getVal(ib, k)
					h.add(hop{Call: c, Ret: h.clock.Add(1), Client: client, Key: k, Kind: 2, Val: v, Found: found, Src: "indexedbatch.Get"})
					if err != nil {
						fatal("indexedbatch.Get", err)
					}
					ib.Close()
				case x < 75: // snapshot: the whole group as of NewSnapshot
					gi := rng.IntN(len(concGroups))
					g := concGroups[gi]
					c := h.clock.Add(1)
					s := st.NewSnapshot()
					ret := h.clock.Add(1)
					if rng.IntN(2) == 0 {
						runtime.Gosched()
					}
					vw := view{Call: c, Ret: ret, Src: "snapshot.Get", Group: gi}
					var hs []hop
					if rng.IntN(2) == 0 {
						for _, k := range g.keys {
							v, found, err := getVal(s, k)
							if err != nil {
								fatal("snapshot.Get", err)
							}
							vw.Vals = append(vw.Vals, v)
							hs = append(hs, hop{Call: c, Ret: ret, Client: client, Key: k, Kind: 2, Val: v, Found: found, Src: "snapshot.Get"})
						}
					} else {
						vw.Src = "snapshot.NewIterator"
						vw.Vals, hs = scanGroup(s, g, c, ret, client, "snapshot.NewIterator", fatal)
					}
					s.Close()
					h.add(hs...)
					h.mu.Lock()
					h.views = append(h.views, vw)
					h.mu.Unlock()
				default: // iterator on the live store: the whole group as of NewIterator
					gi := rng.IntN(len(concGroups))
					g := concGroups[gi]
					c := h.clock.Add(1)
					it, err := st.NewIterator([]byte(g.prefix), g.ub)
					ret := h.clock.Add(1)
					if err != nil {
						fatal("store.NewIterator", err)
						continue
					}
					if rng.IntN(2) == 0 {
						runtime.Gosched()
					}
					vals, hs := readIter(it, g, c, ret, client, "store.NewIterator")
					it.Close()
					h.add(hs...)
					h.mu.Lock()
					h.views = append(h.views, view{Call: c, Ret: ret, Src: "store.NewIterator", Group: gi, Vals: vals})
					h.mu.Unlock()
				}
			}
		}(j)
	}
	close(start)
	wg.Wait()

	// final sequential read of everything (part of the history)
	for _, k := range allKeys {
		c := h.clock.Add(1)
		v, found, err := getVal(st, k)
		h.add(hop{Call: c, Ret: h.clock.Add(1), Client: nReaders + 1, Key: k, Kind: 2, Val: v, Found: found, Src: "final store.Get"})
		if err != nil {
			fatal("store.Get", err)
		}
	}

	// ---- checks
	byKey := map[string][]hop{}
	for _, x := range h.hops {
		byKey[x.Key] = append(byKey[x.Key], x)
	}
	report := func(class string, w concWitness) {
		w.Backend, w.Case = backend, idx
		col.add(divergence{Class: class + ":" + backend, Backend: backend, Case: idx, Call: w.What, Observed: w.View + w.Key,
			Script: append(w.History, w.Writes...)})
	}
	overlapping, distinctSeen := 0, map[string]bool{}
	for k, hs := range byKey {
		sort.Slice(hs, func(i, j int) bool { return hs[i].Call < hs[j].Call })
		var writes []hop
		for _, x := range hs {
			if x.Kind <= 1 {
				writes = append(writes, x)
			}
		}
		lines := func() []string {
			var out []string
			for _, x := range hs {
				out = append(out, hopStr(x))
			}
			return out
		}
		bad := false
		for _, x := range hs {
			if x.Kind <= 1 {
				continue
			}
			if x.Found {
				distinctSeen[x.Val] = true
			}
			if aborted[x.Val] && x.Found {
				report("aborted-batch-visible:"+x.Src, concWitness{What: hopStr(x), Key: fmt.Sprintf("%x", k), History: lines()})
				bad = true
				break
			}
			// admissible values: the last write that returned before the read was called,
			// and every write that was called before the read returned
			lo := -1
			for i, w := range writes {
				if w.Ret < x.Call {
					lo = i
				}
			}
			ok := false
			if lo == -1 && !x.Found {
				ok = true
			}
			for i := max(lo, 0); i < len(writes) && !ok; i++ {
				w := writes[i]
				if w.Call > x.Ret {
					break
				}
				if i != lo {
					overlapping++
				}
				if x.Kind == 3 {
					ok = x.Found == (w.Kind == 0)
				} else {
					ok = (x.Found && w.Kind == 0 && w.Val == x.Val) || (!x.Found && w.Kind == 1)
				}
			}
			if !ok {
				report("read-outside-admissible-writes:"+strings.TrimPrefix(x.Src, "final "), concWitness{What: hopStr(x), Key: fmt.Sprintf("%x", k), History: lines()})
				bad = true
				break
			}
		}
		if bad {
			continue
		}
		ops := make([]porcupine.Operation, 0, len(hs))
		for _, x := range hs {
			ops = append(ops, porcupine.Operation{ClientId: x.Client, Input: regIn{x.Kind, x.Val}, Call: x.Call,
				Output: regOut{x.Val, x.Found}, Return: x.Ret})
		}
		switch porcupine.CheckOperationsTimeout(registerModel, ops, 120*time.Second) {
		case porcupine.Illegal:
			report("key-history-not-linearizable", concWitness{What: "porcupine: no linearization of this key's history as a register", Key: fmt.Sprintf("%x", k), History: lines()})
		case porcupine.Unknown:
			r.Inconclusive("porcupine-timeout")
		}
		r.Count("conc.porcupine_key_histories_checked", 1)
		r.Count("conc.recorded_operations", len(hs))
	}
	torn := 0
	sort.Slice(h.gops, func(i, j int) bool { return h.gops[i].Call < h.gops[j].Call })
	for _, v := range h.views {
		// A point-in-time view of a group must be the group as one of the admissible writes left
		// it: the last group write that returned before the view was taken (or the initial empty
		// group), or any later one that was called before the view's call returned. There is one
		// writer, so the group writes are totally ordered.
		var mine []gop
		for _, o := range h.gops {
			if o.Group == v.Group {
				mine = append(mine, o)
			}
		}
		lo := -1
		for i, o := range mine {
			if o.Ret < v.Call {
				lo = i
			}
		}
		matches := func(o *gop) bool {
			for i, x := range v.Vals {
				switch {
				case o == nil || !o.Present[i]:
					if x != "" {
						return false
					}
				case x != o.Tag:
					return false
				}
			}
			return true
		}
		uniform := false
		if lo == -1 && matches(nil) {
			uniform = true
		}
		for i := max(lo, 0); i < len(mine) && !uniform; i++ {
			if mine[i].Call > v.Ret {
				break
			}
			uniform = matches(&mine[i])
		}
		if !uniform {
			torn++
			if torn == 1 {
				var ws []string
				for _, w := range byKey[concGroups[v.Group].keys[0]] {
					if w.Kind <= 1 && w.Call <= v.Ret {
						ws = append(ws, hopStr(w))
					}
				}
				if len(ws) > 6 {
					ws = ws[len(ws)-6:]
				}
				report("torn-batch-visible:"+v.Src, concWitness{What: fmt.Sprintf("view taken in [%d,%d] via %s of group %x", v.Call, v.Ret, v.Src, concGroups[v.Group].prefix),
					View: fmt.Sprintf("%q", v.Vals), Writes: ws})
			}
		}
	}
	r.Count("conc.point_in_time_views_checked", len(h.views))
	r.Count("conc.read_vs_concurrent_write_pairs_examined", overlapping)
	r.Count("conc.distinct_values_observed_by_readers", len(distinctSeen))
	r.Count("conc.histories["+backend+"]", 1)
	r.Eval(len(h.hops) + len(h.views))
	if len(distinctSeen) >= 5 {
		r.Case(fmt.Sprintf("conc-%s-%d-%d", backend, idx, len(distinctSeen)))
	}

	syncBatchShared(r, col, idx, b)
}

func readIter(it db.Iterator, g groupDef, c, ret int64, client int, src string) ([]string, []hop) {
	seen := map[string]string{}
	for ok := it.First(); ok; ok = it.Next() {
		v, err := it.Value()
		if err != nil {
			v = []byte("value-error")
		}
		seen[string(it.Key())] = string(v)
	}
	var vals []string
	var hs []hop
	for _, k := range g.keys {
		v, found := seen[k]
		vals = append(vals, v)
		hs = append(hs, hop{Call: c, Ret: ret, Client: client, Key: k, Kind: 2, Val: v, Found: found, Src: src})
	}
	return vals, hs
}

func scanGroup(rd db.KeyValueReader, g groupDef, c, ret int64, client int, src string, fatal func(string, error)) ([]string, []hop) {
	it, err := rd.NewIterator([]byte(g.prefix), g.ub)
	if err != nil {
		fatal(src, err)
		return make([]string, len(g.keys)), nil
	}
	defer it.Close()
	return readIter(it, g, c, ret, client, src)
}

// syncBatchShared: db.SyncBatch promises thread-safe use of one indexed batch. Three
// goroutines write and read disjoint key sets through one SyncBatch; every goroutine
// must read its own writes, and after Write the store holds every goroutine's last
// values. (Data races inside are for the race detector.)
func syncBatchShared(r *lib.Run, col *collector, idx int, b *real) {
	st := b.store
	sb := db.NewSyncBatch(st.NewIndexedBatch())
	const workers, steps = 3, 25
	final := make([]map[string]string, workers)
	var wg sync.WaitGroup
	var bad atomic.Value
	for w := 0; w < workers; w++ {
		wg.Add(1)
		go func(w int) {
			defer wg.Done()
			rng := lib.Rng("C15/syncbatch", uint64(idx)*64+uint64(w))
			own := map[string]string{}
			for i := 0; i < steps; i++ {
				k := fmt.Sprintf("\x02%c%c", 'a'+w, alphabet[rng.IntN(len(alphabet))])
				switch rng.IntN(5) {
				case 0, 1:
					v := fmt.Sprintf("w%d-%d", w, i)
					if err := sb.Put([]byte(k), []byte(v)); err != nil {
						bad.Store("Put: " + err.Error())
					}
					own[k] = v
				case 2:
					if err := sb.Delete([]byte(k)); err != nil {
						bad.Store("Delete: " + err.Error())
					}
					delete(own, k)
				case 3:
					var got string
					err := sb.Get([]byte(k), func(v []byte) error { got = string(v); return nil })
					want, present := own[k]
					if (present && (err != nil || got != want)) || (!present && errClass(err) != "notfound") {
						bad.Store(fmt.Sprintf("goroutine %d Get(%x) = %q, %v; its own last write was %q present=%v", w, k, got, err, want, present))
					}
				default:
					has, err := sb.Has([]byte(k))
					if _, present := own[k]; err != nil || has != present {
						bad.Store(fmt.Sprintf("goroutine %d Has(%x) = %v, %v; own state present=%v", w, k, has, err, present))
					}
					_ = sb.Size()
				}
			}
			final[w] = own
		}(w)
	}
	wg.Wait()
	if err := sb.Write(); err != nil {
		bad.Store("Write: " + err.Error())
	}
	want := map[string]string{}
	for _, m := range final {
		for k, v := range m {
			want[k] = v
		}
	}
	got := map[string]string{}
	it, err := st.NewIterator([]byte("\x02"), true)
	if err == nil {
		for ok := it.First(); ok; ok = it.Next() {
			v, _ := it.Value()
			got[string(it.Key())] = string(v)
		}
		it.Close()
	}
	if fmt.Sprint(want) != fmt.Sprint(got) {
		bad.Store(fmt.Sprintf("after Write the store holds %q, the goroutines' last writes are %q", got, want))
	}
	r.Count("conc.syncbatch_shared_runs", 1)
	r.Eval(workers * steps)
	if v := bad.Load(); v != nil {
		col.add(divergence{Class: "syncbatch-shared-use:" + b.name, Backend: b.name, Case: idx, Call: "db.SyncBatch shared by 3 goroutines", Observed: v.(string)})
	}
}

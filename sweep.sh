#!/bin/sh
# sweep.sh <tier> <seed> [ids...]: runs the registered checks one after another and prints one line each.
# With seed != 1 the evidence goes to a scratch directory so the committed evidence stays that of seed 1.
tier=${1:-quick}; seed=${2:-1}; shift 2 2>/dev/null
ids=${*:-C01 C02 C03 C04 C05 C06 C07 C08 C09 C10 C11 C12 C13 C14 C15 C16 C17 C18 C19 C20}
cd "$(dirname "$0")" || exit 2
out=$(mktemp -d)
[ "$seed" != 1 ] && export VERIF_EVIDENCE_DIR="$out/evidence"
rc_all=0
for id in $ids; do
  VERIF_SEED=$seed ./run.sh "$id" "$tier" > "$out/$id.log" 2>&1; rc=$?
  echo "rc=$rc $(tail -n 1 "$out/$id.log")"
  if [ $rc != 0 ]; then rc_all=1; grep -E "VIOLATION|BROKEN|^  \[" "$out/$id.log" | head -20; fi
done
rm -rf "$out"
exit $rc_all

#!/usr/bin/env python3
"""Regenerates MANIFEST.json from checks.json + manifest_text.json (per-property level text)."""
import json, os
V = os.path.dirname(os.path.abspath(__file__))
checks = json.load(open(os.path.join(V, "checks.json")))
text = json.load(open(os.path.join(V, "manifest_text.json")))
hooks = json.load(open(os.path.join(V, "hooks.json")))
m = {
    "version": 1,
    "setup_cmd": "python3 /verif/run.py --setup",
    "hooks": hooks,
    "engines": [{
        "name": "juno-runtime-monitors", "path": "/verif/run.py",
        "serves_properties": sorted(k for k, v in checks.items() if v.get("claimed")),
        "kind_free_text": "Go harness packages compiled into the Juno module via -overlay; oracles observe executions of the real code "
                          "(reference models, recorded histories, crash/fault enumeration through a recording db wrapper and strace, Go race detector, porcupine)",
    }],
    "checks": [], "not_applicable": [],
    "notes": "Every check: ./run.sh <ID> <quick|thorough>; exit 0 held / 1 VIOLATION / 2 check broken or inconclusive. "
             "Known findings: /verif/known_findings.json. Seeded changes: /verif/seeded/.",
}
for k in sorted(checks):
    v = checks[k]
    t = text.get(k, {})
    if not v.get("claimed"):
        m["not_applicable"].append({"property_id": k, "reason": t.get("na_reason", "monitor not built yet in this session (runtime monitoring applies; see DESIGN.md section 2)")})
        continue
    m["checks"].append({
        "property_id": k,
        "quick_cmd": "./run.sh %s quick" % k,
        "thorough_cmd": "./run.sh %s thorough" % k,
        "evidence_file": "/verif/evidence/%s.json" % k,
        "replay_cmd_template": "./run.sh %s quick --replay {path}" % k,
        "engine": "juno-runtime-monitors",
        "level_claimed": {"category": v["level"], "text": t.get("text", ""), "design_ref": "DESIGN.md section 2, " + k},
        "level_note": t.get("note", ""),
        "technique": t.get("technique", "runtime monitoring"),
    })
json.dump(m, open(os.path.join(V, "MANIFEST.json"), "w"), indent=1)
print("claimed:", len(m["checks"]), "not_applicable:", len(m["not_applicable"]))

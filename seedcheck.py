#!/usr/bin/env python3
"""Re-offers recorded seeded changes to the registered checks.

  seedcheck.py [--tier quick] [--seed N] [--update] <seeded-id>[:<check>,<check>...] ...
  seedcheck.py --all [--update]

For each /verif/seeded/<id>/patch.diff the patched copies of the touched files (made from
/repo's CURRENT files, outside /repo) replace the originals for the harness build only
(VERIF_MUTATE build overlay - the same effect as `git -C /repo apply`, without touching
/repo, so several can run while other builds use /repo). Evidence and replays of these
runs go to a scratch directory. With --update, meta.json's "checks"/"caught_by" are
rewritten from what was observed. Exit 0 iff every change offered was caught by at
least one of its checks.
"""
import json
import os
import re
import shutil
import subprocess
import sys
import tempfile

VERIF = os.path.dirname(os.path.abspath(__file__))
REPO = "/repo"


def patched_files(sid, patch, scratch):
    files = re.findall(r"^\+\+\+ b/(\S+)", open(patch).read(), re.M)
    md = os.path.join(scratch, sid)
    items = []
    for f in files:
        os.makedirs(os.path.dirname(os.path.join(md, f)), exist_ok=True)
        shutil.copy(os.path.join(REPO, f), os.path.join(md, f))
        items.append("%s=%s" % (f, os.path.join(md, f)))
    p = subprocess.run(["git", "apply", "--directory=" + md.lstrip("/"), "--unsafe-paths", patch], cwd="/",
                       stdout=subprocess.PIPE, stderr=subprocess.STDOUT, text=True, errors="replace")
    if p.returncode != 0:
        raise SystemExit("patch of %s does not apply on top of /repo: %s" % (sid, p.stdout))
    return ",".join(items)


def main():
    a = sys.argv[1:]
    tier, seed, update = "quick", "1", "--update" in a
    if "--tier" in a:
        tier = a[a.index("--tier") + 1]
    if "--seed" in a:
        seed = a[a.index("--seed") + 1]
    ids = [x for x in a if re.match(r"^C\d\d-\d+", x)]
    if "--all" in a:
        ids = sorted(os.listdir(os.path.join(VERIF, "seeded")))
    scratch = tempfile.mkdtemp(prefix="seedcheck-")
    missed = []
    try:
        for item in ids:
            sid, _, cl = item.partition(":")
            d = os.path.join(VERIF, "seeded", sid)
            meta = json.load(open(os.path.join(d, "meta.json")))
            checks = cl.split(",") if cl else (list(meta.get("checks", {}).keys()) or [meta["property"]])
            mut = patched_files(sid, os.path.join(d, "patch.diff"), scratch)
            res = {}
            for c in checks:
                e = dict(os.environ, VERIF_MUTATE=mut, VERIF_SEED=seed, VERIF_REPLAY_DIR=os.path.join(scratch, "replays"),
                         VERIF_EVIDENCE_DIR=os.path.join(scratch, "evidence"),
                         VERIF_BUILD_DIR=os.path.join(scratch, "build"))
                p = subprocess.run(["./run.sh", c, tier], cwd=VERIF, env=e, stdout=subprocess.PIPE, stderr=subprocess.STDOUT, text=True, errors="replace")
                classes = re.findall(r"^\s+\[([^\]]+)\] (?:x)?(\d+)", p.stdout, re.M)
                res[c] = {"exit": p.returncode, "violation_classes": ["%s x%s" % x for x in classes][:12],
                          "summary": p.stdout.strip().splitlines()[-1] if p.stdout.strip() else ""}
                print("%s vs %s (%s seed %s): exit %d %s" % (sid, c, tier, seed, p.returncode, [x[0] for x in classes][:5]), flush=True)
                if p.returncode == 2:
                    print("   " + "\n   ".join(l for l in p.stdout.splitlines() if "BROKEN" in l or "BUILD" in l)[:1500])
            caught = [c for c, v in res.items() if v["exit"] == 1]
            if not caught:
                missed.append(sid)
            if update:
                meta.setdefault("checks", {}).update(res)
                meta["caught_by"] = [c for c, v in meta["checks"].items() if v["exit"] == 1]
                json.dump(meta, open(os.path.join(d, "meta.json"), "w"), indent=1)
    finally:
        shutil.rmtree(scratch, ignore_errors=True)
    if missed:
        print("NOT CAUGHT:", " ".join(missed))
        sys.exit(1)


if __name__ == "__main__":
    main()

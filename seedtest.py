#!/usr/bin/env python3
"""Confirms a seeded change and runs the registered checks against it.

  seedtest.py <prop> <n> <demo-pkg-dir> <pkg-pattern>[,<pkg-pattern>...] <check>[,<check>...] [--needs "<text>"] [--no-race]

<prop>: property id the change is meant to break; the sub-agent's output lives in
/tmp/seed/<prop>-out (patch<n>.diff, demo<n>_test.go) and its scratch worktree in
/tmp/seed/<prop>.

Steps (all build output of the worktree goes to the shared go build cache only):
 1. worktree clean: demo passes                      (go test -run TestDemo<n>)
 2. worktree + patch: demo FAILS, existing tests of the given packages PASS
 3. /repo + patch (git apply): every listed check's quick tier is run; /repo is restored
 4. /verif/seeded/<prop>-<n>/{patch.diff, demo_test.go, meta.json} is written
"""
import json
import os
import re
import shutil
import subprocess
import sys

GO = "/root/go/pkg/mod/golang.org/toolchain@v0.0.1-go1.26.0.linux-amd64/bin/go"
ENV = dict(os.environ, GOFLAGS="-mod=mod", GOPROXY="off", GOSUMDB="off", GOTOOLCHAIN="local",
           CGO_LDFLAGS="-L/verif/.build/stub")


def sh(cmd, cwd, timeout=3600):
    p = subprocess.run(cmd, cwd=cwd, env=ENV, stdout=subprocess.PIPE, stderr=subprocess.STDOUT, text=True, errors="replace", timeout=timeout)
    return p.returncode, p.stdout


def main():
    a = sys.argv[1:]
    prop, n, demodir, pkgs, checks = a[0], a[1], a[2], a[3].split(","), a[4].split(",")
    needs = a[a.index("--needs") + 1] if "--needs" in a else ""
    norace = "--no-race" in a
    wt = "/tmp/seed/%s" % prop
    out = "/tmp/seed/%s-out" % prop
    patch = "%s/patch%s.diff" % (out, n)
    demo = "%s/demo%s_test.go" % (out, n)
    meta = {"property": prop, "n": int(n), "needs_to_manifest": needs, "ran": []}
    sh(["git", "checkout", "--", "."], wt)
    sh(["git", "clean", "-fdq"], wt)
    dst = os.path.join(wt, demodir, "zz_verif_demo_test.go")
    shutil.copy(demo, dst)
    run = ["-run", a[a.index("--run") + 1] if "--run" in a else "TestDemo%s" % n]
    rc0, o0 = sh([GO, "test", "-vet=off", "-count=1"] + run + ["./" + demodir + "/"], wt)
    meta["demo_without_patch"] = "pass" if rc0 == 0 else "FAIL"
    meta["ran"].append("worktree clean: go test -run TestDemo%s ./%s/ -> rc=%d" % (n, demodir, rc0))
    rc, o = sh(["git", "apply", patch], wt)
    if rc != 0:
        print("patch does not apply:", o)
        sys.exit(2)
    rc1, o1 = sh([GO, "test", "-vet=off", "-count=1"] + run + ["./" + demodir + "/"], wt)
    meta["demo_with_patch"] = "fail" if rc1 != 0 else "PASSES (not a demonstration)"
    meta["demo_failure_excerpt"] = "\n".join(l for l in o1.splitlines() if "demo" in l.lower() or "Error" in l or "FAIL" in l)[:1500]
    meta["ran"].append("worktree + patch: go test -run TestDemo%s ./%s/ -> rc=%d" % (n, demodir, rc1))
    os.remove(dst)
    rc2, o2 = sh([GO, "test", "-vet=off", "-count=1"] + pkgs, wt)
    bad = [l for l in o2.splitlines() if l.startswith("FAIL") or l.startswith("--- FAIL")]
    meta["existing_tests_with_patch"] = "pass" if rc2 == 0 else "FAIL: " + "; ".join(bad[:8])
    meta["ran"].append("worktree + patch: go test %s -> rc=%d" % (" ".join(pkgs), rc2))
    sh(["git", "checkout", "--", "."], wt)
    sh(["git", "clean", "-fdq"], wt)
    print("demo clean=%s patched=%s existing-tests=%s" % (meta["demo_without_patch"], meta["demo_with_patch"], meta["existing_tests_with_patch"]))

    # checks against /repo + patch. While other jobs are building from /repo the patch is
    # applied through the build overlay (VERIF_MUTATE: the patched copies of the changed files
    # replace the originals for this build only) - equivalent to `git -C /repo apply`, without
    # disturbing concurrent builds. With --in-place it is applied to /repo and undone afterwards.
    inplace = "--in-place" in a
    mut = ""
    if inplace:
        rc, o = sh(["git", "status", "--porcelain"], "/repo")
        if o.strip():
            print("/repo is not clean, refusing:", o)
            sys.exit(2)
        rc, o = sh(["git", "apply", patch], "/repo")
        if rc != 0:
            print("patch does not apply to /repo:", o)
            sys.exit(2)
    else:
        sh(["git", "apply", patch], wt)
        rc, files = sh(["git", "diff", "--name-only"], wt)
        md = "/tmp/seed/mut/%s-%s" % (prop, n)
        items = []
        for f in files.split():
            # the patched file = /repo's current file with the same patch applied
            os.makedirs(os.path.dirname(os.path.join(md, f)), exist_ok=True)
            shutil.copy(os.path.join("/repo", f), os.path.join(md, f))
            items.append("%s=%s" % (f, os.path.join(md, f)))
        rc, o = sh(["git", "apply", "--directory=" + md.lstrip("/"), "--unsafe-paths", patch], "/")
        if rc != 0:
            print("patch does not apply on top of /repo files:", o)
            sys.exit(2)
        sh(["git", "checkout", "--", "."], wt)
        mut = ",".join(items)
    meta["applied"] = "in place (git -C /repo apply, undone afterwards)" if inplace else "build overlay of the patched files (VERIF_MUTATE)"
    meta["checks"] = {}
    try:
        for c in checks:
            cmd = ["./run.sh", c, "quick"] + (["--no-race"] if norace else [])
            e = dict(ENV, VERIF_REPLAY_DIR="/tmp/seed/replays", VERIF_MUTATE=mut, VERIF_EVIDENCE_DIR="/tmp/seed/evidence", VERIF_BUILD_DIR="/tmp/seed/build-%s" % prop)
            p = subprocess.run(cmd, cwd="/verif", env=e, stdout=subprocess.PIPE, stderr=subprocess.STDOUT, text=True, errors="replace")
            classes = re.findall(r"^\s+\[([^\]]+)\] x(\d+)", p.stdout, re.M)
            meta["checks"][c] = {"exit": p.returncode, "violation_classes": ["%s x%s" % x for x in classes][:12],
                                 "summary": p.stdout.strip().splitlines()[-1] if p.stdout.strip() else ""}
            print(c, "exit", p.returncode, [x[0] for x in classes][:6])
    finally:
        if inplace:
            sh(["git", "checkout", "--", "."], "/repo")
    meta["caught_by"] = [c for c, v in meta["checks"].items() if v["exit"] == 1]
    d = "/verif/seeded/%s-%s" % (prop, n)
    os.makedirs(d, exist_ok=True)
    shutil.copy(patch, d + "/patch.diff")
    shutil.copy(demo, d + "/demo_test.go")
    notes = os.path.join(out, "NOTES.md")
    if os.path.exists(notes):
        shutil.copy(notes, d + "/NOTES.md")
    meta["demo_placement"] = "%s/ (go test -run '%s' ./%s/)" % (demodir, run[1], demodir)
    json.dump(meta, open(d + "/meta.json", "w"), indent=1)
    print("caught by:", meta["caught_by"])


if __name__ == "__main__":
    main()

#!/usr/bin/env python3
"""Entry point of every registered check.

  run.py <ID> <quick|thorough> [--replay <file>] [--no-race] [--keep-logs]
  run.py --setup            build stubs and every harness binary
  run.py --build <pkg>      build one harness package (plain + race)

Rebuilds the harness package of <ID> against /repo's current working tree (go build
cache makes this cheap when nothing changed), runs the plain binary and - for
properties whose quantifier includes schedules - the -race binary, merges what they
observed into /verif/evidence/<ID>.json and prints VIOLATION / KNOWN-FINDING lines.

exit 0: held on everything explored (known findings are listed, not failed)
exit 1: at least one VIOLATION line was printed
exit 2: the check itself is broken / inconclusive (build failure, watchdog, observed nothing)
"""
import glob
import json
import os
import re
import shutil
import subprocess
import sys
import time

VERIF = os.path.dirname(os.path.abspath(__file__))
REPO = os.environ.get("VERIF_REPO", "/repo")
BUILD = os.environ.get("VERIF_BUILD_DIR") or os.path.join(VERIF, ".build")
STUB = os.path.join(BUILD, "stub")
LOGS = os.path.join(BUILD, "logs")
CHECKS = json.load(open(os.path.join(VERIF, "checks.json")))


def go_bin():
    cands = [
        "/root/go/pkg/mod/golang.org/toolchain@v0.0.1-go1.26.0.linux-amd64/bin/go",
        shutil.which("go1.26") or "",
        "/opt/veriftools/go1.26.8/bin/go",
    ]
    for c in cands:
        if c and os.path.exists(c):
            return c
    return "go"


def go_env():
    e = dict(os.environ)
    e.update(GOTOOLCHAIN="local", GOFLAGS="-mod=mod", GOPROXY="off", GOSUMDB="off",
             CGO_ENABLED="1", CGO_LDFLAGS="-L" + STUB)
    return e


def sh(cmd, **kw):
    return subprocess.run(cmd, **kw)


def build_stubs():
    os.makedirs(STUB, exist_ok=True)
    for src, lib in (("vm_stub.c", "libjuno_starknet_rs.a"), ("compiler_stub.c", "libjuno_starknet_compiler_rs.a")):
        out = os.path.join(STUB, lib)
        s = os.path.join(VERIF, "stub", src)
        if os.path.exists(out) and os.path.getmtime(out) >= os.path.getmtime(s):
            continue
        o = os.path.join(STUB, src[:-2] + ".o")
        sh(["cc", "-c", "-O1", "-o", o, s], check=True)
        if os.path.exists(out):
            os.remove(out)
        sh(["ar", "rcs", out, o], check=True)


def gen_modfile():
    """Copy of /repo/go.mod with the local replace made absolute and the harness-only
    requirement (porcupine) appended; regenerated on every build so a changed go.mod
    is honoured."""
    os.makedirs(BUILD, exist_ok=True)
    src = open(os.path.join(REPO, "go.mod")).read()
    src = src.replace("=> ./starknet-p2p-specs", "=> %s/starknet-p2p-specs" % REPO)
    src += "\nrequire github.com/anishathalye/porcupine v1.3.0\n"
    mf = os.path.join(BUILD, "alt.mod")
    old = open(mf).read() if os.path.exists(mf) else None
    if old != src:
        open(mf, "w").write(src)
    sums = open(os.path.join(REPO, "go.sum")).read()
    extra = os.path.join(VERIF, "stub", "extra.sum")
    if os.path.exists(extra):
        sums += open(extra).read()
    sf = os.path.join(BUILD, "alt.sum")
    if not os.path.exists(sf) or open(sf).read() != sums:
        open(sf, "w").write(sums)
    return mf


def gen_overlay(pkg):
    m = {}
    for d in ("lib", pkg):
        for f in sorted(glob.glob(os.path.join(VERIF, "h", d, "*.go"))):
            m["%s/verifh/%s/%s" % (REPO, d, os.path.basename(f))] = f
        for f in sorted(glob.glob(os.path.join(VERIF, "h", d, "*", "*.go"))):
            sub = os.path.basename(os.path.dirname(f))
            m["%s/verifh/%s/%s/%s" % (REPO, d, sub, os.path.basename(f))] = f
    # files a check adds to an existing Juno package for its build only (checks.json "inject":
    # {"<repo-relative path>": "<verif-relative source>"}): exports of unexported pieces for the
    # monitors. Nothing is written under /repo.
    for chk in CHECKS.values():
        if chk.get("pkg") == pkg:
            for dst, src in (chk.get("inject") or {}).items():
                m[os.path.join(REPO, dst)] = os.path.join(VERIF, src)
    # optional mutation drill: VERIF_MUTATE="<repo-relative file>=<replacement file>,..."
    mut = os.environ.get("VERIF_MUTATE", "")
    for item in filter(None, mut.split(",")):
        rel, rep = item.split("=", 1)
        m[os.path.join(REPO, rel)] = rep
    p = os.path.join(BUILD, "overlay-%s.json" % pkg)
    json.dump({"Replace": m}, open(p, "w"), indent=1)
    return p


def build(pkg, race):
    build_stubs()
    mf = gen_modfile()
    ov = gen_overlay(pkg)
    out = os.path.join(BUILD, "%s%s.test" % (pkg, ".race" if race else ""))
    cmd = [go_bin(), "test", "-c", "-o", out, "-overlay=" + ov, "-modfile=" + mf, "-vet=off", "-tags", "verif"]
    if race:
        cmd.append("-race")
    cmd.append("./verifh/%s/" % pkg)
    t0 = time.time()
    p = sh(cmd, cwd=REPO, env=go_env(), stdout=subprocess.PIPE, stderr=subprocess.STDOUT, text=True)
    if p.returncode != 0:
        print("BUILD FAILED (%s%s):\n%s" % (pkg, " race" if race else "", p.stdout[-6000:]))
        return None
    print("built %s%s in %.1fs" % (pkg, " (race)" if race else "", time.time() - t0), flush=True)
    return out


RACE_HDR = "WARNING: DATA RACE"
FRAME = re.compile(r"^\s+(\S+)\(.*\)\s*$|^\s+(\S+)\(\)\s*$")


def parse_race_logs(prefix):
    """-> list of dicts {key, juno(bool), text} de-duplicated by the pair of innermost
    Juno (non-harness) functions of the two conflicting accesses."""
    reports = {}
    total = 0
    for f in sorted(glob.glob(prefix + ".*")):
        txt = open(f, errors="replace").read()
        for blk in txt.split("==================")[0:]:
            if RACE_HDR not in blk:
                continue
            total += 1
            stacks = re.split(r"\n\s*\n", blk)
            funcs = []
            for st in stacks[:2]:
                fn = None
                for line in st.splitlines():
                    m = re.match(r"^\s+(github\.com/NethermindEth/juno/\S+)\(", line)
                    if m and "/verifh/" not in m.group(1):
                        fn = m.group(1)
                        break
                funcs.append(fn)
            juno = any(funcs)
            key = "|".join(sorted(x or "harness" for x in funcs))
            if key not in reports:
                reports[key] = {"key": key, "juno": juno, "count": 0, "text": blk.strip()[:6000]}
            reports[key]["count"] += 1
    return total, list(reports.values())


def load_findings():
    p = os.path.join(VERIF, "known_findings.json")
    if not os.path.exists(p):
        return []
    return json.load(open(p)).get("findings", [])


def run_binary(binary, cid, tier, race, extra_env, timeout_s):
    os.makedirs(LOGS, exist_ok=True)
    tag = "%s-%s%s" % (cid, tier, "-race" if race else "")
    part = os.path.join(LOGS, tag + ".part.json")
    log = os.path.join(LOGS, tag + ".log")
    racelog = os.path.join(LOGS, tag + ".racelog")
    for f in [part] + glob.glob(racelog + ".*"):
        if os.path.exists(f):
            os.remove(f)
    env = go_env()
    env.update(extra_env)
    env.update(VERIF_TIER=tier, VERIF_PART=part, VERIF_RACE="1" if race else "0",
               VERIF_SELF=binary, VERIF_DIR=VERIF, VERIF_REPO=REPO)
    env.setdefault("VERIF_SEED", "1")
    if race:
        env["GORACE"] = "halt_on_error=0 log_path=%s" % racelog
    cmd = [binary, "-test.run", "^Test%s$" % cid, "-test.v", "-test.timeout", "0"]
    t0 = time.time()
    with open(log, "w") as lf:
        try:
            p = subprocess.run(cmd, cwd=REPO, env=env, stdout=lf, stderr=subprocess.STDOUT, timeout=timeout_s)
            rc = p.returncode
        except subprocess.TimeoutExpired:
            rc = -999
    wall = time.time() - t0
    res = {"rc": rc, "wall": wall, "log": log, "part": None, "race_total": 0, "race_reports": []}
    if os.path.exists(part):
        res["part"] = json.load(open(part))
    if race:
        res["race_total"], res["race_reports"] = parse_race_logs(racelog)
    return res


def crash_in_juno(log):
    """The harness process died without writing a result. If the log shows a Go panic / fatal
    error whose crashing goroutine consists of Juno and runtime frames only - a goroutine the
    code under test started itself, e.g. a receiver or worker goroutine, which no harness
    recover() can guard - return (class, text): the node would have crashed. A crashing
    goroutine with any harness frame (or started by the harness) stays a broken check."""
    try:
        txt = open(log, errors="replace").read()
    except OSError:
        return None
    m = re.search(r"^(panic: .*|fatal error: .*)$", txt, re.M)
    if not m:
        return None
    rest = txt[m.start():]
    g = re.search(r"^goroutine \d+ \[[^\]]*\]:\n(.*?)(?:\n\n|\Z)", rest, re.M | re.S)
    if not g:
        return None
    block = g.group(1)
    if "verifh/" in block or "/verif/h/" in block:
        return None
    funcs = re.findall(r"^(github\.com/NethermindEth/juno/[^\s(]+(?:\([^)]*\))?[^\s(]*)\(", block, re.M)
    files = re.findall(r"^\t(/repo/[^\s:]+):\d+", block, re.M)
    if not funcs or not files:
        return None
    msg = re.sub(r"0x[0-9a-f]+|\d+", "N", m.group(1))[:80]
    top = re.sub(r"\(\*?([A-Za-z0-9_]+)(\[[^\]]*\])?\)", r"\1", funcs[0].replace("github.com/NethermindEth/juno/", ""))
    return "process-crash:%s:in:%s" % (msg.replace(" ", "-"), top), rest[:6000]


def main():
    args = sys.argv[1:]
    if args and args[0] == "--setup":
        build_stubs()
        ok = True
        claimed = [c for c in CHECKS.values() if c.get("claimed")]
        pkgs = sorted({c["pkg"] for c in claimed})
        for pkg in pkgs:
            need_race = any(c["pkg"] == pkg and c.get("race") for c in claimed)
            if not build(pkg, False):
                ok = False
            if need_race and not build(pkg, True):
                ok = False
        sys.exit(0 if ok else 2)
    if args and args[0] == "--build":
        ok = build(args[1], False) and (("--no-race" in args) or build(args[1], True))
        sys.exit(0 if ok else 2)
    if len(args) < 2 or args[0] not in CHECKS:
        print(__doc__)
        sys.exit(2)
    cid, tier = args[0], args[1]
    chk = CHECKS[cid]
    extra = {}
    if "--replay" in args:
        rp = json.load(open(args[args.index("--replay") + 1]))
        extra["VERIF_SEED"] = str(rp["seed"])
        extra["VERIF_ONLY_CASE"] = str(rp["case"])
        tier = rp.get("tier", tier)
    no_race = "--no-race" in args or ("--replay" in args and not rp.get("race"))
    only_race = "--replay" in args and rp.get("race")
    t0 = time.time()
    seed = int(extra.get("VERIF_SEED", os.environ.get("VERIF_SEED", "1")))
    timeout_s = (45 * 60) if tier == "quick" else (5 * 3600)

    runs = []
    broken = []
    if not only_race:
        b = build(chk["pkg"], False)
        if not b:
            print("BROKEN: harness does not build against the current tree")
            sys.exit(2)
        runs.append(run_binary(b, cid, tier, False, extra, timeout_s))
    if chk.get("race") and not no_race:
        b = build(chk["pkg"], True)
        if not b:
            print("BROKEN: race harness does not build against the current tree")
            sys.exit(2)
        runs.append(run_binary(b, cid, tier, True, extra, timeout_s))

    findings = load_findings()
    evid = {
        "property_id": cid, "tier": tier, "seed": seed, "level": chk["level"],
        "coverage": {"evaluations": 0, "distinct_nontrivial": 0, "rule": "", "samples": [],
                     "counters": {}, "inconclusive": {}, "race_reports_total": 0, "race_runs": 0,
                     "known_findings_hit": [], "notes": []},
        "assumptions": [], "wall_s": 0.0, "violations": 0,
    }
    cov = evid["coverage"]
    viol_lines, known_lines = [], []
    for r in runs:
        p = r["part"]
        if r["rc"] == -999:
            broken.append("watchdog fired after %ds (inconclusive); log %s" % (timeout_s, r["log"]))
            continue
        if p is None:
            crash = crash_in_juno(r["log"])
            if crash is None:
                broken.append("harness exited rc=%s without a result; log %s" % (r["rc"], r["log"]))
                continue
            cls, text = crash
            match = [f for f in findings if f["property"] == cid and f["status"] == "open" and f["class"] == cls]
            if match:
                known_lines.append((cls, "KNOWN-FINDING: property=%s %s [class=%s]" % (cid, match[0]["what"], cls)))
                continue
            d = os.environ.get("VERIF_REPLAY_DIR", os.path.join(VERIF, "replays"))
            d = os.path.join(d, cid)
            os.makedirs(d, exist_ok=True)
            rp = os.path.join(d, "seed%d-%s-crash-%d.json" % (seed, tier, len(viol_lines)))
            json.dump({"property": cid, "seed": seed, "tier": tier, "race": bool(r.get("race")), "case": -1, "class": cls,
                       "brief": "the process running the code under test died: uncaught panic / fatal error in a goroutine "
                                "started by Juno itself (no harness frame on its stack)", "witness": text}, open(rp, "w"), indent=1)
            viol_lines.append("VIOLATION property=%s replay=%s" % (cid, rp))
            cov.setdefault("violation_classes", {})[cls] = cov.get("violation_classes", {}).get(cls, 0) + 1
            cov["notes"].append("the harness process died from a crash inside the code under test; counters of that run are missing")
            print("  [%s] x1 %s" % (cls, text.splitlines()[0][:200]))
            continue
        if r["rc"] != 0:
            broken.append("harness exited rc=%s; log %s" % (r["rc"], r["log"]))
        cov["evaluations"] += p["evaluations"]
        if p["race"]:
            cov["race_runs"] += 1
            cov["race_distinct_nontrivial"] = p["distinct_nontrivial"]
            cov["race_evaluations"] = p["evaluations"]
        else:
            cov["distinct_nontrivial"] = p["distinct_nontrivial"]
            cov["rule"] = p["rule"]
            cov["samples"] = p["samples"]
        for k, v in (p["counters"] or {}).items():
            kk = ("race." + k) if p["race"] else k
            cov["counters"][kk] = cov["counters"].get(kk, 0) + v
        for k, v in (p["inconclusive"] or {}).items():
            cov["inconclusive"][k] = cov["inconclusive"].get(k, 0) + v
        for a in p["assumptions"] or []:
            if a not in evid["assumptions"]:
                evid["assumptions"].append(a)
        for n in p.get("notes") or []:
            if n not in cov["notes"]:
                cov["notes"].append(n)
        if not p["floor_ok"]:
            broken.append("observed nothing: %d distinct non-trivial cases < floor %d (%s)" % (
                p["distinct_nontrivial"], p["floor"], "race" if p["race"] else "plain"))
        seen_cls = set()
        for v in p["violations"] or []:
            if v["class"] in seen_cls:
                continue
            seen_cls.add(v["class"])
            viol_lines.append("VIOLATION property=%s replay=%s" % (cid, v["replay"] or "none"))
            print("  [%s] x%d %s" % (v["class"], (p.get("violation_classes") or {}).get(v["class"], 1), v["brief"][:300]))
        for k, v in (p.get("violation_classes") or {}).items():
            cov.setdefault("violation_classes", {})[k] = cov.get("violation_classes", {}).get(k, 0) + v
        for k in p["known"] or []:
            known_lines.append((k["class"], "KNOWN-FINDING: property=%s %s [class=%s, %d cases]" % (cid, k["what"], k["class"], k["count"])))
        # race reports
        cov["race_reports_total"] += r["race_total"]
        for rep in r["race_reports"]:
            if not rep["juno"]:
                broken.append("data race with harness-only frames: " + rep["key"])
                continue
            cls = "race:" + rep["key"]
            match = [f for f in findings if f["property"] == cid and f["status"] == "open" and f["class"] == cls]
            if match:
                known_lines.append((cls, "KNOWN-FINDING: property=%s %s [class=%s, %d reports]" % (cid, match[0]["what"], cls, rep["count"])))
                continue
            d = os.path.join(VERIF, "replays", cid)
            os.makedirs(d, exist_ok=True)
            rp = os.path.join(d, "seed%d-%s-race-%d.json" % (seed, tier, len(viol_lines)))
            json.dump({"property": cid, "seed": seed, "tier": tier, "race": True, "case": -1, "class": cls,
                       "brief": "data race reported by the Go race detector", "witness": rep["text"]}, open(rp, "w"), indent=1)
            viol_lines.append("VIOLATION property=%s replay=%s" % (cid, rp))
            print("  [%s] %d reports" % (cls, rep["count"]))
    seen = set()
    for cls, line in known_lines:
        if cls in seen:
            continue
        seen.add(cls)
        cov["known_findings_hit"].append(cls)
        print(line)
    for l in viol_lines:
        print(l)
    evid["violations"] = len(viol_lines)
    evid["wall_s"] = round(time.time() - t0, 1)
    if broken:
        cov["broken"] = broken
    if "--replay" not in args:
        evdir = os.environ.get("VERIF_EVIDENCE_DIR", os.path.join(VERIF, "evidence"))
        os.makedirs(evdir, exist_ok=True)
        json.dump(evid, open(os.path.join(evdir, cid + ".json"), "w"), indent=1)
    print("%s %s seed=%d: evaluations=%d distinct=%d race_reports=%d violations=%d known=%d wall=%.0fs" % (
        cid, tier, seed, cov["evaluations"], cov["distinct_nontrivial"], cov["race_reports_total"],
        len(viol_lines), len(seen), evid["wall_s"]))
    if viol_lines:
        sys.exit(1)
    if broken:
        for b in broken:
            print("BROKEN: " + b)
        sys.exit(2)
    sys.exit(0)


if __name__ == "__main__":
    main()
